"""C04 -- DataFrames are immutable; transformations are pure and lazy.

T1  translate/c04_summary.py -> Gen/C04Facts.v   receiver-write summary (with wrapper guard chains), `executes`, wrapper
                                                  predicate, copy()/object_to_dict shape -- regenerated from source
Prf coq/theories/C04/{Heap,Exec}.v + coq/props/C04.v   frame theorems over all call sequences (reachable heaps), laziness,
                                                  executable model refines the relation; instantiation on Gen facts
T3  every last-operation state x every public method / action (and interleavings on siblings):
      black box : twin runs (with / without the follow-up), before/after on the same objects, repeated observation
                  -> columns, unoptimised SQL in the session's output dialect (shows hints; generated names canonicalised),
                     collected rows, schema names
      white box : display names, contents AND identity of pending hint objects, last_op, statements reaching the
                  DB-API connection (proxy passed as conn=) after every step  ==  the Coq model's heap
"""
from __future__ import annotations

import contextlib
import io
import json
import os
import random
import re
import time

from vlib import core
from vlib.core import strlit, listlit, natlit, boollit, optlit

HEADER = """From SF Require Import C04.Heap C04.Exec C04.Check.
From Gen Require Import C04Facts.
From Coq Require Import List String. Import ListNotations.
Open Scope string_scope.
Definition check := Check.check gen_facts.
"""

THEORIES = ["C04/Heap.v", "C04/Exec.v", "C04/Check.v"]


# ------------------------------------------------------------------------------------------------------------
# proxy connection: counts every statement that reaches DuckDB (no source hook)
# ------------------------------------------------------------------------------------------------------------
class CountingConn:
    def __init__(self, real):
        object.__setattr__(self, "_real", real)
        object.__setattr__(self, "n", 0)
        object.__setattr__(self, "log", [])

    def _count(self, sql):
        object.__setattr__(self, "n", self.n + 1)
        if len(self.log) < 50:
            self.log.append(str(sql)[:120])

    def execute(self, sql, *a, **k):
        self._count(sql)
        r = self._real.execute(sql, *a, **k)
        return self if r is self._real else r

    def sql(self, sql, *a, **k):
        self._count(sql)
        return self._real.sql(sql, *a, **k)

    def executemany(self, sql, *a, **k):
        self._count(sql)
        return self._real.executemany(sql, *a, **k)

    def cursor(self):
        return CountingConn.__new__(CountingConn)._init_child(self, self._real.cursor())

    def _init_child(self, parent, real):
        object.__setattr__(self, "_real", real)
        object.__setattr__(self, "_parent", parent)
        object.__setattr__(self, "n", 0)
        object.__setattr__(self, "log", parent.log)
        self.__class__ = _ChildConn
        return self

    def __getattr__(self, name):
        return getattr(self._real, name)


class _ChildConn(CountingConn):
    def _count(self, sql):
        self._parent._count(sql)


_SESSION = None
ENGINE = ["duckdb"]     # engine of THIS process (sqlframe sessions are process-wide singletons): set by the worker


class _NoConn:
    """statement counter of an engine without a connection (Standalone only generates SQL)"""
    n = 0
    log: list = []


def get_session(engine=None):
    """the process-wide session: DuckDB with the counting proxy as conn=, or the connection-less Standalone session
    (the engine whose DataFrame class is BaseDataFrame itself: cache()/persist() are real there)"""
    global _SESSION
    engine = engine or ENGINE[0]
    if _SESSION is None:
        ENGINE[0] = engine
        if engine == "standalone":
            from sqlframe.standalone import StandaloneSession
            _SESSION = (StandaloneSession(), _NoConn())
        else:
            import duckdb
            from sqlframe.duckdb import DuckDBSession
            proxy = CountingConn(duckdb.connect())
            s = DuckDBSession(conn=proxy)
            if s._conn is not proxy:
                raise RuntimeError("a DuckDB session existed before the counting proxy could be installed")
            # a table the sqlframe catalog has never seen: session.sql("SELECT * FROM c04_star") keeps a bare `*`
            proxy._real.execute("CREATE TABLE IF NOT EXISTS c04_star AS SELECT * FROM (VALUES (1, 2, 'x'), (3, 4, 'y'), "
                                "(NULL, 5, 'x')) t(a, b, s)")
            _SESSION = (s, proxy)
    elif ENGINE[0] != engine:
        raise RuntimeError(f"this process already has a {ENGINE[0]} session")
    return _SESSION


def engine_of(state: str) -> str:
    return "standalone" if state.startswith("SA:") else "duckdb"


# ------------------------------------------------------------------------------------------------------------
# the call alphabet: one entry per (public method, argument shape)
#   fn(R, d, o)   -> the Python call on receiver d (o = the DataFrame argument, R = run context with helpers)
#   name          -> the method's name in Gen.C04Facts.methods
#   disp(c0,c1)   -> what the body passes to _update_display_name_mapping (model: dsrc)
#   resolve       -> when _resolve_pending_hints runs against the receiver's own block
# ------------------------------------------------------------------------------------------------------------
def U(s):
    return s.upper()


def _dargs(*items):
    return ("DArgs", list(items))


def mk_alphabet():
    A = {}

    def add(key, name, fn, disp=None, resolve="wrapped", other=None, alias=False, addhint=None, join=False,
            setop=False, retself=False, action=False, group="transformation", rebuilt=False):
        A[key] = dict(key=key, name=name, fn=fn, disp=disp, resolve=resolve, other=other, alias=alias, addhint=addhint,
                      join=join, setop=setop, retself=retself, action=action, group=group, rebuilt=rebuilt)

    # ---- projections that write display names
    add("select_same", "select", lambda R, d, o: d.select(R.c0, R.c1), lambda R: _dargs(("CStr", R.c0), ("CStr", R.c1)))
    add("select_mixed", "select", lambda R, d, o: d.select(R.F.col(U(R.c0)), U(R.c1)),
        lambda R: _dargs(("CCol", U(R.c0)), ("CStr", U(R.c1))))
    add("select_alias", "select", lambda R, d, o: d.select(R.F.col(R.c1).alias(U(R.c0)), R.F.col(R.c0).alias("Q")),
        lambda R: _dargs(("CAliased", U(R.c0)), ("CAliased", "Q")))
    add("select_star", "select", lambda R, d, o: d.select("*"), lambda R: _dargs(("CStar",)))
    add("select_item", "select", lambda R, d, o: d.select(d[U(R.c0)]), lambda R: _dargs(("CCol", U(R.c0))))
    add("select_lit", "select", lambda R, d, o: d.select(R.F.lit(1)), lambda R: _dargs(("CLit",)))
    add("select_none", "select", lambda R, d, o: d.select(), lambda R: _dargs(), retself=True)
    add("agg_alias", "agg", lambda R, d, o: d.agg(R.F.max(R.c0).alias(U(R.c0))), lambda R: _dargs(("CAliased", U(R.c0))))
    add("withColumn_new", "withColumn", lambda R, d, o: d.withColumn("Z", R.F.lit(1)), lambda R: ("DNames", ["Z"]))
    add("withColumn_case", "withColumn", lambda R, d, o: d.withColumn(U(R.c0), R.F.col(R.c1)), lambda R: ("DNames", [U(R.c0)]))
    add("withColumns", "withColumns", lambda R, d, o: d.withColumns({"Z": R.F.lit(1), U(R.c1): R.F.col(R.c0)}),
        lambda R: ("DNames", ["Z", U(R.c1)]))
    add("rename_new", "withColumnRenamed", lambda R, d, o: d.withColumnRenamed(R.c0, "Rn"), lambda R: ("DRename", R.c0, "Rn"))
    add("rename_clash", "withColumnRenamed", lambda R, d, o: d.withColumnRenamed(R.c1, U(R.c0)),
        lambda R: ("DRename", R.c1, U(R.c0)))
    add("rename_missing", "withColumnRenamed", lambda R, d, o: d.withColumnRenamed("nope", "X"),
        lambda R: ("DRename", "nope", "X"))
    # ---- plain transformations
    add("where", "where", lambda R, d, o: d.where(R.F.col(R.c0).isNotNull()))
    add("filter_str", "filter", lambda R, d, o: d.filter(f"{R.c0} IS NOT NULL"))
    add("orderBy", "orderBy", lambda R, d, o: d.orderBy(R.F.col(R.c0).desc()))
    add("sort", "sort", lambda R, d, o: d.sort(R.c0))
    add("limit", "limit", lambda R, d, o: d.limit(1))
    add("distinct", "distinct", lambda R, d, o: d.distinct())
    add("dropDuplicates", "dropDuplicates", lambda R, d, o: d.dropDuplicates())
    add("dropDuplicates_subset", "dropDuplicates", lambda R, d, o: d.dropDuplicates([R.c0]), resolve="always")
    add("drop_duplicates", "drop_duplicates", lambda R, d, o: d.drop_duplicates())
    add("drop", "drop", lambda R, d, o: d.drop(R.c1))
    # dropna: copy().select(..).where(..).select(..) -- the inner where() always wraps, so hints are always resolved
    add("dropna", "dropna", lambda R, d, o: d.dropna(), resolve="always")
    add("fillna", "fillna", lambda R, d, o: d.fillna(0))
    add("replace", "replace", lambda R, d, o: d.replace(1, 2))
    add("na_drop", "na.drop", lambda R, d, o: d.na.drop(), resolve="always")
    add("na_fill", "na.fill", lambda R, d, o: d.na.fill(0))
    add("na_replace", "na.replace", lambda R, d, o: d.na.replace(1, 2))
    add("toDF", "toDF", lambda R, d, o: d.toDF(*[f"n{i}" for i in range(len(d.columns))]),
        lambda R: ("DNames", [f"n{i}" for i in range(len(R.cols))]))
    # every method that takes NAMES also gets a shape whose names differ from existing columns by letter case only
    add("toDF_case", "toDF", lambda R, d, o: d.toDF(*[U(c) for c in R.cols]), lambda R: ("DNames", [U(c) for c in R.cols]))
    add("groupBy_agg_case", "groupBy.agg", lambda R, d, o: d.groupBy(R.c0).agg(R.F.max(R.c1).alias(U(R.c0))),
        lambda R: _dargs(("CStr", R.c0), ("CAliased", U(R.c0))))
    add("unpivot_case", "unpivot", lambda R, d, o: d.unpivot(R.c0, [R.c1], U(R.c0), U(R.c1)), resolve="always", setop=True,
        rebuilt=True)
    add("unionByName_self", "unionByName", lambda R, d, o: d.unionByName(d), other="d", setop=True)
    # BaseDataFrame's own cache()/persist() (engines with cache support; here: Standalone)
    add("cache_base", "cache@base", lambda R, d, o: d.cache(), resolve="always")
    add("persist_base", "persist@base", lambda R, d, o: d.persist(), resolve="always")
    add("copy", "copy", lambda R, d, o: d.copy(), resolve="never")
    add("copy_copy", "__copy__", lambda R, d, o: __import__("copy").copy(d), resolve="never")
    add("cache", "cache", lambda R, d, o: d.cache(), resolve="never", retself=True)
    add("persist", "persist", lambda R, d, o: d.persist(), resolve="never", retself=True)
    # unpivot: hints are resolved on a throw-away copy; the result is rebuilt from the receiver and wrapped without joins
    add("unpivot", "unpivot", lambda R, d, o: d.unpivot(R.c0, [R.c1], "var", "val"), resolve="always", setop=True, rebuilt=True)
    add("groupBy_agg", "groupBy.agg", lambda R, d, o: d.groupBy(R.c0).agg(R.F.max(R.c1).alias("m")))
    add("groupBy_count", "groupBy.count", lambda R, d, o: d.groupBy(R.c0).count())
    add("groupby_sum", "groupBy.sum", lambda R, d, o: d.groupby(R.c0).sum(R.c1))
    add("groupBy_avg", "groupBy.avg", lambda R, d, o: d.groupBy(R.c0).avg(R.c1))
    add("groupBy_mean", "groupBy.mean", lambda R, d, o: d.groupBy(R.c0).mean(R.c1))
    add("groupBy_min", "groupBy.min", lambda R, d, o: d.groupBy(R.c0).min(R.c1))
    add("groupBy_max", "groupBy.max", lambda R, d, o: d.groupBy(R.c0).max(R.c1))
    add("cube_count", "cube.count", lambda R, d, o: d.cube(R.c0).count())
    add("cube_agg", "cube.agg", lambda R, d, o: d.cube(R.c0, R.c1).agg(R.F.max(R.c1).alias("m")))
    for fn_ in ("sum", "avg", "mean", "min", "max"):
        add("cube_" + fn_, "cube." + fn_, (lambda f: lambda R, d, o: getattr(d.cube(R.c0), f)(R.c1))(fn_))
    # ---- binary
    add("join_name", "join", lambda R, d, o: d.join(o, R.c0), other="jn", join=True)
    add("join_expr", "join", lambda R, d, o: d.join(o, d[R.c0] == o["k"], "left"), other="o2", join=True)
    add("crossJoin", "crossJoin", lambda R, d, o: d.crossJoin(o), other="o2", join=True)
    add("union_self", "union", lambda R, d, o: d.union(d), other="d", setop=True)
    add("union", "union", lambda R, d, o: d.union(o), other="c1", setop=True)
    add("unionAll", "unionAll", lambda R, d, o: d.unionAll(o), other="c1", setop=True)
    add("unionByName", "unionByName", lambda R, d, o: d.unionByName(o), other="c1", setop=True)
    add("unionByName_missing", "unionByName", lambda R, d, o: d.unionByName(o, allowMissingColumns=True), other="c1",
        setop=True, resolve="always")
    add("intersect", "intersect", lambda R, d, o: d.intersect(o), other="c1", setop=True)
    add("intersectAll", "intersectAll", lambda R, d, o: d.intersectAll(o), other="c1", setop=True)
    add("exceptAll", "exceptAll", lambda R, d, o: d.exceptAll(o), other="c1", setop=True)
    # ---- hints / alias
    add("alias", "alias", lambda R, d, o: d.alias(R.fresh_alias()), alias=True)
    add("hint_broadcast", "hint", lambda R, d, o: d.hint("broadcast"), addhint=True)
    add("repartition", "repartition", lambda R, d, o: d.repartition(3), addhint=False)
    add("coalesce", "coalesce", lambda R, d, o: d.coalesce(1), addhint=False)
    # ---- actions and metadata
    act = dict(resolve="always", action=True, group="action")
    add("collect", "collect", lambda R, d, o: d.collect(), **act)
    add("head", "head", lambda R, d, o: d.head(), **act)
    add("head_n", "head", lambda R, d, o: d.head(2), **act)
    add("first", "first", lambda R, d, o: d.first(), **act)
    add("show", "show", lambda R, d, o: R.quiet(lambda: d.show()), **act)
    add("toPandas", "toPandas", lambda R, d, o: d.toPandas(), **act)
    add("toArrow", "toArrow", lambda R, d, o: d.toArrow(), **act)
    add("count", "count", lambda R, d, o: d.count(), **act)
    add("isEmpty", "isEmpty", lambda R, d, o: d.isEmpty(), lambda R: _dargs(("CLit",)), **act)
    add("approxQuantile", "approxQuantile", lambda R, d, o: d.approxQuantile(R.num, [0.5], 0.1), lambda R: _dargs(("CLit",)), **act)
    add("corr", "corr", lambda R, d, o: d.corr(R.num, R.num, "pearson"), lambda R: _dargs(("CLit",)), **act)
    add("cov", "cov", lambda R, d, o: d.cov(R.num, R.num), lambda R: _dargs(("CLit",)), **act)
    add("stat_corr", "stat.corr", lambda R, d, o: d.stat.corr(R.num, R.num), lambda R: _dargs(("CLit",)), **act)
    add("stat_cov", "stat.cov", lambda R, d, o: d.stat.cov(R.num, R.num), lambda R: _dargs(("CLit",)), **act)
    add("stat_approxQuantile", "stat.approxQuantile", lambda R, d, o: d.stat.approxQuantile(R.num, [0.5], 0.1),
        lambda R: _dargs(("CLit",)), **act)
    add("explain", "explain", lambda R, d, o: R.quiet(lambda: d.explain()), **act)
    meta = dict(resolve="never", action=True, group="metadata")
    add("schema", "schema", lambda R, d, o: d.schema, **meta)
    add("printSchema", "printSchema", lambda R, d, o: R.quiet(lambda: d.printSchema()), **meta)
    acc = dict(resolve="never", action=True, group="accessor")
    add("sql", "sql", lambda R, d, o: d.sql(), resolve="always", action=True, group="accessor")
    add("sql_unopt", "sql", lambda R, d, o: d.sql(optimize=False, dialect="spark"), resolve="always", action=True, group="accessor")
    add("columns", "columns", lambda R, d, o: d.columns, **acc)
    add("getitem", "__getitem__", lambda R, d, o: (d[R.c0] + 1).alias("Zz"), **acc)
    add("getattr", "__getattr__", lambda R, d, o: getattr(d, R.c0).alias("Zz"), **acc)
    add("na", "na", lambda R, d, o: d.na, **acc)
    add("stat", "stat", lambda R, d, o: d.stat, **acc)
    add("sparkSession", "sparkSession", lambda R, d, o: d.sparkSession, **acc)
    add("tempView", "createOrReplaceTempView", lambda R, d, o: d.createOrReplaceTempView(R.fresh_alias()),
        resolve="always", action=True, group="accessor")
    add("lineage", "lineage", lambda R, d, o: d.lineage(R.c0), resolve="always", action=True, group="accessor")
    return A


ALPHABET = mk_alphabet()
SHARES_HINTS = [False]   # generated fact (copy() keeps the very hint objects?), set by run() before the workers fork

# states: how `d` is built (a list of alphabet keys applied in sequence to the base table `df`)
STATES = {
    "INIT": [],
    "WHERE": ["where"],
    "SELECT": ["select_same3"],
    "SELECT_mixed": ["select_mixed3"],
    "ORDER_BY": ["orderBy"],
    "LIMIT": ["limit5"],
    "FROM_join": ["join_base"],
    "SELECT_groupagg": ["groupBy_agg_base"],
    "FROM_union": ["union_base"],
    "NO_OP_alias": ["alias"],
    "SELECT_withColumn": ["withColumn_new"],
    "FROM_dropna": ["dropna"],
    "WHERE_after_select": ["select_mixed3", "where"],
    "HINT": ["hint_broadcast"],
    "HINT_join": ["hint_broadcast", "join_base"],
    "HINT_where": ["hint_broadcast", "where"],
    "REPARTITION": ["repartition"],
    "REPARTITION_where": ["repartition", "where"],
    # a frame whose projection is a bare `*` (session.sql over a table the catalog has not seen)
    "STAR": [],
    "STAR_distinct": ["distinct"],
    # Standalone session (BaseDataFrame's own method resolution order; cache()/persist() are real; no connection)
    "SA:WHERE": ["where"],
    "SA:CACHE": ["cache_base"],
    "SA:CACHE_where": ["cache_base", "where"],
    "SA:SELECT_cache": ["select_same3", "cache_base"],
    "SA:PERSIST_join": ["persist_base", "join_base"],
}
BASE_OF = {"STAR": "star", "STAR_distinct": "star"}
STAR_KEYS = ["union_self", "unionByName_self", "toDF", "limit", "distinct", "dropDuplicates", "select_star", "alias",
             "hint_broadcast", "collect", "count", "sql", "columns", "cache"]
HINT_STATES = {"HINT", "HINT_join", "HINT_where", "REPARTITION", "REPARTITION_where"}


def _more_builders():
    A = ALPHABET
    base = dict(disp=None, resolve="wrapped", other=None, alias=False, addhint=None, join=False, setop=False,
                retself=False, action=False, group="builder", rebuilt=False)
    A["select_same3"] = dict(base, key="select_same3", name="select", fn=lambda R, d, o: d.select("a", "b", "s"),
                             disp=lambda R: _dargs(("CStr", "a"), ("CStr", "b"), ("CStr", "s")))
    A["select_mixed3"] = dict(base, key="select_mixed3", name="select", fn=lambda R, d, o: d.select(R.F.col("A"), "b", "s"),
                              disp=lambda R: _dargs(("CCol", "A"), ("CStr", "b"), ("CStr", "s")))
    A["limit5"] = dict(base, key="limit5", name="limit", fn=lambda R, d, o: d.limit(5))
    A["join_base"] = dict(base, key="join_base", name="join", fn=lambda R, d, o: d.join(o, "a"), other="jn", join=True)
    A["groupBy_agg_base"] = dict(base, key="groupBy_agg_base", name="groupBy.agg",
                                 fn=lambda R, d, o: d.groupBy("s").agg(R.F.sum("b").alias("sb")))
    A["union_base"] = dict(base, key="union_base", name="union", fn=lambda R, d, o: d.union(o), other="u", setop=True)
    A["child_where"] = dict(base, key="child_where", name="where", fn=lambda R, d, o: d.where(R.F.col(R.c1).isNotNull()))
    A["child_join"] = dict(base, key="child_join", name="join", fn=lambda R, d, o: d.join(o, R.c0), other="jn", join=True)
    A["obs"] = dict(base, key="obs", name="collect", fn=None, resolve="always", action=True, group="observe")


_more_builders()

BASE_ROWS = {
    "df": ([(1, 2, "x"), (3, 4, "y"), (None, 5, "x"), (3, 4, "y")], ["a", "b", "s"]),
    "jn": ([(1, 10), (3, 30), (7, 70)], ["a", "c"]),
    "o2": ([(1, 100), (5, 500)], ["k", "v"]),
    "u": ([(9, 9, "z")], ["a", "b", "s"]),
}

_CANON = re.compile(r"\b(?P<T>t\d{4,9})\b|\b(?P<A>a\d{1,6})\b|\b(?P<R>r[0-9a-f]{32})\b|\b(?P<X>[0-9a-f]{32})\b")


def canon_sql(text: str) -> str:
    """generated names -> T<k> (CTE hash names) / A<k> (VALUES aliases) / R<k> (random ids) / X<k> (uuid literals),
    numbered by first appearance; the KIND of name is kept so that an unresolved id differs from a CTE name"""
    names = {}

    def rep(m):
        k = m.group(0)
        if k not in names:
            kind = m.lastgroup
            names[k] = f"{kind}{sum(1 for v in names.values() if v[0] == kind)}"
        return names[k]
    return _CANON.sub(rep, text)


class Raised(Exception):
    pass


class Run:
    """executes a script on the implementation, recording what the Coq model needs and what the property looks at"""

    ALIAS_CTR = [0]

    def __init__(self, with_schema=False):
        if ENGINE[0] == "standalone":
            import sqlframe.standalone.functions as F
            with_schema = False
        else:
            import sqlframe.duckdb.functions as F
        from sqlframe.base.util import get_tables_from_expression_with_join
        self.engine = ENGINE[0]
        self.F = F
        self._gtj = get_tables_from_expression_with_join
        self.session, self.proxy = get_session()
        self.vars: dict[str, object] = {}
        self.order: list[str] = []
        self._num: dict[str, int] = {}
        self.steps: list[dict] = []          # model steps with expectations
        self.obs: dict[tuple, dict] = {}     # (var, round) -> black-box observation
        self.obs_order: list[tuple] = []     # (var, round) in the order the observations were made
        self.with_schema = with_schema
        self.c0 = self.c1 = self.num_col = None
        self.cols = []

    def fresh_alias(self):
        Run.ALIAS_CTR[0] += 1
        return f"al{Run.ALIAS_CTR[0]}"

    @staticmethod
    def quiet(f):
        with contextlib.redirect_stdout(io.StringIO()):
            return f()

    def n(self, name) -> int:
        name = str(name)
        if name not in self._num:
            self._num[name] = len(self._num) + 1
        return self._num[name]

    # ---- white box
    def hint_desc(self, h):
        from sqlglot import exp
        if isinstance(h, exp.JoinHint):
            tgt = h.expressions[0].alias_or_name if h.expressions else ""
            kind = "TCte" if re.fullmatch(r"t\d+", tgt or "") else "TSeq"
            return (True, kind, self.n(tgt))
        return (False, "TSeq", 0)

    def snapshot(self):
        snaps = []
        seen: list[tuple[int, int, object]] = []
        for vi, v in enumerate(self.order):
            d = self.vars[v]
            hints, refs = [], []
            for j, h in enumerate(d.pending_hints):
                hints.append(self.hint_desc(h))
                ref = None
                for (vi2, j2, h2) in seen:
                    if h2 is h:
                        ref = (vi2, j2)
                        break
                refs.append(ref)
                seen.append((vi, j, h))
            try:
                cols = list(d.columns)
            except Exception as ex:  # pragma: no cover
                cols = ["<" + type(ex).__name__ + ">"]
            snaps.append({"cols": cols, "hints": hints, "refs": refs, "last": d.last_op.name})
        return snaps

    def resinfo(self, r):
        e = r.expression
        cols = list(e.named_selects)
        ctes = [(self.n(c.alias_or_name), self.n(c.args.get("sequence_id"))) for c in e.ctes]
        joins = [self.n(t.alias_or_name) for t in self._gtj(e)] if e.args.get("joins") else []
        return {"cols": cols, "ctes": ctes, "joins": joins, "dnm": list(r.display_name_mapping.items()),
                "seq": self.n(r.sequence_id)}

    # ---- steps
    def create(self, var, snap=False):
        n0 = self.proxy.n
        if var == "star":
            d = self.session.sql("SELECT * FROM c04_star")
        else:
            rows, cols = BASE_ROWS[var]
            d = self.session.createDataFrame(rows, cols)
        self.vars[var] = d
        self.order.append(var)
        self.steps.append({"kind": "create", "var": var, "res": self.resinfo(d), "snap": self.snapshot() if snap else None,
                           "exec": self.proxy.n > n0, "raised": None})

    def set_cols(self, d):
        cols = [c.lower() for c in d.expression.named_selects]
        self.cols = cols
        self.c0, self.c1 = cols[0], cols[1 if len(cols) > 1 else 0]
        self.num_col = next((c for c in cols if c in ("a", "b", "c", "sb", "k", "v")), cols[0])

    def call(self, recv, key, resvar=None, snap=True):
        a = ALPHABET[key]
        d = self.vars[recv]
        self.set_cols(d)
        other = a["other"]
        if other == "d":
            other = recv
        if other is not None and other not in self.vars:
            raise Raised(f"argument {other} not available")
        o = self.vars.get(other) if other else None
        n0 = self.proxy.n
        raised = None
        r = None
        R = _Ctx(self)
        try:
            r = a["fn"](R, d, o)
        except Exception as ex:
            raised = f"{type(ex).__name__}: {str(ex)[:100]}"
        executed = self.proxy.n - n0
        from sqlframe.base.dataframe import BaseDataFrame
        res = None
        newvar = None
        if isinstance(r, BaseDataFrame) and not any(r is x for x in self.vars.values()):
            newvar = resvar or f"r{len(self.order)}"
            self.vars[newvar] = r
            self.order.append(newvar)
            res = self.resinfo(r)
        disp = a["disp"](R) if a["disp"] else None
        self.steps.append({"kind": "call", "key": key, "name": a["name"], "recv": self.order.index(recv),
                           "other": self.order.index(other) if other else None, "res": res, "disp": disp,
                           "alias_seq": res["seq"] if (a["alias"] and res) else None,
                           "snap": self.snapshot() if snap else None, "exec": executed > 0, "nstmt": executed, "raised": raised,
                           "returned_self": r is d, "newvar": newvar, "group": a["group"]})
        return r

    def observe(self, var, rnd, collect=True, snap=False):
        """black-box observation of one DataFrame (what the property talks about); modelled as one `collect`"""
        d = self.vars[var]
        o = {}
        try:
            o["columns"] = list(d.columns)
            o["sql"] = canon_sql(d.sql(optimize=False, pretty=False))
            if collect and self.engine == "duckdb":
                rows = d.collect()
                o["row_names"] = list(rows[0].__fields__) if rows else []
                o["rows"] = sorted([tuple(r) for r in rows], key=repr)
            if self.with_schema:
                o["schema"] = [f.name for f in d.schema.fields]
        except Exception as ex:
            o["error"] = f"{type(ex).__name__}: {str(ex)[:80]}"
        self.obs[(var, rnd)] = o
        self.obs_order.append((var, rnd))
        self.steps.append({"kind": "obs", "var": self.order.index(var), "snap": self.snapshot() if snap else None, "exec": True})
        return o


class _Ctx:
    """what the alphabet lambdas see"""

    def __init__(self, run: Run):
        self.F = run.F
        self.c0, self.c1, self.num, self.cols = run.c0, run.c1, run.num_col, list(run.cols)
        self.fresh_alias = run.fresh_alias
        self.quiet = run.quiet


# ------------------------------------------------------------------------------------------------------------
# Coq terms
# ------------------------------------------------------------------------------------------------------------
_NAME_OK = re.compile(r"^[A-Za-z0-9_()*. <>=+`-]*$")   # no separator of the digest format


def hint_coq(h):
    j, kind, n = h
    return f"(mkHv {boollit(j)} ({kind} {natlit(n)}))"


def res_term(res):
    e = (f"(mkE {listlit([strlit(c) for c in res['cols']])} "
         f"{listlit([f'({natlit(a)}, {natlit(b)})' for a, b in res['ctes']])} {listlit([natlit(x) for x in res['joins']])})")
    dn = listlit([f"({strlit(k)}, {strlit(v)})" for k, v in res["dnm"]])
    return f"(mkR {e} {dn} {natlit(res['seq'])})"


def disp_coq(disp):
    if disp is None:
        return "DNone"
    if disp[0] == "DArgs":
        items = []
        for it in disp[1]:
            items.append(f"({it[0]} {strlit(it[1])})" if len(it) == 2 else it[0])
        return f"(DArgs {listlit(items)})"
    if disp[0] == "DNames":
        return f"(DNames {listlit([strlit(x) for x in disp[1]])})"
    return f"(DRename {strlit(disp[1])} {strlit(disp[2])})"


def snap_coq(s):
    refs = listlit(["None" if r is None else f"(Some ({natlit(r[0])}, {natlit(r[1])}))" for r in s["refs"]])
    return (f"(mkS {listlit([strlit(c) for c in s['cols']])} {listlit([hint_coq(h) for h in s['hints']])} "
            f"{refs} {s['last']})")


def step_coq(st):
    exp_ = "None" if st["snap"] is None else \
        f"(Some (mkX {listlit([snap_coq(s) for s in st['snap']])} {boollit(st['exec'])}))"
    if st["kind"] == "create":
        return f"(PCreate {res_term(st['res'])}, {exp_})"
    if st["kind"] == "obs":
        return f"(PObs {natlit(st['var'])}, {exp_})"
    a = ALPHABET[st["key"]]
    resolve = {"wrapped": "RIfWrapped", "always": "RAlways", "never": "RNever"}[a["resolve"]]
    if a.get("rebuilt") and not SHARES_HINTS[0]:
        # the hints are resolved on a throw-away copy; when copy() copies hint objects (generated fact) that has no
        # effect on the objects the result is rebuilt from
        resolve = "RNever"
    k = (f"(mkK {disp_coq(st['disp'])} {resolve} {boollit(a['other'] is not None and (a['join'] or a['setop']))} "
         f"{optlit(natlit(st['alias_seq']) if st['alias_seq'] is not None else None)} "
         f"{optlit(boollit(a['addhint']) if a['addhint'] is not None else None)} {boollit(a['join'])} {boollit(a['setop'])} "
         f"{boollit(a['retself'])} {boollit(a.get('rebuilt', False))})")
    other = optlit(natlit(st["other"]) if st["other"] is not None else None)
    res = "None" if st["res"] is None else f"(Some {res_term(st['res'])})"
    return f"(PCall {strlit(st['name'])} {k} {natlit(st['recv'])} {other} {res}, {exp_})"


def case_coq(steps, follow: int, nfollow: int):
    return f"(mkCase {listlit([step_coq(s) for s in steps])} {natlit(follow)} {natlit(nfollow)})"


def names_ok(run: Run):
    for st in run.steps:
        for s in st.get("snap") or []:
            if not all(_NAME_OK.match(c) for c in s["cols"]):
                return False
        if st.get("res") and not all(_NAME_OK.match(c) for c in st["res"]["cols"] + [x for kv in st["res"]["dnm"] for x in kv]):
            return False
    return True


# ------------------------------------------------------------------------------------------------------------
# scenarios
# ------------------------------------------------------------------------------------------------------------
BASES = ("df", "jn", "o2", "u", "star")


def base_of(state):
    return BASE_OF.get(state, "df")


def dname_of(state):
    return "d" if STATES[state] else base_of(state)


def needed_bases(state, fkeys):
    need = {base_of(state)}
    for key in list(STATES[state]) + [k for k, _ in fkeys] + ([] if state in BASE_OF else ["child_join"]):
        o = ALPHABET[key]["other"]
        if o in BASES:
            need.add(o)
    return [b for b in BASES if b in need]


def build_state(run: Run, state: str, fkeys=()):
    """base tables, `d` in the requested last-operation state, and relatives that exist BEFORE the follow-up:
    a child c1 = d.where(..) (d.limit(5) for a star frame); for states with pending hints also c2 = c1.join(jn) and
    c3 = d.join(jn), which share d's hint objects"""
    for v in needed_bases(state, fkeys):
        run.create(v)
    cur = base_of(state)
    for i, key in enumerate(STATES[state]):
        nv = "d" if i == len(STATES[state]) - 1 else f"m{i}"
        run.call(cur, key, nv, snap=False)
        if run.steps[-1]["raised"] or run.steps[-1]["newvar"] is None:
            raise Raised(f"state builder {key} failed: {run.steps[-1]['raised']}")
        cur = nv
    d_name = dname_of(state)
    run.call(d_name, "limit5" if state in BASE_OF else "child_where", "c1", snap=False)
    if run.steps[-1]["raised"]:
        raise Raised("child failed")
    cols = [c.lower() for c in run.vars[d_name].expression.named_selects]
    if cols[0] == "a" and (state in HINT_STATES or state == "FROM_join"):
        run.call("c1", "child_join", "c2", snap=False)
        run.call(d_name, "child_join", "c3", snap=True)
    else:
        run.steps[-1]["snap"] = run.snapshot()
    return d_name


def observed_vars(run: Run, before_vars, involved, thorough):
    """which existing DataFrames get a black-box look: everything derived from the data + the tables involved"""
    return [v for v in before_vars if thorough or v not in BASES or v in ("df", "star") or v in involved]


def observe_round(run: Run, vars_, rnd, dname, thorough, involved):
    sa = run.engine == "standalone"
    for i, v in enumerate(vars_):
        collect = thorough or v == dname or v in involved
        run.observe(v, rnd, collect=collect, snap=(i == len(vars_) - 1) and not sa)
    if sa and vars_:
        # no statement reaches an engine there (the model's observation counts one): the white-box comparison of this
        # round is attached to a trailing `columns` access instead
        run.call(dname, "columns", snap=True)


_CONTROL = {}
CONTROL_KEYS = (("join_expr", None), ("union_base", None))   # makes the control run create every base table


def control(state, thorough):
    """the control run of a state (no follow-up): observations + the model case; independent of the follow-up"""
    key = (state, thorough)
    if key not in _CONTROL:
        B = Run(with_schema=thorough)
        # the control creates every base table; observations are compared per variable, so extra ones do no harm
        dname = build_state(B, state, () if state in BASE_OF else CONTROL_KEYS)
        before = list(B.order)
        vars_ = observed_vars(B, before, set(before), True)   # control observes every variable
        nstep = len(B.steps)
        observe_round(B, vars_, 1, dname, True, set(vars_))
        _CONTROL[key] = {"obs": {v: B.obs[(v, 1)] for v in vars_}, "obs_order": [v for v, _ in B.obs_order],
                         "case": case_coq(B.steps, nstep, 0), "ok": names_ok(B)}
    return _CONTROL[key]


def diff_obs(a: dict, b: dict):
    return [k for k in sorted(set(a) & set(b) | {"error"} & (set(a) | set(b))) if a.get(k) != b.get(k)]


def role_of(var: str, recv: str, other):
    if var == recv:
        return "receiver"
    if other and var == other:
        return "argument"
    if var in BASES or var.startswith("m"):
        return "ancestor-or-base"
    return "relative"


DISPLAY_METHODS = {"select", "agg", "withColumn", "withColumns", "withColumnRenamed"}
NAME_FIELDS = {"columns", "sql", "row_names", "schema"}


def signature(method: str, role: str, fields, hint_only: bool) -> str:
    if method in DISPLAY_METHODS and role == "receiver" and set(fields) <= NAME_FIELDS and "columns" in fields:
        return f"C04/{method}-writes-receiver-display-names"
    if hint_only and method == "alias":
        return "C04/alias-rewrites-shared-join-hint"
    if hint_only:
        return "C04/hint-resolution-rewrites-shared-join-hint"
    return f"C04/{method}:{role}:{'+'.join(fields)}"


_HINT_RE = re.compile(r"/\*\+.*?\*/")


def only_hint_differs(a: dict, b: dict, fields) -> bool:
    return list(fields) == ["sql"] and _HINT_RE.sub("", a.get("sql", "")) == _HINT_RE.sub("", b.get("sql", ""))


def scenario(state, fkeys, protocol, thorough=False):
    """run one scenario on the implementation; returns plain data (picklable)"""
    out = {"state": state, "follow": fkeys, "protocol": protocol}
    A = Run(with_schema=thorough)
    try:
        dname = build_state(A, state, fkeys)
    except Raised as ex:
        out["skip"] = str(ex)
        return out
    before_vars = list(A.order)
    involved = set()
    for key, rv in fkeys:
        o = ALPHABET[key]["other"]
        involved.add(dname if o == "d" else o)
        involved.add(rv or dname)
    involved.discard(None)
    vars_ = observed_vars(A, before_vars, involved, thorough)
    if protocol == "C":
        observe_round(A, vars_, 0, dname, thorough, involved)
    follow_idx = len(A.steps)
    calls = []
    for key, rv in fkeys:
        recv = dname if rv is None else rv
        if recv not in A.vars:
            out["skip"] = f"receiver {recv} missing"
            return out
        try:
            A.call(recv, key)
        except Raised as ex:
            out["skip"] = str(ex)
            return out
        c = dict(A.steps[-1])
        c["recv_name"] = A.order[c["recv"]]
        c["other_name"] = A.order[c["other"]] if c["other"] is not None else None
        calls.append(c)
    observe_round(A, vars_, 1, dname, thorough, involved)
    # second look (repeating an action must give the same answer): everything in the thorough tier; in the quick tier
    # the DataFrames involved, when the follow-up itself was an action / metadata call / accessor
    if thorough:
        rep_vars = vars_
    elif any(c["group"] != "transformation" for c in calls):
        rep_vars = [v for v in vars_ if v == dname or v in involved]
    else:
        rep_vars = []
    if rep_vars:
        observe_round(A, rep_vars, 2, dname, thorough, involved)
    if not names_ok(A):
        out["skip"] = "a generated name is not a plain identifier"
        return out
    ctl = control(state, thorough) if protocol == "A" else None
    first = calls[0]
    devs = []
    for v in vars_:
        ref = ctl["obs"][v] if ctl else A.obs[(v, 0)]
        got = A.obs[(v, 1)]
        fields = diff_obs(ref, got)
        if fields:
            devs.append({"kind": "existing-changed", "var": v, "role": role_of(v, first["recv_name"], first["other_name"]),
                         "fields": fields, "hint_only": only_hint_differs(ref, got, fields),
                         "reference": _short(ref), "after": _short(got)})
    for v in rep_vars:
        rep = diff_obs(A.obs[(v, 1)], A.obs[(v, 2)])
        if rep:
            devs.append({"kind": "repeat-differs", "var": v, "role": role_of(v, first["recv_name"], first["other_name"]),
                         "fields": rep, "hint_only": False, "reference": _short(A.obs[(v, 1)]), "after": _short(A.obs[(v, 2)])})
    for c in calls:
        if c["group"] in ("transformation", "builder") and c["nstmt"] > 0:
            devs.append({"kind": "transformation-executes", "var": c["recv_name"], "role": "receiver", "fields": ["statements"],
                         "hint_only": False, "reference": 0, "after": c["nstmt"]})
    out.update({"case": case_coq(A.steps, follow_idx, len(calls)), "order": list(A.order), "obs_order": list(A.obs_order),
                "vars": vars_, "rep_vars": rep_vars, "calls": [{k: c[k] for k in ("key", "name", "recv_name", "other_name", "raised", "nstmt", "group",
                                                                              "returned_self")} for c in calls],
                "devs": devs, "before_vars": before_vars, "dname": dname,
                "control_case": ctl["case"] if ctl else None, "control_order": ctl["obs_order"] if ctl else None})
    return out


def _short(o):
    if isinstance(o, dict):
        return {k: (v if len(repr(v)) < 700 else repr(v)[:700] + "...") for k, v in o.items()}
    return o


def describe(sc):
    return {"state": sc["state"], "state_recipe": STATES[sc["state"]], "protocol": sc["protocol"],
            "follow_up": [{"method": c["name"], "key": c["key"], "receiver": c["recv_name"], "argument": c["other_name"],
                           "raised": c["raised"], "statements": c["nstmt"]} for c in sc["calls"]],
            "existing_dataframes": sc["before_vars"], "observed": sc["vars"]}


def _worker(args):
    import logging
    import warnings
    logging.disable(logging.CRITICAL)
    warnings.filterwarnings("ignore")
    specs, thorough, engine = args
    get_session(engine)
    out = []
    t = time.process_time()
    for state, fkeys, proto in specs:
        try:
            out.append(scenario(state, fkeys, proto, thorough))
        except Exception as ex:   # a crash of the harness itself must not look like agreement
            out.append({"state": state, "follow": fkeys, "protocol": proto, "crash": f"{type(ex).__name__}: {ex}"})
    if out:
        out[0]["cpu_s"] = time.process_time() - t
    return out


# ------------------------------------------------------------------------------------------------------------
QUICK_STATES = ["INIT", "WHERE", "SELECT", "SELECT_mixed", "ORDER_BY", "LIMIT", "FROM_join", "SELECT_groupagg", "NO_OP_alias",
                "WHERE_after_select", "HINT", "HINT_join", "REPARTITION_where"]
CORE_STATES = ["WHERE", "HINT_join"]


REDUCED_KEYS = ["select_mixed", "select_alias", "select_none", "agg_alias", "withColumn_case", "withColumns",
                "rename_clash", "where", "orderBy", "limit", "distinct", "drop", "dropna", "fillna", "toDF_case", "groupBy_agg_case",
                "unpivot_case",
                "cube_count", "join_name", "union", "unpivot", "alias", "hint_broadcast", "repartition", "collect", "head",
                "count", "isEmpty", "schema", "sql", "getitem", "cache"]


def reduced_alphabet(follow):
    """quick tier, non-core states: one representative per family of methods + every shape that writes display names"""
    return [k for k in follow if k in REDUCED_KEYS]


def corpus():
    """the scenarios of the staged / repaired findings (findings/C04-*.json) run first"""
    out = []
    try:
        with open(os.path.join(core.VERIF, "findings", "C04.known.json")) as f:
            listed = json.load(f).get("findings", [])
    except OSError:
        listed = []
    for k in listed:
        try:
            with open(os.path.join(core.VERIF, k["replay"])) as f:
                r = json.load(f)["replay"]
            dname = dname_of(r["state"])
            fk = [(x["key"], None if x["receiver"] == dname else x["receiver"]) for x in r["follow_up"]]
            if all(key in ALPHABET for key, _ in fk):
                out.append((r["state"], fk, r.get("protocol", "A")))
        except (OSError, KeyError, ValueError):
            continue
    return out


def plan(ctx):
    rnd = random.Random(ctx.seed)
    follow_all = [k for k, a in ALPHABET.items() if a["group"] in ("transformation", "action", "metadata", "accessor")]
    follow = [k for k in follow_all if k not in ("cache_base", "persist_base")]    # DuckDB shadows BaseDataFrame.cache/persist
    thorough = ctx.tier == "thorough"
    states = [s_ for s_ in STATES if s_ not in BASE_OF and not s_.startswith("SA:")] if thorough else QUICK_STATES
    reduced = reduced_alphabet(follow)
    scen = corpus()
    for state in states:
        for k in (follow if thorough or state in CORE_STATES else reduced):
            scen.append((state, [(k, None)], "A"))
    # a frame with a bare `*` projection: the follow-ups that need no column name
    for state in BASE_OF:
        for k in STAR_KEYS:
            scen.append((state, [(k, None)], "A"))
    # Standalone (no connection): transformations and accessors; cache()/persist() are BaseDataFrame's own there
    sa_follow = [k for k in follow_all if ALPHABET[k]["group"] in ("transformation", "accessor")
                 and k not in ("cache", "persist", "lineage")]
    sa_quick = [k for k in sa_follow if k in ("select_mixed", "withColumn_case", "rename_clash", "toDF_case", "groupBy_agg_case",
                                              "unpivot_case", "where", "orderBy", "limit", "drop", "join_name", "union", "alias",
                                              "hint_broadcast", "cache_base", "persist_base", "columns", "sql", "sql_unopt", "getitem")]
    for state in (s_ for s_ in STATES if s_.startswith("SA:")):
        for k in (sa_follow if thorough else sa_quick):
            scen.append((state, [(k, None)], "A"))
        for k in ("sql", "where", "cache_base"):
            scen.append((state, [(k, None)], "C"))
    # before/after on the same objects (observation first)
    writers = [k for k in follow if ALPHABET[k]["name"] in DISPLAY_METHODS or k in ("alias", "collect", "isEmpty", "corr", "where")]
    for state in states:
        ks = list(writers) if thorough else rnd.sample(writers, 2)
        for k in ks:
            scen.append((state, [(k, None)], "C"))
    # actions / wraps on a RELATIVE that shares hint objects with d (the control run looks at d, c1, c2, c3 in this order)
    for state in (s_ for s_ in states if s_ in HINT_STATES):
        for k in (("collect", "sql", "count", "select_same", "orderBy", "alias") if thorough else ("collect", "select_same", "alias")):
            for rv in ("c3", "c2"):
                scen.append((state, [(k, rv)], "A"))
    # interleavings on siblings / relatives
    core_ = ["select_mixed", "withColumn_case", "rename_clash", "agg_alias", "where", "orderBy", "limit", "join_name",
             "union_self", "alias", "hint_broadcast", "collect", "count", "sql", "drop", "distinct", "groupBy_count"]
    pairs = []
    for state in (s_ for s_ in STATES if s_ not in BASE_OF and not s_.startswith("SA:")):
        for k1 in core_:
            for k2 in core_:
                for r1, r2 in ((None, "c1"), ("c1", None), (None, None)):
                    pairs.append((state, [(k1, r1), (k2, r2)], "A"))
    rnd.shuffle(pairs)
    scen += pairs[: (60 if not thorough else 2000)]
    return scen


def run_impl(ctx, scen):
    """the implementation runs in <= 8 worker processes (each with its own process-wide DuckDB session); a wall-clock
    deadline keeps the tier inside its budget -- scenarios not started by then are dropped and COUNTED"""
    from concurrent.futures import ProcessPoolExecutor, as_completed
    import multiprocessing as mp
    thorough = ctx.tier == "thorough"
    deadline = time.time() + (150 if ctx.tier == "quick" else 780)
    results, dropped, cancelled = [], 0, False
    pools, futs = [], {}
    try:
        # sqlframe sessions are process-wide singletons: one pool of worker processes per engine (<= 8 processes in all)
        for engine, nproc in (("duckdb", 6), ("standalone", 2)):
            part = [sc for sc in scen if engine_of(sc[0]) == engine]
            if not part:
                continue
            nchunk = nproc * (4 if ctx.tier == "quick" else 40)
            ex = ProcessPoolExecutor(max_workers=nproc, mp_context=mp.get_context("fork"))
            pools.append(ex)
            for c in (part[i::nchunk] for i in range(nchunk)):
                if c:
                    futs[ex.submit(_worker, (c, thorough, engine))] = c
        for f in as_completed(futs):
            if f.cancelled():
                continue
            results.extend(f.result())
            if time.time() > deadline and not cancelled:
                cancelled = True
                for g in futs:
                    if g.cancel():
                        dropped += len(futs[g])
    finally:
        for ex in pools:
            ex.shutdown(wait=True, cancel_futures=True)
    if dropped:
        ctx.log(f"deadline reached: {dropped} scenarios were not run")
    ctx.coverage["scenarios_dropped_by_deadline"] = dropped
    return results


def parse_digests(r):
    parts = r.split(";")
    if len(parts) < 6:
        return None
    agree, where, safe, raw, thm = parts[:5]
    dig = ";".join(parts[5:]).split("!") if ";".join(parts[5:]) else []
    return agree, where, safe, raw, thm, dig


def drop_repaired_from_known(ctx):
    """findings/C04.known.json is authoritative for this property: a signature listed there as "fixed" must be reported
    as a VIOLATION if it ever comes back, even while a stale "known" copy of it sits in the merged known_findings.json"""
    try:
        with open(os.path.join(core.VERIF, "findings", "C04.known.json")) as f:
            fixed = {k["signature"] for k in json.load(f).get("findings", []) if k.get("status") == "fixed"}
    except (OSError, ValueError):
        fixed = set()
    ctx.known = [k for k in ctx.known if k.get("signature") not in fixed or k.get("status") == "fixed"]
    ctx.coverage["fixed_findings_watched"] = sorted(fixed)


def run(ctx: core.Ctx):
    from translate import c04_summary
    drop_repaired_from_known(ctx)
    # ---- T1
    t1_ok = True
    entries = []
    try:
        text, facts, entries = c04_summary.generate(core.REPO)
        ctx.gen("C04Facts", text, facts)
        SHARES_HINTS[0] = any(f.get("copy_shares_hint_objects") for f in facts)
    except Exception as ex:
        ctx.broken("T1:c04_summary", f"{type(ex).__name__}: {ex}")
        t1_ok = False
    # ---- proofs
    if t1_ok:
        ctx.prove([ctx.build + "/gen/C04Facts.v", core.COQ + "/props/C04.v"], dep_theories=THEORIES)
    else:
        # the case files need Gen.C04Facts: fall back to the facts of the pinned source so that the search can run
        pinned = open(core.VERIF + "/translate/c04_facts_pinned.v").read()
        ctx.gen("C04Facts", pinned)
        SHARES_HINTS[0] = "copy_shares_hints : bool := true" in pinned
        ctx.coqc(ctx.build + "/gen/C04Facts.v")
    # ---- T3: implementation
    scen = plan(ctx)
    t0 = time.time()
    results = run_impl(ctx, scen)
    crashed = [r for r in results if r.get("crash")]
    if crashed:
        ctx.broken("T3:harness-crashed", f"{len(crashed)} scenarios crashed in the harness; first: {crashed[0]['state']} "
                   f"{crashed[0]['follow']}: {crashed[0]['crash']}")
    skipped = [r for r in results if r.get("skip")]
    metas = [r for r in results if not r.get("skip") and not r.get("crash")]
    cpu = sum(r.get("cpu_s", 0) for r in results)
    ctx.log(f"{len(metas)} scenarios ran on the implementation in {time.time() - t0:.1f}s wall / {cpu:.0f}s cpu "
            f"({len(skipped)} skipped, {len(crashed)} crashed)")
    # ---- T3: model
    controls = {}
    for sc in metas:
        if sc["control_case"] and sc["state"] not in controls:
            controls[sc["state"]] = (sc["control_case"], sc["control_order"])
    items = [sc["case"] for sc in metas] + [controls[s][0] for s in sorted(controls)]
    res = ctx.cases("c04", HEADER, items, per_file=40, result_ty="str", fn="check")
    ctl_dig = {}
    for s_, r in zip(sorted(controls), res[len(metas):]):
        pr = parse_digests(r) if r is not None else None
        if pr is None or pr[0] != "1":
            ctx.broken("T3:control-run", f"control run of state {s_}: model and implementation disagree ({r})")
            continue
        ctl_dig[s_] = dict(zip(controls[s_][1], pr[5]))
    hist_state, hist_method, hist_group, hist_proto = {}, {}, {}, {}
    n_agree = n_dom = n_changed = n_dev = n_raise = 0
    mismatches, pred_mismatch = [], []
    covered = set()
    for sc, r in zip(metas, res):
        hist_state[sc["state"]] = hist_state.get(sc["state"], 0) + 1
        hist_proto[sc["protocol"]] = hist_proto.get(sc["protocol"], 0) + 1
        for c in sc["calls"]:
            hist_method[c["name"]] = hist_method.get(c["name"], 0) + 1
            hist_group[c["group"]] = hist_group.get(c["group"], 0) + 1
            covered.add(c["name"])
            n_raise += bool(c["raised"])
        pr = parse_digests(r) if r is not None else None
        if pr is None:
            if r is not None:
                ctx.broken("cases-format", f"unexpected model output {r!r}")
            continue
        agree, where, safe, raw, thm_ok, dig = pr
        d = describe(sc)
        # the model's view of the same protocol
        mdig = dict(zip([tuple(x) for x in sc["obs_order"]], dig))
        model_changed, model_repeat = [], []
        for v in sc["vars"]:
            ref = ctl_dig.get(sc["state"], {}).get(v) if sc["protocol"] == "A" else mdig.get((v, 0))
            if ref is not None and mdig.get((v, 1)) is not None and ref != mdig[(v, 1)]:
                model_changed.append(v)
        for v in sc["rep_vars"]:
            if mdig.get((v, 1)) != mdig.get((v, 2)):
                model_repeat.append(v)
        impl_changed = sorted({x["var"] for x in sc["devs"] if x["kind"] == "existing-changed"})
        impl_repeat = sorted({x["var"] for x in sc["devs"] if x["kind"] == "repeat-differs"})
        d["model"] = {"white_box_agrees": agree == "1", "first_mismatch": where, "follow_up_in_theorem_domain": safe == "1",
                      "model_says_changed": sorted(model_changed), "model_says_repeat_differs": sorted(model_repeat),
                      "raw_value_changed_vars": raw, "theorems_agree_with_evaluation": thm_ok == "1"}
        d["implementation_changed"] = impl_changed
        n_agree += agree == "1"
        n_dom += safe == "1"
        n_changed += bool(impl_changed)
        for dv in sc["devs"]:
            n_dev += 1
            bc = sc["calls"][0] if len(sc["calls"]) == 1 else blame(sc, dv)
            culprit = bc["name"] if bc else "+".join(c["name"] for c in sc["calls"])
            if bc:
                dv = dict(dv, role=role_of(dv["var"], bc["recv_name"], bc["other_name"]))
            if dv["kind"] == "existing-changed":
                sig = signature(culprit, dv["role"], dv["fields"], dv["hint_only"])
                if dv["var"] not in model_changed:
                    # the model (which follows the CURRENT source's summary) does not predict this change: it is not
                    # one of the staged findings, whatever its shape
                    sig += "/not-predicted-from-the-source-summary"
                what = f"{culprit}() changed what an existing DataFrame ({dv['role']}) reports: {dv['fields']}"
            elif dv["kind"] == "repeat-differs":
                sig = f"C04/repeat-differs:{culprit}:{'+'.join(dv['fields'])}"
                what = f"observing the same DataFrame twice gave different answers after {culprit}()"
            else:
                sig = f"C04/transformation-executes:{culprit}"
                what = f"{culprit}() sent {dv['after']} statement(s) to the engine"
            rp = dict(d)
            rp.update({"deviation": {k: dv[k] for k in ("kind", "var", "role", "fields")},
                       "reference (control run without the follow-up, or before it)": dv["reference"], "after": dv["after"],
                       "base_tables": BASE_ROWS,
                       "property": "PySpark DataFrames are immutable: no call may change what an existing DataFrame reports"})
            ctx.deviation(sig, what, rp)
        if thm_ok != "1":
            ctx.broken("theorem-vs-evaluation", "a call in the frame theorem's domain changed a value in the model's own evaluation", d)
        if agree != "1":
            mismatches.append(d)
        elif sorted(model_changed) != impl_changed or sorted(model_repeat) != impl_repeat:
            pred_mismatch.append(d)
        if safe == "1" and impl_changed and not any(b["name"] == "T3:theorem-domain-vs-implementation" for b in ctx.brokens):
            ctx.broken("T3:theorem-domain-vs-implementation",
                       "the implementation changed an existing DataFrame on a call that the generated summary puts in the frame "
                       "theorem's domain", d)
        if len(ctx.samples) < 4 and sc["state"] in ("WHERE", "HINT_join") and len(sc["calls"]) == 1 and impl_changed:
            ctx.sample(d)
    if mismatches:
        ctx.broken("T3:impl-vs-model", f"{len(mismatches)} scenarios where the model's heap differs from the implementation's "
                   f"(columns / hint contents / hint sharing / last_op / executes); first: {mismatches[0]['state']} "
                   f"{[f['key'] for f in mismatches[0]['follow_up']]} at {mismatches[0]['model']['first_mismatch']}", data=mismatches[:5])
    if pred_mismatch:
        f0 = pred_mismatch[0]
        ctx.broken("T3:changed-set", f"{len(pred_mismatch)} scenarios where the set of existing DataFrames that changed differs between "
                   f"model and implementation; first: {f0['state']} {[f['key'] for f in f0['follow_up']]} "
                   f"model={f0['model']['model_says_changed']}/{f0['model']['model_says_repeat_differs']} impl={f0['implementation_changed']}",
                   data=pred_mismatch[:5])
    public = [e["name"] for e in entries]
    if any(n.startswith("groupBy.") for n in covered):
        covered |= {"groupBy", "groupby"}
    if any(n.startswith("cube.") for n in covered):
        covered |= {"cube"}
    uncovered = sorted(set(public) - covered - {"pending_join_hints", "pending_partition_hints", "latest_cte_name",
                                                "cache@base", "persist@base"})
    ctx.coverage.update({
        "evaluations": len(metas),
        "distinct_nontrivial": sum(1 for sc in metas if sc["state"] != "INIT"),
        "rule": "case = (last-operation state, follow-up call(s), protocol); A = twin runs with/without the follow-up, "
                "C = before/after on the same objects; every case carries white-box snapshots of ALL live DataFrames "
                "(after the state is built, after the follow-up, after each observation round); non-trivial = the receiver is "
                "not a freshly created DataFrame (so the wrapper may pass the receiver itself); distinct by enumeration",
        "corpus_scenarios_run_first": len(corpus()), "state_names": sorted(hist_state), "alphabet_size": len([k for k, a in ALPHABET.items() if a["group"] not in ("builder", "observe")]),
        "histogram_state": hist_state, "histogram_method": hist_method, "histogram_group": hist_group,
        "histogram_protocol": hist_proto, "skipped": len(skipped), "follow_up_raised": n_raise,
        "white_box_agree": n_agree, "follow_up_in_theorem_domain": n_dom, "scenarios_where_existing_changed": n_changed,
        "deviations_seen": n_dev, "public_methods_in_summary": len(public), "public_methods_not_exercised": uncovered,
        "implementation_wall_s": round(time.time() - t0, 1),
    })
    ctx.assumptions += [
        "sqlglot builder methods (select/where/order_by/limit/distinct/group_by/join/from_/with_/union/transform ...) return a "
        "modified COPY unless copy=False; Expression.copy() is deep; set/append/pop/replace mutate in place; constructors and "
        "other sqlglot functions do not change the content of their arguments (only qualify/pushdown_projections/"
        "normalize_identifiers/quote_identifiers are known to work in place)  -- validated by T3 only",
        "sqlglot.helper.object_to_dict copies every attribute with v.copy() / copy.copy(v) (shape checked on the installed source)",
        "the content of a NEW DataFrame (expression, initial display map) is an input of the model; only mutation of EXISTING "
        "objects and sharing of hint objects are predicted",
        "writes into the session (registries, temp views, catalog cache) are outside this property (C18/C13)",
        "DataFrameWriter (df.write...) and transform(user function) are not analysed",
    ]
    ctx.trusted += ["translate/c04_summary.py (abstract interpreter over the Python ast; fail-closed)",
                    "checks/c04.py harness: script runner, proxy connection, canonicalisation of generated names"]


def blame(sc, dv):
    """which of several follow-up calls is responsible for a change (None = cannot tell)"""
    for c in sc["calls"]:
        if c["recv_name"] == dv["var"] and c["name"] in DISPLAY_METHODS:
            return c
    if dv.get("hint_only"):
        for c in sc["calls"]:
            if c["name"] == "alias":
                return c
        return sc["calls"][0]
    return None


def replay(ctx: core.Ctx, rp: dict) -> int:
    """re-run the scenario of a replay file on the current tree and print what every existing DataFrame reports"""
    r = rp.get("replay")
    if r is None:
        data = (rp.get("no_longer_checks") or [{}])[0].get("data")
        r = data[0] if isinstance(data, list) and data else data
    if not r or "state" not in r:
        print("replay file carries no scenario (broken obligation without failing input):")
        print(json.dumps(rp, indent=1)[:3000])
        return 0
    state = r["state"]
    dname = dname_of(state)
    fkeys = [(f["key"], None if f["receiver"] == dname else f["receiver"]) for f in r["follow_up"]]
    get_session(engine_of(state))
    sc = scenario(state, fkeys, r.get("protocol", "A"))
    if sc.get("skip"):
        print("scenario could not be built:", sc["skip"])
        return 1
    print("base tables:", BASE_ROWS)
    print("state:", state, "= df." + ".".join(STATES[state]) if STATES[state] else "state: INIT (df itself)")
    print("follow-up:", [(c["name"], c["key"], "on " + c["recv_name"], c["raised"]) for c in sc["calls"]], "protocol", sc["protocol"])
    for dv in sc["devs"]:
        print(f"  {dv['kind']}: {dv['var']} ({dv['role']}) fields={dv['fields']}")
        for f in dv["fields"]:
            if isinstance(dv["reference"], dict):
                a, b = dv["reference"].get(f), dv["after"].get(f)
                if isinstance(a, str) and isinstance(b, str):
                    i = next((k for k, (x, y) in enumerate(zip(a, b)) if x != y), min(len(a), len(b)))
                    a, b = "..." + a[max(0, i - 50): i + 110], "..." + b[max(0, i - 50): i + 110]
                print(f"     {f}: reference = {a!r}")
                print(f"     {f}: after     = {b!r}")
    if not sc["devs"]:
        print("  no existing DataFrame changed; nothing reached the engine during a transformation")
    return 0
