"""C17 -- every function sqlframe offers for DuckDB returns Spark 3.5's value on ordinary inputs (PARTIAL by nature).

T1   translate/c17_facts.py -> Gen/C17Facts.v : the shape of 20 DuckDB emulations sqlframe itself writes (index shifts,
     NULL guards, argument arithmetic, compositions), re-read from functions.py / function_alternatives.py / column.py
Prf  coq/props/C17.v : C17_partial (one theorem per emulation, instantiated on the generated shapes), C17_verdict_* (exact
     under the repaired shape / characterised defect under the old one), C17_refuted_getItem_column_key, over C17/Emul.v
T3a  every call of oracle/c17_pyspark.jsonl (all functions exported by sqlframe.duckdb.functions that a typed generator
     can drive; values recorded from PySpark 3.5.9 by oracle/record_c17.py) is evaluated on a DuckDBSession and compared
T3b  for the modelled emulations: DuckDB's value == the Coq DuckDB-side model under the generated facts, and the recorded
     PySpark value == the Coq Spark-side definition (so both halves of each theorem are tied to the real engines)
thorough: + randomised inputs for the modelled emulations (DuckDB vs model), + the same calls through a Spark-backed
     sqlframe session and a fresh live recording, when a JVM starts.
"""
from __future__ import annotations

import datetime
import json
import logging
import os
import random
import struct
import time
from fractions import Fraction

from vlib import core
from vlib.core import zlit, listlit
from translate import c17_facts
from checks import c17_cases as cc

REC = os.path.join(core.VERIF, "oracle", "c17_pyspark.jsonl")
EPOCH = datetime.date(1970, 1, 1)

PROVED = ["element_at", "try_element_at", "Column.getItem", "array_min", "array_max", "array_position", "factorial", "rint",
          "dayofweek", "overlay", "arrays_overlap", "array_union", "array_remove", "nanvl", "sequence", "date_add",
          "date_sub", "dateadd", "levenshtein", "unix_millis", "slice", "array_append", "concat", "left", "right", "trunc", "date_trunc", "substr", "soundex"]
EMULATIONS_NOT_MODELLED = {
    "expm1": "EXP(x) - 1: a real-analytic identity; the floating-point loss near 0 is observed by T3 only",
    "log1p": "LN(x + 1): same",
    "skewness": "CASE on COUNT(*) around SKEWNESS(x) * (n-2)/sqrt(n(n-1)): real arithmetic, T3 only",
    "kurtosis": "renamed to KURTOSIS_POP, no arithmetic of sqlframe's own",
    "e": "lit(math.e): a constant (compared bit-exactly by T3)",
    "format_string": "Python-side split of the format on %s/%d and || concatenation (loop; T3 only)",
    "collect_set": "collect_list(DISTINCT x): engine aggregate, compared up to order by T3",
    "isnull": "x IS NULL",
    "regexp_replace": "adds the 'g' modifier",
    "sha2": "only numBits 256/0 accepted (else raises)",
    "day": "COALESCE(TRY_STRPTIME(CAST(x AS VARCHAR)), to_date(x)): date parsing is the engine's",
    "to_timestamp/to_timestamp_ntz/try_to_timestamp/to_unix_timestamp/date_format/from_unixtime/unix_timestamp/to_date":
        "format strings are translated by sqlglot's mapping table (session.format_time): environment",
    "add_months": "sign split into +/- INTERVAL n MONTH; month arithmetic itself is the engine's",
    "base64/decode": "casts to BLOB around the engine function",
    "array_append": "LIST_APPEND",
    "endswith/regexp/unix_micros/last_day/split/any_value/first/percentile_approx/rand/to_json/replace":
        "renaming or dropping of an argument only",
}


def days(d):
    return (datetime.date.fromisoformat(d) - EPOCH).days


def micros(ts):
    t = datetime.datetime.fromisoformat(ts)
    return ((t - datetime.datetime(1970, 1, 1)) // datetime.timedelta(microseconds=1))


def fbits(x: float) -> int:
    return struct.unpack("<q", struct.pack("<d", x))[0]


# ---------------------------------------------------------------------------------------------------------------
# DuckDB side
# ---------------------------------------------------------------------------------------------------------------
class Duck:
    def __init__(self):
        from sqlframe.duckdb import DuckDBSession
        import sqlframe.duckdb.functions as F
        self.F = F
        self.session = DuckDBSession()
        for stmt in ("SET TimeZone='UTC'", "PRAGMA threads=1"):
            try:
                self.session._conn.execute(stmt)
            except Exception:
                pass
        self.df = self.session.createDataFrame(cc.ROWS, cc.DDL)

    def run_row(self, cols, df=None):
        return cc.run_row(df or self.df, cols)

    def run_agg(self, cols):
        return cc.run_agg(self.df, self.F, cols)

    def evaluate(self, calls, chunk=24):
        """{call id: {"duck": [...]} | {"error": str}}; several expressions per SELECT, one by one after a failure"""
        out = {}
        for mode, runner in (("row", self.run_row), ("agg", self.run_agg)):
            pending = []
            for c in calls:
                if c["mode"] != mode:
                    continue
                try:
                    pending.append((c, cc.build_call(c, self.F).alias("c%d" % len(pending))))
                except Exception as ex:
                    out[c["id"]] = {"error": "build: " + err(ex)}
            for i in range(0, len(pending), chunk):
                ch = pending[i:i + chunk]
                try:
                    vals = runner([col for _, col in ch])
                    for (c, _), v in zip(ch, vals):
                        out[c["id"]] = {"duck": v}
                except Exception:
                    for c, col in ch:
                        try:
                            out[c["id"]] = {"duck": runner([col])[0]}
                        except Exception as ex:
                            out[c["id"]] = {"error": err(ex)}
        return out


def err(ex):
    return f"{type(ex).__name__}: {str(ex).splitlines()[0][:240] if str(ex) else ''}"


# ---------------------------------------------------------------------------------------------------------------
# Coq case terms for the modelled emulations
# ---------------------------------------------------------------------------------------------------------------
def zl(xs):
    return listlit([zlit(x) for x in xs])


def codes(s):
    return [ord(ch) for ch in s]


def rv_of(kind, c):
    """canonical value -> Coq rv term (None = cannot express: the case is skipped)"""
    if c is None:
        return "RNull"
    if kind == "int":
        if isinstance(c, bool):
            return None
        if isinstance(c, int):
            return f"(RInt {zlit(c)})"
        if isinstance(c, dict) and "f" in c and c["f"] != "nan" and float.fromhex(c["f"]).is_integer():
            return f"(RInt {zlit(int(float.fromhex(c['f'])))})"
        return None
    if kind == "bool":
        return f"(RBool {'true' if c else 'false'})" if isinstance(c, bool) else None
    if kind == "list":
        if isinstance(c, list) and all(isinstance(x, int) and not isinstance(x, bool) for x in c):
            return f"(RList {zl(c)})"
        return None
    if kind == "olist":
        if isinstance(c, list) and all(x is None or (isinstance(x, int) and not isinstance(x, bool)) for x in c):
            return "(ROList " + listlit(["None" if x is None else f"(Some {zlit(x)})" for x in c]) + ")"
        return None
    if kind == "str":
        return f"(RList {zl(codes(c))})" if isinstance(c, str) else None
    if kind == "date":
        return f"(RInt {zlit(days(c['date']))})" if isinstance(c, dict) and "date" in c else None
    if kind == "fv":
        if isinstance(c, dict) and "f" in c:
            return "(RFv FNaN)" if c["f"] == "nan" else f"(RFv (FFin {zlit(fbits(float.fromhex(c['f'])))}))"
        return None
    raise ValueError(kind)


def arg_value(a, row):
    """run-time value of an argument on a table row, for the arguments the models understand"""
    if "c" in a:
        return row[cc.COLS.index(a["c"])]
    if "v" in a:
        return a["v"]
    if "l" in a:
        return a["l"]
    e = a["e"]
    if e.startswith("F.col('") and e.endswith("')"):
        return row[cc.COLS.index(e[7:-2])]
    if e.startswith("F.lit('") or e.startswith('F.lit("'):
        import ast as _ast
        return _ast.literal_eval(e[6:-1])
    if e == "F.lit(float('nan'))":
        return float("nan")
    if e == "F.lit(None).cast('double')":
        return None
    raise KeyError(e)


def iexp_of(a, row):
    """index argument -> Coq iexp"""
    if "v" in a or "l" in a:
        v = a.get("v", a.get("l"))
        return f"(ILit {zlit(v)})" if isinstance(v, int) else None
    if "c" in a:
        v = row[cc.COLS.index(a["c"])]
        return None if v is None else f"(ICol {zlit(v)})"
    e = a["e"]
    import re
    m = re.fullmatch(r"F\.col\('(\w+)'\)", e)
    if m:
        v = row[cc.COLS.index(m.group(1))]
        return None if v is None else f"(ICol {zlit(v)})"
    m = re.fullmatch(r"F\.col\('(\w+)'\) \+ (\d+)", e)
    if m:
        v = row[cc.COLS.index(m.group(1))]
        return None if v is None else f"(IAdd (ICol {zlit(v)}) (ILit {zlit(int(m.group(2)))}))"
    m = re.fullmatch(r"F\.col\('(\w+)'\)\.cast\('int'\)", e)
    if m:
        v = row[cc.COLS.index(m.group(1))]
        return None if v is None else f"(ITyped {zlit(v)})"
    return None


def dvlit(x):
    if x is None:
        return "None"
    return "(Some FNaN)" if x != x else f"(Some (FFin {zlit(fbits(float(x)))}))"


def model_case(call, k, row, lookup):
    """(ein term, result kind) for row k of a recorded call, or None when the models do not cover it"""
    fn, args = call["fn"], call["args"]
    is_null_row = (k == cc.NULL_ROW_INDEX)
    try:
        vals = [arg_value(a, row) for a in args] if fn not in ("element_at", "try_element_at", "Column.getItem") else None
    except KeyError:
        return None

    def ints(x):
        return isinstance(x, list) and all(isinstance(y, int) for y in x)

    if fn in ("element_at", "try_element_at", "Column.getItem"):
        try:
            l = arg_value(args[0], row)
        except KeyError:
            return None
        ie = iexp_of(args[1], row)
        if not ints(l) or ie is None:
            return None
        ctor = {"element_at": "IElementAt", "try_element_at": "ITryElementAt", "Column.getItem": "IGetItem"}[fn]
        return f"({ctor} {zl(l)} {ie})", "int"
    if fn == "array_position":
        if isinstance(vals[1], int) and (vals[0] is None or ints(vals[0])):
            l = "None" if vals[0] is None else f"(Some {zl(vals[0])})"
            return f"(IArrayPosition {l} {zlit(vals[1])})", "int"
        return None
    if fn == "nanvl":
        return f"(INanvl {dvlit(vals[0])} {dvlit(vals[1])})", "fv"
    if fn == "levenshtein" and len(args) == 3:
        d = lookup("levenshtein#0", k)
        if d == "differs":
            return None
        return f"(ILevenshtein {'None' if d is None else f'(Some {zlit(d)})'} {zlit(vals[2])})", "int"
    def olist(x, conv=lambda y: y):
        return "None" if x is None else f"(Some {zl(conv(x))})"

    def uniform(xs, pred):
        return all(x is None or pred(x) for x in xs)
    if fn == "array_union" and uniform(vals, ints):
        return f"(IArrayUnionN {olist(vals[0])} {olist(vals[1])})", "list"
    if fn == "array_append" and uniform(vals[:1], ints) and isinstance(vals[1], int):
        return f"(IArrayAppend {olist(vals[0])} {zlit(vals[1])})", "list"
    if fn == "concat" and (uniform(vals, lambda x: isinstance(x, str)) or uniform(vals, ints)) and not all(v is None for v in vals) or \
            (fn == "concat" and all(v is None for v in vals) and all("c" in a for a in args)):
        is_str = any(isinstance(v, str) for v in vals) or (all(v is None for v in vals) and all(a.get("c") in ("s", "t", "w") for a in args))
        parts = listlit([olist(v, codes) if (is_str and v is not None) else olist(v) for v in vals])
        return f"(IConcat {parts})", ("str" if is_str else "list")
    if fn == "overlay" and uniform(vals[:2], lambda x: isinstance(x, str)) and (is_null_row or all(isinstance(v, int) for v in vals[2:])):
        if is_null_row:
            pos, ln = (vals[2] if isinstance(vals[2], int) else 1), (vals[3] if len(vals) == 4 and isinstance(vals[3], int) else 0)
        else:
            pos, ln = vals[2], (vals[3] if len(vals) == 4 else len(vals[1]))
        return f"(IOverlayN {olist(vals[0], codes)} {olist(vals[1], codes)} {zlit(pos)} {zlit(ln)})", "str"
    if is_null_row or any(v is None for v in vals):
        return None
    if fn == "soundex" and isinstance(vals[0], str) and vals[0].isascii():
        return f"(ISoundex {zl(codes(vals[0]))})", "str"
    if fn == "substr" and isinstance(vals[0], str) and all(isinstance(v, int) for v in vals[1:]) and vals[1] >= 0 and (len(vals) == 2 or vals[2] >= 0):
        return f"(ISubstr {zl(codes(vals[0]))} {zlit(vals[1])} {zlit(vals[2] if len(vals) == 3 else len(vals[0]) + 1)})", "str"
    if fn in ("left", "right") and isinstance(vals[0], str) and isinstance(vals[1], int):
        return f"({'ILeft' if fn == 'left' else 'IRight'} {zl(codes(vals[0]))} {zlit(vals[1])})", "str"
    if fn == "slice" and ints(vals[0]) and vals[1] != 0 and vals[2] >= 0:      # start 0 is an error in Spark
        return f"(ISlice {zl(vals[0])} {zlit(vals[1])} {zlit(vals[2])})", "list"
    if fn in ("array_min", "array_max") and ints(vals[0]):
        return f"({'IArrayMin' if fn == 'array_min' else 'IArrayMax'} {zl(vals[0])})", "int"
    if fn == "factorial":
        return f"(IFactorial {zlit(vals[0])})", "int"
    if fn == "rint":
        fr = Fraction(vals[0])
        return f"(IRint {zlit(fr.numerator)} {zlit(fr.denominator)})", "int"
    if fn == "dayofweek" and isinstance(vals[0], datetime.date) and not isinstance(vals[0], datetime.datetime):
        return f"(IDayOfWeek {zlit((vals[0] - EPOCH).days)})", "int"
    if fn == "arrays_overlap" and ints(vals[0]) and ints(vals[1]):
        return f"(IArraysOverlap {zl(vals[0])} {zl(vals[1])})", "bool"
    if fn == "array_remove" and ints(vals[0]) and isinstance(vals[1], int):
        return "(IArrayRemove " + listlit([f"(Some {zlit(x)})" for x in vals[0]]) + f" {zlit(vals[1])})", "olist"
    if fn == "sequence":
        st = f"(Some {zlit(vals[2])})" if len(vals) == 3 else "None"
        return f"(ISequence {zlit(vals[0])} {zlit(vals[1])} {st})", "list"
    if fn in ("date_add", "dateadd", "date_sub") and "v" in args[1] and isinstance(vals[0], datetime.date):
        return f"({'IDateSub' if fn == 'date_sub' else 'IDateAdd'} {zlit((vals[0] - EPOCH).days)} {zlit(vals[1])})", "date"
    if fn == "unix_millis" and isinstance(vals[0], datetime.datetime):
        return f"(IUnixMillis {zlit((vals[0] - datetime.datetime(1970, 1, 1)) // datetime.timedelta(microseconds=1))})", "int"
    return None


HEADER = """From Coq Require Import ZArith List String.
From SF Require Import C17.Emul C17.Emul2 C17.EmulCheck.
From Gen Require Import C17Facts.
Import ListNotations.
Open Scope Z_scope.
Definition check := EmulCheck.check c17_facts.
"""


# ---------------------------------------------------------------------------------------------------------------
def exported_functions():
    import inspect
    import sqlframe.duckdb.functions as F
    return sorted(n for n, f in vars(F).items() if inspect.isfunction(f) and hasattr(f, "unsupported_engines"))


def reads_table(call):
    """does the call read any table column (otherwise the all-NULL row is not a NULL input for it)"""
    for a in list(call["args"]) + list(call["kwargs"].values()):
        if "c" in a or ("e" in a and any(t in a["e"] for t in ("F.col(", "F.struct(", "F.create_map(", "F.encode("))):
            return True
    return False


def aspect_of(call, k, spark_v, duck_v):
    if not reads_table(call):
        return "value"
    if call["mode"] == "row" and k == cc.NULL_ROW_INDEX:
        return "null-input"
    if call["mode"] == "agg" and k == cc.AGG_NULL_GROUP:
        return "null-input"
    return "value"


def run(ctx: core.Ctx):
    ctx.level = "other"
    os.environ["TZ"] = "UTC"
    time.tzset()
    logging.disable(logging.WARNING)
    # ---- T1 ------------------------------------------------------------------------------------------------------
    try:
        text, facts = c17_facts.generate(core.REPO)
        ctx.gen("C17Facts", text, facts)
        t1_ok = True
    except Exception as ex:
        ctx.broken("T1:c17_facts", f"{type(ex).__name__}: {ex}")
        t1_ok = False
        ctx.gen("C17Facts", open(core.VERIF + "/translate/c17_facts_pinned.v").read())
    # ---- proofs --------------------------------------------------------------------------------------------------
    proved = ctx.prove([ctx.build + "/gen/C17Facts.v"] + ([core.COQ + "/props/C17.v"] if t1_ok else []),
                       dep_theories=["C17/Emul.v", "C17/Emul2.v", "C17/EmulCheck.v"])
    ctx.log(f"T1 {'ok' if t1_ok else 'FAILED'} ({len(ctx.t1_facts)} facts), proofs {'ok' if proved else 'FAILED'}")

    # ---- T3a: all recorded calls on DuckDB ----------------------------------------------------------------------------
    recs = [json.loads(l) for l in open(REC)]
    by_id = {r["id"]: r for r in recs}
    # the recording must be the recording of the current templates (ids, arguments); the template's Tag names the kind of input
    tpl = {c["id"]: c for c in cc.all_calls()}
    stale = [r["id"] for r in recs if r["id"] not in tpl or tpl[r["id"]]["args"] != r["args"] or tpl[r["id"]]["kwargs"] != r["kwargs"]]
    stale += [i for i in tpl if i not in by_id]
    if stale:
        ctx.broken("oracle:recording-out-of-date", "oracle/c17_pyspark.jsonl does not match checks/c17_cases.py for: "
                   + ", ".join(stale[:10]) + " (re-run oracle/record_c17.py)")
    for r in recs:
        r["tag"] = tpl.get(r["id"], {}).get("tag")
    duck = Duck()
    t0 = time.time()
    out = duck.evaluate(recs)
    ctx.log(f"{len(recs)} recorded calls evaluated on DuckDB in {time.time() - t0:.1f}s")
    stats, hist_fn, hist_mode, hist_verdict = {}, {}, {}, {}
    evaluations = nontrivial = n_spark_err = 0
    per_sig = {}            # signature -> {"calls": [...], "what": ...}
    informational = []      # differences outside the property's demand (Spark itself non-NULL on NULL input; nullable agg columns)
    exercised = set()
    for r in recs:
        fn = r["fn"]
        exercised.add(fn)
        hist_mode[r["mode"]] = hist_mode.get(r["mode"], 0) + 1
        if "spark" not in r:
            n_spark_err += 1
            continue
        o = out[r["id"]]
        tno = r["id"].split("#")[1]
        outside = r["mode"] == "agg" and any(a.get("c") == "n1" for a in r["args"])
        if "error" in o:
            evaluations += 1
            hist_verdict["raises"] = hist_verdict.get("raises", 0) + 1
            e = per_sig.setdefault((fn, "raises", r["tag"]), {"tpl": set(), "items": []})
            e["tpl"].add(tno)
            e["items"].append({"call": r["text"], "call_spec": {k: r[k] for k in ("id", "fn", "mode", "args", "kwargs")},
                               "spark": [cc.show(v) for v in r["spark"]], "duckdb": o["error"]})
            continue
        for k, (sv, dv) in enumerate(zip(r["spark"], o["duck"])):
            evaluations += 1
            hist_fn[fn] = hist_fn.get(fn, 0) + 1
            asp = aspect_of(r, k, sv, dv)
            if asp == "value" and sv is not None:
                nontrivial += 1
            why = cc.compare(fn, sv, dv, stats)
            if fn in cc.MEMBER and why:
                col = r["args"][0].get("c")
                pool = [cc.canon(row[cc.COLS.index(col)]) for row in cc.ROWS[:5]] if col else []
                why = "" if (asp == "value" and dv in pool) else why
            if not why:
                hist_verdict["agree"] = hist_verdict.get("agree", 0) + 1
                continue
            item = {"call": r["text"], "row": k, "why": why, "spark": cc.show(sv), "duckdb": cc.show(dv)}
            if asp == "null-input" and sv is not None:
                # the property demands NULL only where Spark returns NULL; Spark itself answers non-NULL here
                hist_verdict["null-input, Spark non-NULL (not demanded)"] = hist_verdict.get("null-input, Spark non-NULL (not demanded)", 0) + 1
                informational.append(item)
                continue
            if outside:
                hist_verdict["aggregate over a nullable column (outside the ordinary domain)"] = \
                    hist_verdict.get("aggregate over a nullable column (outside the ordinary domain)", 0) + 1
                informational.append(item)
                continue
            hist_verdict["deviates:" + asp] = hist_verdict.get("deviates:" + asp, 0) + 1
            e = per_sig.setdefault((fn, asp, None if asp == "null-input" else r["tag"]), {"tpl": set(), "items": []})
            e["tpl"].add(tno)
            item["call_spec"] = {kk: r[kk] for kk in ("id", "fn", "mode", "args", "kwargs")}
            if r["mode"] == "agg":
                item["group"] = cc.AGG_GROUPS[k][0]
            if r["mode"] == "row":
                item["table_row"] = {c: cc.show(cc.canon(v)) for c, v in zip(cc.COLS, cc.ROWS[k])
                                     if any(c in json.dumps(a) for a in r["args"])}
            e["items"].append(item)
    # signature = (function, aspect [, kind of input named by the template]); which template numbers fail is data, not identity
    for (fn, asp, tag), e in sorted(per_sig.items(), key=lambda kv: (kv[0][0], kv[0][1], kv[0][2] or "")):
        sig = f"C17/{fn}/{asp}" + (f"/{tag}" if tag else "")
        first = e["items"][0]
        what = (f"{first['call']} raises on DuckDB: {first['duckdb']}" if asp == "raises" else
                f"{first['call']} row {first['row']}: Spark {first['spark']!r}, DuckDB {first['duckdb']!r} ({first['why']})")
        ctx.deviation(sig, what, {"function": fn, "aspect": asp, "input_kind": tag, "failing_templates": sorted(e["tpl"], key=int),
                                  "cases": e["items"][:12], "n_cases": len(e["items"])})
    ctx.log(f"T3a: {evaluations} evaluations, {len(per_sig)} (function, aspect, input kind) deviation classes, "
            f"{len(informational)} informational differences")

    # ---- T3b: modelled emulations against both engines ---------------------------------------------------------------------
    def lookup_dist(cid, k):
        r = by_id.get(cid)
        o = out.get(cid, {})
        if not r or "spark" not in r or "duck" not in o:
            return "differs"
        s, d = r["spark"][k], o["duck"][k]
        return s if s == d else "differs"

    items, metas = [], []
    for r in recs:
        if r["fn"] not in PROVED or "spark" not in r or "duck" not in out[r["id"]]:
            continue
        for k, row in enumerate(cc.ROWS):
            mc = model_case(r, k, row, lookup_dist)
            if mc is None:
                continue
            term, kind = mc
            impl, sp = rv_of(kind, out[r["id"]]["duck"][k]), rv_of(kind, r["spark"][k])
            if impl is None or sp is None:
                continue
            items.append(f"({term}, {impl}, {sp})")
            metas.append({"call": r["text"], "row": k, "fn": r["fn"], "duckdb": cc.show(out[r["id"]]["duck"][k]),
                          "spark": cc.show(r["spark"][k]), "coq_case": items[-1]})
    extra_items, extra_metas = thorough_model_cases(ctx, duck) if ctx.tier == "thorough" else ([], [])
    res = ctx.cases("c17m", HEADER, items + extra_items, per_file=120, result_ty="str", fn="check") if items else []
    n_model = n_model_dom = 0
    impl_vs_model, spec_bad, thm_bad, hist_model = [], [], [], {}
    for m, r in zip(metas + extra_metas, res):
        if r is None or len(r) != 4:
            continue
        n_model += 1
        im, sm, dom, agree = (ch == "1" for ch in r)
        hist_model[m["fn"]] = hist_model.get(m["fn"], 0) + 1
        n_model_dom += dom
        m = dict(m, verdict_impl_model__spark_spec__in_domain__models_agree=r)
        if m.get("spark") != "(not recorded)" and not sm:
            spec_bad.append(m)
        if not im:
            impl_vs_model.append(m)
        if dom and not agree:
            thm_bad.append(m)
    if spec_bad:
        ctx.broken("spec-conformance", f"{len(spec_bad)} recorded PySpark values differ from the Coq Spark-side definition; "
                   f"first: {spec_bad[0]['call']} row {spec_bad[0]['row']}", data=spec_bad[:5])
    if impl_vs_model:
        ctx.broken("T3:impl-vs-model", f"{len(impl_vs_model)} DuckDB values differ from the Coq DuckDB-side model under the "
                   f"regenerated facts; first: {impl_vs_model[0]['call']} row {impl_vs_model[0]['row']}: engine "
                   f"{impl_vs_model[0]['duckdb']!r}", data=impl_vs_model[:5])
    if thm_bad and proved:
        ctx.broken("theorem-vs-evaluation", f"in-domain case where the two models evaluate differently: {thm_bad[0]['call']}", data=thm_bad[:3])
    ctx.log(f"T3b: {n_model} model cases ({n_model_dom} in a theorem's domain), impl!=model {len(impl_vs_model)}, "
            f"spark!=spec {len(spec_bad)}")

    flag_names = ["slice", "element_at", "try_element_at", "rint", "sequence", "unix_millis", "array_position(NULL)",
                  "nanvl(NULL)", "levenshtein(NULL)", "slice(negative start)", "factorial(outside 0..20)", "array_append(NULL)",
                  "array_union(NULL)", "overlay(NULL)", "concat(NULL)", "left/right(negative length)", "trunc/date_trunc unit spellings",
                  "substr(position 0)", "soundex (every string)", "array_position(NULL) on a Spark session", "array_position(NULL) on a Databricks session"]
    verdicts, verdicts_raw = {}, {}
    if proved:
        outp = ctx.coq_eval("From Coq Require Import List Bool.\nFrom SF Require Import C17.Emul C17.Emul2 C17.EmulCheck.\nFrom Gen Require Import C17Facts.\n"
                            "Import ListNotations.\nDefinition flags := [slice_cfg_ok c17_slice; element_at_cfg_exact c17_element_at; "
                            "element_at_cfg_exact c17_try_element_at; rint_cfg_exact c17_rint; seq_cfg_exact c17_seq_default; "
                            "millis_cfg_exact c17_unix_millis; pos_cfg_exact c17_pos; nanvl_cfg_exact c17_nanvl; lev_cfg_exact c17_lev; "
                            "slice_rebase_exact c17_slice_rebase && slice_cfg_ok c17_slice; fact_guard_exact c17_fact_guard; c17_append_guard; "
                            "c17_union_guard; match c17_overlay_glue with GluePipes => true | _ => false end; "
                            "match c17_concat_glue with GluePipes => true | _ => false end; "
                            "floor_exact c17_left_floor && floor_exact c17_right_floor; units_table_ok c17_trunc_units; remap_exact c17_substr_remap; soundex_cfg_exact c17_soundex; pos_cfg_exact c17_pos_spark; pos_cfg_exact c17_pos_databricks].",
                            "flags")
        import re as _re
        vals = _re.findall(r"\b(true|false)\b", outp.split("=", 1)[1] if "=" in outp else "")
        if len(vals) == len(flag_names):
            verdicts_raw = dict(zip(flag_names, vals))
            verdicts = {n: ("exact on the whole stated domain (C17_verdict_* proves the `then` branch)" if v == "true"
                            else "defect characterised (C17_verdict_* proves the `else` branch)") for n, v in zip(flag_names, vals)}
    # witness of the fixed finding C17/spark-session/array_position in the quick tier: the shape sqlframe builds for a Spark /
    # Databricks session, evaluated by the Coq model on a NULL array (the engine's own ARRAY_POSITION(NULL, v) is NULL)
    for eng in ("Spark", "Databricks"):
        v = verdicts_raw.get(f"array_position(NULL) on a {eng} session")
        if v == "false":
            ctx.deviation("C17/spark-session/array_position",
                          f"through a {eng}-backed session F.array_position(col, v) on a NULL array: PySpark NULL, sqlframe 0 "
                          f"(the COALESCE(ARRAY_POSITION(col, v), 0) is not guarded by col IS NOT NULL for this engine)",
                          {"function": "array_position", "aspect": "spark-session", "engine": eng.lower(),
                           "call": "F.array_position('a', 5) on a row whose array is NULL", "spark": None, "sqlframe_predicted_by_model": 0,
                           "how": "T1 fact c17_pos_" + eng.lower() + " (shape of functions.array_position under session._is_" + eng.lower()
                                  + ") evaluated by Emul.duck_array_position; recorded PySpark value: array_position#0 row 5 = NULL; "
                                    "the thorough tier runs the session live"})
    # ---- thorough: Spark-backed sqlframe session + fresh live recording ------------------------------------------------
    live = {}
    if ctx.tier == "thorough":
        live = thorough_live(ctx, recs)

    # ---- evidence --------------------------------------------------------------------------------------------------
    exported = exported_functions()
    import sqlframe.duckdb.functions as _F
    covered_objs = {id(getattr(_F, f)) for f in exported if f in exercised or f in cc.NOT_EXERCISED}
    # a module-level alias (`column = col`) is the same function object under another name, not a new function
    unknown = [f for f in exported if f not in exercised and f not in cc.NOT_EXERCISED and id(getattr(_F, f)) not in covered_objs]
    if unknown:
        ctx.broken("coverage:function-without-template", "exported by sqlframe.duckdb.functions but neither exercised nor listed: "
                   + ", ".join(unknown))
    not_ex = {f: why for f, why in cc.NOT_EXERCISED.items() if f in exported}
    proved_here = sorted(f for f in PROVED if f in exercised)
    rec_only = sorted(f for f in exercised if f not in PROVED)
    for m in (metas[:2] + metas[40:42]):
        ctx.sample({k: m[k] for k in ("call", "row", "duckdb", "spark", "coq_case")})
    ctx.coverage.update({
        "evaluations": evaluations + n_model, "distinct_nontrivial": nontrivial,
        "rule": "T3a evaluation = (recorded call, table row | aggregate group); calls = per-function argument templates over a typed "
                "table (5 ordinary rows + 1 all-NULL row; every aggregate over the 5 ordinary rows, the NULL row alone, and sub-frames "
                "of exactly 1, 2 and 3 rows); optional/int arguments additionally at 0, 1, a negative value and omitted; "
                "non-trivial = ordinary row whose Spark value is non-NULL; distinct by (call id, row). Floats: bit-exact, else <= "
                f"{cc.ULP_BOUND} ulp (libm vs StrictMath), statistical aggregates within the relative bound listed in "
                "checks/c17_cases.REL_BOUND; int vs float of the same number is counted as agreement "
                "(numeric_type_differs_value_compared); arrays of collect_set/collect_list/array_union/array_intersect/"
                "array_distinct and maps as multisets; dates/timestamps as ISO strings in UTC; a MAP returned as Row is "
                "compared by entries. NULL-row differences count only where Spark itself returns NULL. "
                "T3b evaluation = one modelled call on one row, checked against both Coq models.",
        "explanation": "PARTIAL by nature: machine-checked theorems cover only the emulations sqlframe itself writes for DuckDB "
                       "(21 functions: C17_partial / C17_refuted_* on shapes regenerated from the source); for the other exercised "
                       "functions sqlframe merely names a sqlglot node, so agreement with Spark is engine-vs-engine and is decided by "
                       "differential comparison with values recorded from PySpark 3.5.9 -- sampled inputs, not a proof",
        "functions_exported": len(exported),
        "proved": {"count": len(proved_here), "functions": proved_here,
                   "note": "emulations with a Coq theorem instantiated on regenerated facts; see verdict_branch_per_emulation for those "
                           "whose statement follows the generated shape"},
        "recorded_only": {"count": len(rec_only), "functions": rec_only,
                          "note": "no sqlframe-owned logic to model (sqlframe names a sqlglot node / engine function), or an "
                                  "emulation listed in emulations_not_modelled: judged by T3 against PySpark recordings only"},
        "not_exercised": {"count": len(not_ex), "functions": not_ex},
        "emulations_not_modelled": EMULATIONS_NOT_MODELLED,
        "verdict_branch_per_emulation": verdicts,
        "spark_backed_session_half": live.get("spark_backed", "not covered in the quick tier (needs a JVM); thorough tier runs the same "
                                              "calls through sqlframe.spark against the recording"),
        "recorded_calls": len(recs), "recorded_calls_spark_rejects": n_spark_err,
        "histogram_mode": hist_mode, "histogram_verdict": hist_verdict, "float_and_type_statistics": stats,
        "evaluations_per_function_min_max": [min(hist_fn.values()), max(hist_fn.values())] if hist_fn else [],
        "model_cases": n_model, "model_cases_in_theorem_domain": n_model_dom, "histogram_model_cases": hist_model,
        "deviation_classes": len(per_sig),
        "informational_differences_not_demanded_by_the_property": informational[:60],
        "informational_count": len(informational),
        "live": live,
    })
    ctx.assumptions += [
        "Emul.v's definitions duck_index, duck_list_slice, sql_substring, round_half_away, series, duck_dayofweek_prim, "
        "duck_unix_seconds, duck_list_position, duck_factorial_prim, 3-valued CASE/COALESCE/LIST_FILTER are my statement of "
        "DuckDB 1.2.2's behaviour (validated by T3b on every run)",
        "emit_index is my statement of sqlglot 26.14's DuckDB Bracket generation (INDEX_OFFSET=1 applied to integer-typed indices only)",
        "spark_* definitions are my reading of Spark 3.5 (validated against oracle/c17_pyspark.jsonl on every run)",
        "premises of the theorems: array_sort sorts ascending (arrays without NULL), ARRAY_INTERSECT contains exactly the common "
        "elements, LIST_DISTINCT removes exactly the duplicates",
        "oracle/c17_pyspark.jsonl was recorded from PySpark 3.5.9 (local[1], ANSI off, session time zone UTC) by oracle/record_c17.py",
    ]
    ctx.trusted += ["translate/c17_facts.py (symbolic evaluation of the function bodies; fail-closed)",
                    "checks/c17_cases.py comparator and canonicaliser", "DuckDB 1.2.2, sqlglot 26.14.0 (environment)"]


# ---------------------------------------------------------------------------------------------------------------
# thorough tier
# ---------------------------------------------------------------------------------------------------------------
def thorough_model_cases(ctx, duck):
    """randomised inputs for the modelled emulations: DuckDB's value against the Coq DuckDB-side model (no recording:
    the Spark-side bit is ignored for these)."""
    rnd = random.Random(ctx.seed)
    F = duck.F
    rows = []
    for i in range(40):
        n = rnd.choice([1, 1, 2, 3, 4, 5, 7])
        a = [rnd.randint(-5, 9) for _ in range(n)]
        b = [rnd.randint(-5, 9) for _ in range(rnd.randint(1, 4))]
        rows.append((i, a, b, rnd.randint(1, 6), rnd.randint(0, 5), rnd.randint(0, 20), rnd.choice([-2.5, -1.5, -0.5, 0.5, 1.5, 2.5, 0.25, 7.75, -3.0, 6.5]),
                     "".join(rnd.choice("abcxyz") for _ in range(rnd.randint(1, 9))), "".join(rnd.choice("ABC") for _ in range(rnd.randint(0, 3)))))
    df = duck.session.createDataFrame(rows, "id bigint, a array<bigint>, b array<bigint>, p int, q int, k bigint, x double, s string, t string")
    specs = []
    for p in (1, 2, 3, -1, -2, 6):
        specs.append(("element_at", lambda r, p=p: f"(IElementAt {zl(r[1])} (ILit {zlit(p)}))", "int", F.element_at("a", p)))
        specs.append(("try_element_at", lambda r, p=p: f"(ITryElementAt {zl(r[1])} (ILit {zlit(p)}))", "int", F.try_element_at("a", F.lit(p))))
    for kk in (0, 1, 4):
        specs.append(("Column.getItem", lambda r, kk=kk: f"(IGetItem {zl(r[1])} (ILit {zlit(kk)}))", "int", F.col("a").getItem(kk)))
    specs.append(("element_at", lambda r: f"(IElementAt {zl(r[1])} (ICol {zlit(r[3])}))", "int", F.element_at("a", F.col("p"))))
    specs.append(("element_at", lambda r: f"(IElementAt {zl(r[1])} (IAdd (ICol {zlit(r[3])}) (ILit 1)))", "int", F.element_at("a", F.col("p") + 1)))
    for s, n in ((1, 1), (1, 3), (2, 2), (3, 0), (4, 5)):
        specs.append(("slice", lambda r, s=s, n=n: f"(ISlice {zl(r[1])} {zlit(s)} {zlit(n)})", "list", F.slice("a", s, n)))
    for st_, n in ((-1, 1), (-2, 2), (-3, 5), (-9, 2)):
        specs.append(("slice", lambda r, st_=st_, n=n: f"(ISlice {zl(r[1])} {zlit(st_)} {zlit(n)})", "list", F.slice("a", st_, n)))
    for n in (-2, 0, 1, 3, 20):
        specs.append(("left", lambda r, n=n: f"(ILeft {zl(codes(r[7]))} {zlit(n)})", "str", F.left("s", F.lit(n))))
        specs.append(("right", lambda r, n=n: f"(IRight {zl(codes(r[7]))} {zlit(n)})", "str", F.right("s", F.lit(n))))
    specs.append(("array_min", lambda r: f"(IArrayMin {zl(r[1])})", "int", F.array_min("a")))
    specs.append(("array_max", lambda r: f"(IArrayMax {zl(r[1])})", "int", F.array_max("a")))
    for v in (0, 3, 9):
        specs.append(("array_position", lambda r, v=v: f"(IArrayPosition (Some {zl(r[1])}) {zlit(v)})", "int", F.array_position("a", v)))
        specs.append(("array_remove", lambda r, v=v: "(IArrayRemove " + listlit([f"(Some {zlit(x)})" for x in r[1]]) + f" {zlit(v)})", "olist", F.array_remove("a", v)))
    specs.append(("arrays_overlap", lambda r: f"(IArraysOverlap {zl(r[1])} {zl(r[2])})", "bool", F.arrays_overlap("a", "b")))
    specs.append(("array_union", lambda r: f"(IArrayUnionN (Some {zl(r[1])}) (Some {zl(r[2])}))", "list", F.array_union("a", "b")))
    specs.append(("factorial", lambda r: f"(IFactorial {zlit(r[5])})", "int", F.factorial("k")))
    specs.append(("rint", lambda r: f"(IRint {zlit(Fraction(r[6]).numerator)} {zlit(Fraction(r[6]).denominator)})", "int", F.rint("x")))
    for pos, ln in ((1, 0), (2, 3), (4, 1), (9, 2)):
        specs.append(("overlay", lambda r, pos=pos, ln=ln: f"(IOverlayN (Some {zl(codes(r[7]))}) (Some {zl(codes(r[8]))}) {zlit(pos)} {zlit(ln)})", "str",
                      F.overlay("s", "t", pos, ln)))
    specs.append(("sequence", lambda r: f"(ISequence {zlit(r[4])} {zlit(r[5])} None)", "list", F.sequence("q", "k")))
    specs.append(("sequence", lambda r: f"(ISequence {zlit(r[4])} 30 (Some {zlit(r[3])}))", "list", F.sequence("q", F.lit(30), "p")))
    items, metas = [], []
    for i in range(0, len(specs), 12):
        ch = specs[i:i + 12]
        try:
            vals = duck.run_row([c.alias(f"c{j}") for j, (_, _, _, c) in enumerate(ch)], df=df)
        except Exception as ex:
            ctx.broken("thorough:model-cases", err(ex))
            continue
        for (fn, mk, kind, _), col in zip(ch, vals):
            for r, v in zip(rows, col):
                impl = rv_of(kind, v)
                if impl is None:
                    continue
                items.append(f"({mk(r)}, {impl}, RErr)")
                metas.append({"call": fn + " (random input)", "row": r[0], "fn": fn, "duckdb": cc.show(v), "spark": "(not recorded)",
                              "coq_case": items[-1]})
    ctx.log(f"thorough: {len(items)} randomised model cases")
    return items, metas


def thorough_live(ctx, recs):
    """(a) re-record a fresh PySpark run and compare with the vendored recording; (b) run every call through a Spark-backed
    sqlframe session (sqlframe.spark) and compare with the recording."""
    res = {}
    script = r'''
import json, os, sys, time, logging
os.environ["TZ"] = "UTC"; time.tzset()
sys.path.insert(0, "/verif")
from checks import c17_cases as cc
from pyspark.sql import SparkSession as PS
import pyspark.sql.functions as PF
spark = (PS.builder.master("local[1]").config("spark.ui.enabled", "false").config("spark.sql.shuffle.partitions", "1")
         .config("spark.sql.session.timeZone", "UTC").config("spark.driver.extraJavaOptions", "-Duser.timezone=UTC").getOrCreate())
spark.sparkContext.setLogLevel("ERROR")
recs = [json.loads(l) for l in open("/verif/oracle/c17_pyspark.jsonl")]
def run(df, F, calls):
    out = {}
    def row(cols):
        return cc.run_row(df, cols)
    def agg(cols):
        return cc.run_agg(df, F, cols)
    for mode, runner in (("row", row), ("agg", agg)):
        pend = []
        for c in calls:
            if c["mode"] != mode: continue
            try: pend.append((c, cc.build_call(c, F).alias("c%d" % len(pend))))
            except Exception as ex: out[c["id"]] = {"error": "build: %s: %s" % (type(ex).__name__, str(ex)[:200])}
        for i in range(0, len(pend), 20):
            ch = pend[i:i + 20]
            try:
                for (c, _), v in zip(ch, runner([col for _, col in ch])): out[c["id"]] = {"v": v}
            except Exception:
                for c, col in ch:
                    try: out[c["id"]] = {"v": runner([col])[0]}
                    except Exception as ex: out[c["id"]] = {"error": "%s: %s" % (type(ex).__name__, str(ex).splitlines()[0][:200])}
    return out
pdf = spark.createDataFrame(cc.ROWS, cc.DDL).coalesce(1).sortWithinPartitions("id").cache()
live = run(pdf, PF, recs)
res = {"live": live}
try:
    logging.disable(logging.WARNING)
    from sqlframe.spark import SparkSession as SS
    import sqlframe.spark.functions as SF
    ss = SS(conn=spark) if "conn" in SS.__init__.__code__.co_varnames else SS()
    sdf = ss.createDataFrame(cc.ROWS, cc.DDL)
    res["sqlframe_spark"] = run(sdf, SF, recs)
except Exception as ex:
    res["sqlframe_spark_error"] = "%s: %s" % (type(ex).__name__, str(ex)[:300])
json.dump(res, open(sys.argv[1], "w"))
spark.stop()
'''
    path = os.path.join(ctx.build, "live_c17.py")
    outp = os.path.join(ctx.build, "live_c17.json")
    open(path, "w").write(script)
    try:
        rc, so, se = core.sh([core.PY, path, outp], timeout=900, env=core.env_for_impl())
    except Exception as ex:
        return {"spark_backed": f"not covered: live run failed to start ({err(ex)})"}
    if rc != 0 or not os.path.exists(outp):
        return {"spark_backed": "not covered: no JVM / live run failed: " + (se or so)[-300:]}
    data = json.load(open(outp))
    by = {r["id"]: r for r in recs}

    def diff(got):
        bad, n = [], 0
        for cid, o in got.items():
            r = by[cid]
            if "spark" not in r:
                continue
            if "error" in o:
                if "has no attribute" in o["error"]:
                    continue                      # not offered for that engine
                bad.append({"call": r["text"], "fn": r["fn"], "error": o["error"]})
                continue
            for k, (a, b) in enumerate(zip(r["spark"], o["v"])):
                n += 1
                why = cc.compare(r["fn"], a, b)
                if why:
                    bad.append({"call": r["text"], "fn": r["fn"], "row": k, "why": why, "recorded": cc.show(a), "now": cc.show(b)})
        return n, bad
    n, bad = diff(data["live"])
    res["live_rerecording"] = {"values_compared": n, "differences": bad[:10], "n_differences": len(bad)}
    if bad:
        ctx.broken("oracle:recording-not-reproducible", f"{len(bad)} values of a fresh PySpark run differ from oracle/c17_pyspark.jsonl; "
                   f"first: {bad[0]}", data=bad[:5])
    if "sqlframe_spark" in data:
        n2, bad2 = diff(data["sqlframe_spark"])
        res["spark_backed"] = {"covered": True, "values_compared": n2, "n_differences": len(bad2), "differences": bad2[:40]}
        classes = {}
        for b in bad2:
            classes.setdefault(b["fn"], b)
        for fn, b in sorted(classes.items()):
            ctx.deviation(f"C17/spark-session/{fn}", f"through sqlframe.spark: {b['call']}: " +
                          (b.get("error") or f"recorded PySpark {b.get('recorded')!r}, sqlframe.spark {b.get('now')!r}"), b)
    else:
        res["spark_backed"] = "not covered: " + data.get("sqlframe_spark_error", "?")
    return res


def replay(ctx, rp):
    """bin/check C17 --replay findings/C17-<...>.json : re-run the failing calls on a DuckDBSession and print both sides"""
    os.environ["TZ"] = "UTC"
    time.tzset()
    logging.disable(logging.WARNING)
    r = rp.get("replay") or rp
    duck = Duck()
    rc = 0
    for case in r.get("cases", []):
        spec = case.get("call_spec")
        if not spec:
            continue
        print("call      :", case["call"])
        o = duck.evaluate([spec])[spec["id"]]
        if "error" in o:
            print("  DuckDB  : RAISES", o["error"])
            print("  PySpark :", case.get("spark"))
            rc = 1
            continue
        try:
            d = duck.df.select(cc.build_call(spec, duck.F).alias("r")) if spec["mode"] == "row" else duck.df.agg(cc.build_call(spec, duck.F).alias("r"))
            print("  SQL     :", d.sql(dialect="duckdb", optimize=False, pretty=False).split("SELECT")[-1].split(' AS "r"')[0].strip()[:300])
        except Exception:
            pass
        vals = [cc.show(v) for v in o["duck"]]
        if "row" in case:
            print(f"  row {case['row']}: DuckDB {vals[case['row']]!r}   PySpark {case.get('spark')!r}   ({case.get('why')})")
            rc = 1 if vals[case["row"]] != case.get("spark") else rc
        else:
            print("  DuckDB  :", vals)
    return rc
