"""C20 T3 worker: executes ONE event script in THIS (fresh) interpreter and prints the observations as JSON.

usage:  PYTHONPATH=$VERIF_REPO /venv/bin/python checks/c20_worker.py '<json>'        (or json on stdin)

script = {"env": "absent" | "healthy" | "sandbox", "events": [ev, ...]}
ev     = ["act", engine, conn_id|null, cfg]      sqlframe.activate(engine, conn, config)
         ["deact"]                                sqlframe.deactivate()
         ["enter", engine, conn_id|null, cfg]    cm = sqlframe.activate_context(...); cm.__enter__()   (what `with` does)
         ["exit", "normal"|"raise"|"sraise"|"braise"]   innermost cm.__exit__(None,None,None) / (type(exc), exc, tb)
                                                 "sraise" passes the exception that the last getOrCreate raised,
                                                 "braise" a BaseException that is not an Exception (KeyboardInterrupt)
         ["goc"]                                  from pyspark.sql import SparkSession; SparkSession.builder.getOrCreate()
         ["imp", form, path]                      form A: importlib.import_module(path)   (= module lookup of `from path import x`)
                                                  form S: `import path as m`             (statement)
                                                  form B: `from parent import child`     (statement)
         ["loadf", engine]                        import sqlframe.<engine>.functions  (what DataFrame operations do lazily)
         ["bconf", "key", {k: v}]                 from pyspark.sql import SparkSession; SparkSession.builder.config(k, v)
         ["bconf", "map", {k: v, ...}]            ... SparkSession.builder.config(map={...})   (only when sqlframe is active)
         ["dial"]                                 [input, output, execution] dialect names of the session the last ["goc"] returned
         ["names", engine]                        identity of every documented class under pyspark.sql.* vs sqlframe.<engine>.*
cfg    = {} | {"sqlframe.input.dialect": "<dialect>"}
conn ids: 1, 2 = well-behaved stub connections; 9 = a connection whose every use raises RuntimeError.

Environments: "sandbox" = the interpreter as it is (PySpark 3.5.9 installed, `pyspark.testing` raises AttributeError under
numpy 2); "healthy" = numpy.NaN is restored first, so the real pyspark.testing imports; "absent" = a meta-path finder
makes the real top-level `pyspark` unfindable (PySpark not installed).

Missing database drivers (databricks.sql, psycopg2, snowflake, google.cloud.bigquery, redshift_connector) are provided
as stub modules; the stubs are never consulted for anything the property talks about.

Each observation is {"r": <result>, "cfg": [[key, value-id], ...]} where cfg is sqlframe.ACTIVATE_CONFIG after the event.
No object addresses, no messages -- only classified results.
"""
from __future__ import annotations

import importlib
import importlib.abc
import json
import os
import sys
import types
import warnings

warnings.simplefilter("ignore")
REPO = os.path.realpath(os.environ.get("VERIF_REPO") or os.environ.get("PYTHONPATH", "/repo").split(":")[0])
SF = os.path.join(REPO, "sqlframe")


class Conn:
    """universal DB-API-ish stub; identity is what is observed"""

    def __init__(self, cid, bad=False):
        object.__setattr__(self, "_cid", cid)
        object.__setattr__(self, "_bad", bad)

    def __getattr__(self, name):
        if name.startswith("__"):
            raise AttributeError(name)
        if object.__getattribute__(self, "_bad"):
            raise RuntimeError("c20: connection refuses to be used")
        if name == "converter":      # snowflake: falsy converter -> the session only records its converter class
            return None
        return self                  # conn.cursor(), conn._client.default_query_job_config, ... : the stub itself

    def __call__(self, *a, **k):
        if object.__getattribute__(self, "_bad"):
            raise RuntimeError("c20: connection refuses to be used")
        return self

    def __setattr__(self, k, v):
        object.__setattr__(self, k, v)


CONNS = {1: Conn(1), 2: Conn(2), 9: Conn(9, bad=True)}


def conn_id(obj):
    for k, v in CONNS.items():
        if obj is v:
            return k
    return 0 if obj is not None else -1


def install_stubs():
    def mod(name, **attrs):
        m = types.ModuleType(name)
        m.__dict__.update(attrs)
        m.__path__ = []  # behave as a package
        sys.modules[name] = m
        return m

    def connect(*a, **k):
        return Conn(0)

    def missing(name):
        try:
            return importlib.util.find_spec(name) is None
        except Exception:
            return True

    if missing("databricks.sql"):
        d = mod("databricks") if missing("databricks") else importlib.import_module("databricks")
        d.sql = mod("databricks.sql", connect=connect, ServerOperationError=type("ServerOperationError", (Exception,), {}))
        mod("databricks.sql.client", Connection=Conn)
    if missing("psycopg2"):
        mod("psycopg2", ProgrammingError=type("ProgrammingError", (Exception,), {}))
    if missing("snowflake"):
        s = mod("snowflake")
        s.connector = mod("snowflake.connector")
        s.connector.cursor = mod("snowflake.connector.cursor")
    if missing("redshift_connector"):
        mod("redshift_connector")
    if missing("google.cloud.bigquery"):
        g = mod("google") if missing("google") else importlib.import_module("google")
        c = mod("google.cloud") if missing("google.cloud") else importlib.import_module("google.cloud")
        g.cloud = c
        c.bigquery = mod("google.cloud.bigquery", QueryJobConfig=lambda *a, **k: object())
        c.bigquery.dbapi = mod("google.cloud.bigquery.dbapi", connect=connect)


class HidePySpark(importlib.abc.MetaPathFinder):
    """PySpark 'not installed': the top-level real package cannot be found (sub-modules of a package that *is* in
    sys.modules are looked up through that package's __path__ and are not touched)."""

    def find_spec(self, fullname, path=None, target=None):
        if fullname == "pyspark" and path is None:
            raise ModuleNotFoundError("No module named 'pyspark'", name="pyspark")
        return None


def classify(m):
    from unittest.mock import MagicMock
    if isinstance(m, MagicMock):
        return ["mock"]
    f = getattr(m, "__file__", None)
    if not isinstance(m, types.ModuleType) or not isinstance(f, str):
        return ["other", type(m).__name__]
    f = os.path.realpath(f)
    if f.startswith(SF + os.sep):
        rel = f[len(SF) + 1:].split(os.sep)
        if rel[0] == "testing" and rel[1:] == ["__init__.py"]:
            return ["testing"]
        if len(rel) == 2 and rel[1].endswith(".py"):
            return ["sfpkg", rel[0]] if rel[1] == "__init__.py" else ["sf", rel[0], rel[1][:-3]]
        return ["other", "/".join(rel)]
    if (os.sep + "pyspark" + os.sep) in f and "site-packages" in f:
        return ["real", m.__name__]
    return ["other", f]


def exc_class(e):
    return ["importerror"] if isinstance(e, ImportError) else ["error", type(e).__name__]


def do_import(form, path):
    try:
        if form == "A":
            m = importlib.import_module(path)
        elif form == "S":
            ns = {}
            exec(f"import {path} as _m", ns)
            m = ns["_m"]
        elif form == "B":
            parent, _, child = path.rpartition(".")
            ns = {}
            exec(f"from {parent} import {child} as _m" if parent else f"import {child} as _m", ns)
            m = ns["_m"]
        else:
            raise ValueError(form)
    except BaseException as e:  # noqa
        return exc_class(e)
    r = classify(m)
    if r[0] == "real" and r[1] != path:
        return ["other", "real:" + r[1]]
    return r[:1] if r[0] == "real" else r


def session_engine(s):
    mod = type(s).__module__.split(".")
    return mod[1] if len(mod) >= 3 and mod[0] == "sqlframe" else "?" + type(s).__name__


def main():
    arg = sys.argv[1] if len(sys.argv) > 1 else sys.stdin.read()
    script = json.loads(arg)
    env = script["env"]
    if env == "healthy":
        import numpy
        if not hasattr(numpy, "NaN"):
            numpy.NaN = numpy.nan
    elif env == "absent":
        sys.meta_path.insert(0, HidePySpark())
    install_stubs()
    import sqlframe

    pre = sorted(k for k in sys.modules if k.startswith("pyspark") or (k.startswith("sqlframe.") and k.count(".") == 1
                                                                      and k.split(".")[1] in sqlframe.ENGINE_TO_PREFIX))
    out = []
    stack = []
    last_exc = None
    last_session = None
    for ev in script["events"]:
        k = ev[0]
        try:
            if k in ("act", "enter"):
                _, eng, cid, cfg = ev
                conn = CONNS[cid] if cid else None
                try:
                    if k == "act":
                        sqlframe.activate(eng, conn, dict(cfg) or None)
                    else:
                        cm = sqlframe.activate_context(eng, conn, dict(cfg) or None)
                        stack.append(cm)
                        cm.__enter__()
                    r = ["ok"]
                except BaseException as e:  # noqa
                    r = ["raised", type(e).__name__]
            elif k == "deact":
                try:
                    sqlframe.deactivate()
                    r = ["ok"]
                except BaseException as e:  # noqa
                    r = ["raised", type(e).__name__]
            elif k == "exit":
                if not stack:
                    r = ["noctx"]
                else:
                    cm = stack.pop()
                    if ev[1] == "normal":
                        args = (None, None, None)
                        exc = None
                    else:
                        if ev[1] == "braise":
                            exc = KeyboardInterrupt("c20: the block was interrupted")
                        elif ev[1] == "sraise" and last_exc is not None:
                            exc = last_exc
                        else:
                            exc = RuntimeError("c20: raised in the block")
                        args = (type(exc), exc, exc.__traceback__)
                    try:
                        swallowed = cm.__exit__(*args)
                        r = ["ok"] if (exc is None or not swallowed) else ["swallowed"]
                    except BaseException as e:  # noqa
                        r = ["ok"] if e is exc else ["raised", type(e).__name__]
            elif k == "goc":
                last_exc = None
                last_session = None
                try:
                    ns = {}
                    exec("from pyspark.sql import SparkSession as _S", ns)
                    S = ns["_S"]
                    if getattr(S, "__module__", "").startswith("pyspark."):
                        r = ["real"]
                    else:
                        try:
                            s = S.builder.getOrCreate()
                            last_session = s
                            r = ["session", session_engine(s), conn_id(getattr(s, "_connection", None)),
                                 type(getattr(s, "input_dialect", None)).__name__.lower()]
                        except BaseException as e:  # noqa
                            last_exc = e
                            r = ["raised", type(e).__name__]
                except BaseException as e:  # noqa
                    r = exc_class(e)
            elif k == "imp":
                r = do_import(ev[1], ev[2])
            elif k == "dial":
                if last_session is None:
                    r = ["dial", None]
                else:
                    r = ["dial", [type(getattr(last_session, a, None)).__name__.lower()
                                  for a in ("input_dialect", "output_dialect", "execution_dialect")]]
            elif k == "bconf":
                try:
                    ns = {}
                    exec("from pyspark.sql import SparkSession as _S", ns)
                    S = ns["_S"]
                    if getattr(S, "__module__", "").startswith("pyspark."):
                        r = ["ok"]                       # the real PySpark's builder is left alone
                    else:
                        try:
                            if ev[1] == "key":
                                for kk, vv in ev[2].items():
                                    S.builder.config(kk, vv)
                            else:
                                S.builder.config(map=dict(ev[2]))
                            r = ["ok"]
                        except BaseException as e:  # noqa
                            r = ["raised", type(e).__name__]
                except BaseException:  # noqa
                    r = ["ok"]                           # pyspark.sql not importable: nothing to configure
            elif k == "loadf":
                importlib.import_module(f"sqlframe.{ev[1]}.functions")
                r = ["ok"]
            elif k == "names":
                r = ["names", names_check(ev[1], ev[2])]
            else:
                r = ["bad-event"]
        except BaseException as e:  # noqa
            r = ["harness-error", type(e).__name__, str(e)[:200]]
        cfg = sorted([str(key), conn_id(v) if isinstance(v, Conn) else (v if isinstance(v, str) else type(v).__name__)]
                     for key, v in sqlframe.ACTIVATE_CONFIG.items())
        out.append({"r": r, "cfg": cfg})
    print("C20OBS " + json.dumps({"pre": pre, "obs": out}))


def names_check(engine, pairs):
    """pairs = [[file, pyspark_name, sqlframe_name], ...] (computed by the Coq model from the regenerated facts):
    is pyspark.sql.<file>.<pyspark_name> the very object sqlframe.<engine>.<sqlframe_name>, and does
    `from pyspark.sql import <pyspark_name>` give the same object?  Returns a string of 0/1."""
    res = ""
    pkg = importlib.import_module(f"sqlframe.{engine}")
    for file, pname, sname in pairs:
        try:
            want = getattr(pkg, sname)
            got1 = getattr(importlib.import_module(f"pyspark.sql.{file}"), pname)
            ns = {}
            exec(f"from pyspark.sql import {pname} as _x", ns)
            res += "1" if (got1 is want and ns["_x"] is want) else "0"
        except BaseException:  # noqa
            res += "0"
    return res


if __name__ == "__main__":
    main()
