"""C11 -- all actions present the same data (DuckDBSession).

T1  translate/c11_facts.py -> Gen/C11Facts.v  (head's `n or 1`, what count/isEmpty select and after which wrap,
                                               show's limit/header logic, the Row._unique_field_names loop body,
                                               statement paths of collect/toPandas/toArrow, receiver-write summary)
    translate/c01_facts.py -> Gen/C01Facts.v  (the clause-ordering facts the DataFrame states are compiled with)
Prf coq/props/C11.v        -> C11_partial (count/isEmpty/head/first/head(n)/limit(n)/show(n) on every reachable state
                              and every input), C11_count_holds, C11_names_partial, C11_same_statement,
                              C11_actions_independent, refutations of the full statement
T3  every action on the SAME DataFrame, in two (thorough: three) different orders, on C01-style programs (+ a final
    select that repeats a column name) x tables with NULLs/duplicates/empty; observations compared in Coq with the
    implementation's own collect() (the property) and with the model; the Coq spec itself is validated against what
    PySpark 3.5.9 answered (oracle/c11_pyspark.json, recorder oracle/record_c11.py).
"""
from __future__ import annotations

import contextlib
import decimal
import io
import json
import math
import os
import random
import warnings

from vlib import core, rel
from vlib.core import strlit, listlit, natlit, boollit, zlit
from translate import c01_facts, c11_facts
from checks import c01

HEADER = """From SF Require Import C11.ActionsCheck.
From Gen Require Import C01Facts C11Facts.
Open Scope string_scope.
Definition check := ActionsCheck.check gen_cfg gen_afacts path_of.
"""
# DataFrames the chain model does not compile (joins, aggregation, set operations): judged by the property's relation
# between the actions and the implementation's own collect() only
HEADER_OPAQUE = """From SF Require Import C11.ActionsCheck.
Open Scope string_scope.
Definition check := ActionsCheck.check_opaque.
"""

TABLES = c01.TABLES
SCHEMA = c01.SCHEMA
COLS0 = c01.COLS0
PYSPARK_SHOW_DEFAULT = 20
# the single-input operations whose compilation C01's core theorem (Model/ChainProof.v) covers; C01's generator may
# know more (composites, aggregation): those are not used here
CORE = {"select", "where", "orderBy", "limit", "distinct", "withColumn", "rename", "drop"}
step_coq = getattr(c01, "core_step_coq", c01.step_coq)
N_CORPUS = 13


# ---- canonical forms of what the actions return --------------------------------------------------------

def py_val(x):
    """value as a plain Python object; pandas/numpy: NaN/NA/None -> None, integral float -> int (an integer column
    with NULLs comes back from pandas as float64), numpy scalars -> Python scalars"""
    if x is None:
        return None
    try:
        import pandas as pd
        if pd.isna(x):
            return None
    except (TypeError, ValueError):
        pass
    if hasattr(x, "item") and not isinstance(x, (str, bytes)):
        x = x.item()
    if isinstance(x, bool):
        return x
    if isinstance(x, decimal.Decimal) and x == x.to_integral_value():
        return int(x)       # sum() of BIGINT is HUGEINT in DuckDB; pyarrow hands it over as a decimal
    if isinstance(x, float):
        if math.isnan(x):
            return None
        if x.is_integer():
            return int(x)
    return x


def rows_of(rs):
    return [tuple(py_val(v) for v in r) for r in rs]


def parse_table(text: str):
    """PrettyTable / PySpark show() output -> (header cells, body rows of cells)"""
    lines = [l for l in text.splitlines() if l.startswith("|")]
    if not lines:
        return [], []

    def cells(l):
        if l.strip() == "||":
            return []
        return [c.strip() for c in l.strip()[1:-1].split("|")]
    return cells(lines[0]), [cells(l) for l in lines[1:]]


def run_action(df, act):
    """-> canonical observation (kind, payload) ; exceptions become ('raised', ExceptionName)"""
    k = act[0]
    try:
        if k == "collect":
            got = df.collect()
            names = list(got[0].__fields__) if got else list(df.columns)
            return ("collect", names, rows_of(got))
        if k == "count":
            return ("count", int(df.count()))
        if k == "isEmpty":
            return ("isEmpty", bool(df.isEmpty()))
        if k in ("head", "first"):
            r = df.head() if k == "head" else df.first()
            return (k, None if r is None else rows_of([r])[0])
        if k == "headN":
            return (k, act[1], rows_of(df.head(act[1])))
        if k == "limitN":
            return (k, act[1], rows_of(df.limit(act[1]).collect()))
        if k == "toPandas":
            with warnings.catch_warnings():
                warnings.simplefilter("ignore")
                pdf = df.toPandas()
            return (k, [str(c) for c in pdf.columns], rows_of(pdf.values.tolist()))
        if k == "toArrow":
            tbl = df.toArrow()
            colsv = [c.to_pylist() for c in tbl.columns]
            return (k, list(tbl.column_names), rows_of(list(zip(*colsv))) if colsv else [])
        if k in ("show", "showD", "showT"):
            buf = io.StringIO()
            try:
                with contextlib.redirect_stdout(buf):
                    if k == "show":
                        df.show(act[1])
                    elif k == "showD":
                        df.show()
                    else:
                        df.show(act[1], truncate=True)
            except Exception as ex:   # PrettyTable's ValueError for a repeated header
                return (k, act[1] if len(act) > 1 else None, ("raised", type(ex).__name__, str(ex)[:80]))
            return (k, act[1] if len(act) > 1 else None, parse_table(buf.getvalue()))
    except Exception as ex:
        return ("raised", act, type(ex).__name__, str(ex)[:120])
    raise ValueError(act)


def obs_coq(o) -> str:
    k = o[0]
    if k == "count":
        return f"(OCount {zlit(o[1])})"
    if k == "isEmpty":
        return f"(OIsEmpty {boollit(o[1])})"
    if k in ("head", "first"):
        c = "OHead" if k == "head" else "OFirst"
        return f"({c} {'None' if o[1] is None else '(Some ' + rel.row_coq(o[1]) + ')'})"
    if k in ("headN", "limitN"):
        c = "OHeadN" if k == "headN" else "OLimitN"
        return f"({c} {natlit(o[1])} {listlit([rel.row_coq(r) for r in o[2]])})"
    if k in ("toPandas", "toArrow"):
        c = "OPandas" if k == "toPandas" else "OArrow"
        return f"({c} {listlit([strlit(n) for n in o[1]])} {listlit([rel.row_coq(r) for r in o[2]])})"
    if k in ("show", "showT", "showD"):
        if o[2] and o[2][0] == "raised":
            res = "None"
        else:
            names, body = o[2]
            res = f"(Some ({listlit([strlit(n) for n in names])}, {listlit([listlit([strlit(c) for c in r]) for r in body])}))"
        if k == "showD":
            return f"(OShowD {res})"
        return f"(OShow {natlit(o[1])} {res})"
    if k == "raised":
        return f"(ORaised {strlit(str(o[1][0]) + ':' + o[2])})"
    raise ValueError(o)


# ---- programs ---------------------------------------------------------------------------------------------

def dup_step(rnd, cols, kind):
    """a final select that repeats an output name (what a join of two frames sharing a column name also produces)"""
    names = list(cols)
    x = rnd.choice(names)
    y = rnd.choice([c for c in names if c != x] or [x])
    z = rnd.choice(names)
    base = rnd.choice(["a", "k", x])
    if kind == "dup":        # ['n', 'n'] possibly followed by another column
        items = [(("col", x), base), (("col", y), base)]
        if rnd.random() < 0.4 and z != base:
            items.append((("col", z), z if z != base else "w"))
    elif kind == "same":     # the same expression twice under the same alias
        items = [(("col", x), base), (("col", x), base)]
    elif kind == "clash1":   # ['n_2', 'n', 'n']  -> the renamed third name collides with the first
        items = [(("col", x), base + "_2"), (("col", y), base), (("col", z), base)]
    else:                    # ['n', 'n_2', 'n']
        items = [(("col", x), base), (("col", y), base + "_2"), (("col", z), base)]
    return ("select", items)


def make_programs(ctx):
    rnd = random.Random(ctx.seed + 11)
    g = c01.Gen(rnd)
    cols0 = {"a": "int", "b": "int", "s": "str"}
    total0 = ("orderBy", [(("col", c), False, None) for c in COLS0])
    corpus = [
        [],
        [total0],
        [("where", ("bin", "Gt", ("col", "a"), ("lit", 100)))],                        # empty result
        [total0, ("limit", 2)],
        [("limit", 0)],
        [("orderBy", [(("col", "b"), True, None), (("col", "a"), False, True), (("col", "s"), False, None)]), ("limit", 3),
         ("select", [(("bin", "Add", ("col", "a"), ("lit", 1)), "c"), (("col", "s"), "s")])],
        [("distinct",)],
        [("distinct",), total0],
        [("where", ("isnull", ("col", "a"))), total0],
        [("withColumn", "c", ("coalesce", ("col", "a"), ("lit", 9))), ("orderBy", [(("col", c), True, None) for c in ["c", "b", "s", "a"]])],
        [total0, ("select", [(("col", "a"), "a"), (("col", "b"), "a")])],                 # duplicate names
        [total0, ("select", [(("col", "a"), "a_2"), (("col", "b"), "a"), (("col", "s"), "a")])],   # colliding rename
        [total0, ("select", [(("col", "b"), "k"), (("col", "b"), "k")])],
    ]
    assert len(corpus) == N_CORPUS
    progs = [list(p) for p in corpus]
    seen_p = {repr(p) for p in progs}
    for f in sorted(os.listdir(os.path.join(core.VERIF, "findings"))):   # witnesses of repaired defects stay in the corpus
        if f.startswith("C11-") and f.endswith(".json"):
            with open(os.path.join(core.VERIF, "findings", f)) as fh:
                st = [_tup(x) for x in json.load(fh).get("replay", {}).get("steps_json", [])]
            if repr(st) not in seen_p:
                seen_p.add(repr(st))
                progs.insert(0, st)
    ctx.coverage["corpus_programs"] = len(progs)
    n_rand = 60 if ctx.tier == "quick" else 350
    maxlen = 4 if ctx.tier == "quick" else 7
    for i in range(n_rand):
        cols = dict(cols0)
        steps = []
        for _ in range(rnd.randint(0, maxlen)):
            for _try in range(8):
                st = g.step(cols)
                nc = c01.cols_after(st, cols) if st[0] in CORE else None
                if nc is not None:
                    steps.append(st)
                    cols = nc
                    break
        if rnd.random() < 0.55:      # make the order of the result determined, so that sequences can be compared
            names = list(cols)
            rnd.shuffle(names)
            steps.append(("orderBy", [(("col", c), rnd.random() < 0.4, rnd.choice([None, None, True, False])) for c in names]))
            if rnd.random() < 0.35:
                steps.append(("limit", rnd.choice([0, 1, 2, 3, 5])))
        r = rnd.random()
        if r < 0.3:
            steps.append(dup_step(rnd, cols, rnd.choice(["dup", "dup", "same", "clash1", "clash2"])))
        progs.append(steps)
    return progs


def mode_of(steps):
    """how far the order (and content) of collect() is determined: CSeq / CBag / CLen, and the steps actually run"""
    body = steps
    tail = []
    if steps and steps[-1][0] == "select" and len({n for _, n in steps[-1][1]}) < len(steps[-1][1]):
        body, tail = steps[:-1], steps[-1:]
    (mode, lim), body2 = c01.plan_mode(body)
    if mode == "sub" or len(body2) < len(body):
        # an undetermined LIMIT (no total order below it, e.g. orderBy on a key with ties): WHICH rows survive is
        # engine-defined -- DuckDB, Spark and the model may each pick differently, also between LIMIT n and LIMIT m of
        # the same query -- so only the sizes are compared (C01 judges the rows of such programs in its sub-bag mode)
        return "CLen", body2 + tail
    return ("CSeq" if mode == "seq" else "CBag"), body2 + tail


def has_dup(names):
    return len(set(names)) < len(names)


def signature(o, cn, cr, model_ok):
    """shape predicate of an implementation-vs-property deviation"""
    k = o[0]
    sfx = "" if model_ok else ":not-reproduced-by-model"
    if k == "headN" and o[1] == 0 and len(o[2]) == 1 and o[2][0] in cr:
        return "C11/head-0-returns-a-row" + sfx
    if k in ("show", "showT", "showD"):
        res = o[2]
        n = PYSPARK_SHOW_DEFAULT if k == "showD" else o[1]
        if res and res[0] == "raised":
            if has_dup(ref_ufn(cn)) and res[1] == "ValueError":     # name_<i> equals another column's name
                return "C11/show-raises-on-colliding-renamed-name" + sfx
            return f"C11/show-raises:{res[1]}" + sfx
        names, body = res
        if not names and not body and cn and min(n, len(cr)) == 0:
            return "C11/show-without-rows-omits-column-names" + sfx
        if has_dup(cn) and names == ref_ufn(cn):
            # every column printed with the values of the first column of the same name?
            first = {}
            for i, c in enumerate(cn):
                first.setdefault(c, i)
            if all(len(r) == len(cn) for r in body) and len(body) == min(n, len(cr)) and \
                    all(r[i] == r[first[c]] for r in body for i, c in enumerate(cn)):
                return "C11/show-duplicate-names-repeat-first-column" + sfx
        return "C11/show-differs" + sfx
    if k == "raised":
        return f"C11/raises:{o[1][0]}:{o[2]}"
    return f"C11/{k}-differs" + sfx


def build(session, F, rows, steps):
    df = session.createDataFrame(rows, SCHEMA)
    for st in steps:
        df = c01.apply_step(df, st, F)
    return df


def opaque_frames(df, F):
    """name -> (constructor, compare mode): C02/C06/C07-style DataFrames, incl. duplicate names after joins"""
    l = df.select("a", "b")
    r = df.select(F.col("a").alias("a"), F.col("s"))
    return {
        "join-using": (lambda: l.join(r, on="a"), "CBag"),
        "join-cond-dup": (lambda: l.alias("l").join(r.alias("r"), F.col("l.a") == F.col("r.a")), "CBag"),
        "left-join-dup": (lambda: l.alias("l").join(r.alias("r"), F.col("l.a") == F.col("r.a"), "left"), "CBag"),
        "cross-join-dup": (lambda: df.select("a").crossJoin(df.where(F.col("a") == 2).select("a", "b")), "CBag"),
        "groupBy-agg-ordered": (lambda: df.groupBy("s").agg(F.count("*").alias("n"), F.sum("b").alias("sb")).orderBy("s", "n", "sb"), "CSeq"),
        "global-agg": (lambda: df.groupBy().agg(F.count("*").alias("n"), F.max("a").alias("m")), "CSeq"),
        "union-ordered": (lambda: df.union(df).orderBy("a", "b", "s"), "CSeq"),
        "intersect": (lambda: df.select("a").intersect(df.select("b")), "CBag"),
        "exceptAll": (lambda: df.exceptAll(df.where(F.col("a") == 1)), "CBag"),
        # names whose spelling differs from the normalised identifier (mixed/upper case, a space): every action, also a
        # show() that prints no row, must present them as collect()/toPandas()/toArrow() do
        "mixed-alias": (lambda: df.select(F.col("a").alias("EmpId"), F.col("b").alias("Store Id"), "s"), "CBag"),
        "mixed-toDF-ordered": (lambda: df.toDF("Foo", "BAR", "s").orderBy("Foo", "BAR", "s"), "CSeq"),
        "mixed-rename-ordered": (lambda: df.withColumnRenamed("a", "Aa").orderBy("Aa", "b", "s"), "CSeq"),
        "mixed-create": (lambda: df.session.createDataFrame([tuple(r) for r in df.collect()],
                                                            "foo bigint, BAR bigint, mixedCase string"), "CBag"),
        "mixed-where-empty": (lambda: df.select(F.col("a").alias("EmpId"), F.col("s").alias("sS")).where(F.col("EmpId") > 1000), "CBag"),
    }


def run_opaque(ctx, session, F, rnd, n_passes, devs, order_dev):
    """actions on join / aggregation / set-operation DataFrames (no chain model): property relation + order independence"""
    items, metas = [], []
    for tname in (("t1", "empty") if ctx.tier == "quick" else ("t1", "t2", "empty")):
        rows = TABLES[tname]
        base_df = session.createDataFrame(rows, SCHEMA)
        for name, (mk, cm) in opaque_frames(base_df, F).items():
            try:
                df = mk()
                base = run_action(df, ("collect",))
            except Exception as ex:
                base = ("raised", ("build",), type(ex).__name__, str(ex)[:100])
            if base[0] != "collect":
                continue      # C02/C06/C07 judge whether the program itself runs
            _, cn, cr = base
            acts = action_list(rnd, len(cr), force_show0=name.startswith("mixed"))
            first = None
            for p in range(n_passes):
                order = list(acts) + [("collect",)]
                rnd.shuffle(order)
                res = {a: run_action(df, a) for a in order}
                first = first or res
                for a in acts + [("collect",)]:
                    ref = base if a == ("collect",) else first[a]
                    same = res[a] == ref if (cm == "CSeq" or a[0] in ("count", "isEmpty", "collect", "toPandas", "toArrow")) \
                        else _size(res[a]) == _size(ref)
                    if not same:
                        order_dev.append({"program": [name], "steps_json": [], "opaque": name, "table": tname, "rows": rows,
                                          "action": a, "alone_or_first": ref, "in_order": [list(x) for x in order], "then": res[a]})
            obs = [first[a] for a in acts]
            try:
                items.append(f"(mkC (mkFrame [] []) [] {cm} (Some ({listlit([strlit(c) for c in cn])}, "
                             f"{listlit([rel.row_coq(r) for r in cr])})) {listlit([obs_coq(o) for o in obs])})")
            except rel.NotExportable:
                continue
            metas.append({"name": name, "table": tname, "cn": cn, "cr": cr, "obs": obs, "acts": acts, "mode": cm})
    res = ctx.cases("c11_opaque", HEADER_OPAQUE, items, per_file=6, result_ty="str", fn="check")
    n = 0
    for m, r in zip(metas, res):
        if r is None or len(r) != len(m["obs"]):
            continue
        for j, o in enumerate(m["obs"]):
            n += 1
            if r[j] != "1":
                sig = signature(o, m["cn"], m["cr"], True)
                desc = {"program": [m["name"]], "opaque": m["name"], "steps_json": [], "table": m["table"], "rows": TABLES[m["table"]],
                        "mode": m["mode"], "collect_names": m["cn"], "collect_rows": m["cr"], "action": list(m["acts"][j]),
                        "returned": o, "spec_ok": False, "model_ok": None}
                size = (50, len(TABLES[m["table"]]))
                if sig not in devs or size < devs[sig][0]:
                    devs[sig] = (size, desc)
    ctx.coverage["opaque_frames(join/agg/set-op)"] = len(metas)
    ctx.coverage["opaque_observations"] = n
    return n


def action_list(rnd, size, force_show0=False):
    ns = [0, 1, 2, size + 3]
    acts = [("count",), ("isEmpty",), ("head",), ("first",), ("toPandas",), ("toArrow",)]
    acts += [("headN", n) for n in ns]
    acts += [("limitN", n) for n in rnd.sample(ns, 2)]
    sn = rnd.sample(ns, 2)
    if force_show0 and 0 not in sn:
        sn[0] = 0
    acts += [("show", n) for n in sn]
    acts.append(rnd.choice([("showD",), ("showT", rnd.choice(ns))]))
    return acts


def run(ctx: core.Ctx):
    # ---- T1
    t1_ok = True
    try:   # only the chain configuration (Model.Chain.cfg) C11's theorems use; same definition names as Gen.C01Facts
        text01, facts01 = c11_facts.chain_cfg(core.REPO)
        ctx.gen("C01Facts", text01, facts01)
    except Exception as ex:
        ctx.broken("T1:chain_cfg(c01_facts readers)", f"{type(ex).__name__}: {ex}")
        ctx.gen("C01Facts", open(core.VERIF + "/translate/c11_cfg_pinned.v").read())
        t1_ok = False
    try:
        text, facts = c11_facts.generate(core.REPO)
        ctx.gen("C11Facts", text, facts)
    except Exception as ex:   # fail-closed translator = broken proof obligation
        ctx.broken("T1:c11_facts", f"{type(ex).__name__}: {ex}")
        ctx.gen("C11Facts", open(core.VERIF + "/translate/c11_facts_pinned.v").read())
        t1_ok = False
    # ---- proofs
    deps = ["Base/Val.v", "Base/Expr.v", "Base/Sort.v", "Sql/Block.v", "Sql/Norm.v", "Model/Chain.v",
            "Model/ChainProof.v", "Model/ChainCheck.v", "C11/Names.v", "C11/Actions.v", "C11/ActionsCheck.v"]
    if t1_ok:
        proved = ctx.prove([ctx.build + "/gen/C01Facts.v", ctx.build + "/gen/C11Facts.v", core.COQ + "/props/C11.v"],
                           dep_theories=deps)
    else:
        proved = False
        ctx.coqc(ctx.build + "/gen/C01Facts.v")
        ctx.coqc(ctx.build + "/gen/C11Facts.v")
    refute_failed = prove_refutations(ctx) if t1_ok else {}
    # ---- T3
    from sqlframe.duckdb import DuckDBSession
    import sqlframe.duckdb.functions as F
    import logging
    logging.getLogger("sqlframe").setLevel(logging.ERROR)   # show(truncate=True) logs a warning per call
    session = DuckDBSession()
    try:
        session._conn.execute("PRAGMA threads=1")
    except Exception:
        pass
    rnd = random.Random(ctx.seed + 1)
    progs = make_programs(ctx)
    n_corpus = ctx.coverage.get("corpus_programs", N_CORPUS)
    items, metas = [], []
    hist = {"mode": {}, "len": {}, "table": {}, "dup_names": 0, "empty_result": 0, "actions": {}, "result_size": {}}
    order_dev = []
    seen = set()
    n_passes = 2 if ctx.tier == "quick" else 3
    for pi, steps0 in enumerate(progs):
        cm, steps = mode_of(steps0)
        tnames = ["t1", "t2", "empty"] if ctx.tier != "quick" else (["t1" if pi % 2 else "t2"] + (["empty"] if pi % 4 == 0 else []))
        if pi < n_corpus:
            tnames = ["t1"] + (["empty"] if steps0 in ([], [("limit", 0)]) or pi % 4 == 0 else [])
        for tname in tnames:
            rows = TABLES[tname]
            key = (repr(steps), tname)
            if key in seen:
                continue
            seen.add(key)
            try:
                df = build(session, F, rows, steps)
                base = run_action(df, ("collect",))
            except Exception as ex:
                base = ("raised", ("build",), type(ex).__name__, str(ex)[:100])
            if base[0] != "collect":
                # outside C11: the program itself does not run (C01/C10 judge that); recorded in the histogram
                hist.setdefault("program_raised", 0)
                hist["program_raised"] += 1
                continue
            _, cn, cr = base
            acts = action_list(rnd, len(cr))
            passes = []
            for p in range(n_passes):
                order = list(acts) + [("collect",)]
                rnd.shuffle(order)
                res = {}
                for a in order:
                    res[a] = run_action(df, a)
                passes.append((order, res))
            first = passes[0][1]
            # (a) no action alters the result of any other: same canonical answer in every order, and collect() unchanged
            for order, res in passes:
                for a in acts + [("collect",)]:
                    ref = base if a == ("collect",) else first[a]
                    if cm == "CSeq" or a[0] in ("count", "isEmpty", "collect", "toPandas", "toArrow"):
                        same = res[a] == ref
                    else:   # undetermined order: compare what is determined (sizes)
                        same = _size(res[a]) == _size(ref)
                    if not same:
                        order_dev.append({"program": [c01.step_str(s) for s in steps], "steps_json": steps, "table": tname,
                                          "rows": rows, "action": a, "alone_or_first": ref, "in_order": [list(x) for x in order],
                                          "then": res[a]})
            # (b) show(n, truncate=True) prints the table show(n) prints
            obs = [first[a] for a in acts]
            items.append(f"(mkC {rel.frame_coq(COLS0, rows)} {listlit([step_coq(s) for s in steps])} {cm} "
                         f"(Some ({listlit([strlit(c) for c in cn])}, {listlit([rel.row_coq(r) for r in cr])})) "
                         f"{listlit([obs_coq(o) for o in obs])})")
            metas.append({"steps": steps, "table": tname, "mode": cm, "cn": cn, "cr": cr, "obs": obs, "acts": acts})
            hist["mode"][cm] = hist["mode"].get(cm, 0) + 1
            hist["len"][len(steps)] = hist["len"].get(len(steps), 0) + 1
            hist["table"][tname] = hist["table"].get(tname, 0) + 1
            hist["dup_names"] += has_dup(cn)
            hist["empty_result"] += (not cr)
            sz = min(len(cr), 9)
            hist["result_size"][sz] = hist["result_size"].get(sz, 0) + 1
            for a in acts:
                hist["actions"][a[0]] = hist["actions"].get(a[0], 0) + n_passes
    ctx.log(f"{len(items)} cases from {len(progs)} programs, {sum(len(m['obs']) for m in metas)} observations x {n_passes} orders")
    if order_dev:
        d = sorted(order_dev, key=lambda x: (len(x["steps_json"]), len(x["rows"])))[0]
        ctx.deviation(f"C11/result-depends-on-action-order:{d['action'][0]}",
                      "an action returns something else after other actions ran on the same DataFrame", d)
    res = ctx.cases("c11", HEADER, items, per_file=12 if ctx.tier == "quick" else 40, result_ty="str", fn="check")
    n_dom = n_nontriv = n_obs = n_spec_ok = n_model_ok = n_downgraded = 0
    devs, model_fail, collect_fail = {}, [], []
    for it, m, r in zip(items, metas, res):
        if r is None or len(r) != 3 + 2 * len(m["obs"]):
            continue
        cmok, dom, thm = r[0] in "12", r[1] == "1", r[2] == "1"
        n_downgraded += r[0] == "2"
        n_dom += dom
        desc0 = {"program": [c01.step_str(s) for s in m["steps"]], "steps_json": m["steps"], "table": m["table"],
                 "rows": TABLES[m["table"]], "mode": m["mode"], "collect_names": m["cn"], "collect_rows": m["cr"]}
        if not cmok:
            collect_fail.append(desc0)
        if proved and dom and not thm and not any(b["name"] == "theorem-vs-evaluation" for b in ctx.brokens):
            ctx.broken("theorem-vs-evaluation", "in-domain case where the model's answers do not satisfy the theorems: " + it[:600])
        for j, o in enumerate(m["obs"]):
            sp, mo = r[3 + 2 * j] == "1", r[4 + 2 * j] == "1"
            n_obs += 1
            n_spec_ok += sp
            n_model_ok += mo
            desc = dict(desc0, action=list(m["acts"][j]), returned=o, spec_ok=sp, model_ok=mo)
            if not sp:
                sig = signature(o, m["cn"], m["cr"], mo)
                cur = devs.get(sig)
                size = (len(m["steps"]), len(TABLES[m["table"]]))
                if cur is None or size < cur[0]:
                    devs[sig] = (size, desc)
            elif not mo and cmok:
                model_fail.append(desc)
        if m["cr"] and m["steps"] and len(m["cr"]) >= 2:
            n_nontriv += 1
        if len(ctx.samples) < 4 and len(m["steps"]) >= 2 and m["cr"]:
            ctx.sample({"program": desc0["program"], "table": m["table"], "mode": m["mode"], "verdict": r,
                        "actions": [list(a) for a in m["acts"]]})
    ctx.log("chain cases evaluated")
    n_opaque = run_opaque(ctx, session, F, rnd, n_passes, devs, order_dev2 := [])
    ctx.log(f"{n_opaque} observations on join/aggregation/set-operation DataFrames")
    if order_dev2 and not order_dev:
        d = order_dev2[0]
        ctx.deviation(f"C11/result-depends-on-action-order:{d['action'][0]}",
                      "an action returns something else after other actions ran on the same DataFrame", d)
    for sig, (_, desc) in sorted(devs.items()):
        what = {"C11/head-0-returns-a-row": "head(0) returns the first row (n or 1); PySpark returns []",
                "C11/show-without-rows-omits-column-names": "show() of an empty result / show(0) prints no column names; PySpark prints the header",
                "C11/show-duplicate-names-repeat-first-column": "show() with repeated column names prints the first same-named column's values in every same-named column",
                "C11/show-raises-on-colliding-renamed-name": "show() raises ValueError when a renamed duplicate (name_<i>) equals another column name",
                }.get(sig, "an action disagrees with what collect() returns on the same DataFrame")
        desc["pyspark"] = "see oracle/c11_pyspark.json (recorded from PySpark 3.5.9 by oracle/record_c11.py)"
        ctx.deviation(sig, what, desc)
    moot = []
    for sig, err in refute_failed.items():
        if sig in devs:   # the implementation still shows the finding but the model no longer reproduces it
            ctx.broken("proof:C11_refuted.v:" + sig, "refutation no longer provable although the finding still reproduces\n" + err)
        else:
            moot.append(sig)
            ctx.log(f"{sig}: not observed on the implementation any more and its refutation no longer holds of the "
                    "generated facts (defect repaired?) -- remove the entry from the known findings")
    ctx.coverage["refutations_moot_because_finding_no_longer_reproduces"] = moot
    if collect_fail:
        ctx.broken("T3:collect-impl-vs-model", f"{len(collect_fail)} cases where collect() differs from the model's chain "
                   f"evaluation (C01's tie); first: {collect_fail[0]['program']}", data=collect_fail[:3])
    if model_fail:
        ctx.broken("T3:impl-vs-model", f"{len(model_fail)} observations that satisfy the property but differ from the model; "
                   f"first: {model_fail[0]['program']} {model_fail[0]['action']}", data=model_fail[:5])
    # ---- the Coq spec against what PySpark answered (recording)
    n_oracle = spec_vs_pyspark(ctx)
    # ---- the generated renaming function against the real Row._unique_field_names, on sampled and adversarial names
    n_names = names_vs_impl(ctx, rnd)
    ctx.coverage.update({
        "evaluations": n_obs + n_opaque + n_oracle + n_names, "distinct_nontrivial": n_nontriv,
        "rule": "case = (program, table) with >= 16 observed action results each, every action run in "
                f"{n_passes} different orders on the same DataFrame; non-trivial = at least one operation and a result of >= 2 rows "
                "(both non-empty tables contain NULLs, duplicate rows and ties); distinct by (program text, table)",
        "cases": len(items), "programs": len(progs), "observations": n_obs, "observations_satisfying_property": n_spec_ok,
        "observations_equal_to_model": n_model_ok, "in_theorem_domain_cases": n_dom,
        "pyspark_recorded_observations_checked_against_spec": n_oracle, "unique_field_names_inputs": n_names,
        "histogram_compare_mode": hist["mode"], "histogram_program_length": hist["len"], "histogram_table": hist["table"],
        "histogram_result_size(9=9+)": hist["result_size"], "histogram_action_runs": hist["actions"],
        "cases_with_duplicate_names": hist["dup_names"], "cases_with_empty_result": hist["empty_result"],
        "programs_that_raised": hist.get("program_raised", 0),
        "ordered_cases_whose_order_the_engine_did_not_keep(judged as bags)": n_downgraded, "orders_per_case": n_passes,
        "order_dependent_results": len(order_dev),
    })
    ctx.assumptions += [
        "Sql.Block.eval_block is my definition of DuckDB's SELECT evaluation on the emitted fragment (validated by T3 only); "
        "eval_count_block is my definition of SELECT count(*) over a block",
        "DuckDB keeps the order of an ordered CTE through outer filter/projection/LIMIT (threads=1, small tables)",
        "a name repeated in a CTE's select list resolves to its first occurrence in DuckDB (Base.Val.lookup); validated by the duplicate-name cases",
        "pandas/pyarrow value conversion is not modelled: T3 compares names, order and values after NaN/NA->None and integral float->int",
        "PrettyTable prints str(value) per cell, one line per row, and refuses a header with duplicates (ValueError)",
        "the write summary is per method body (no transitive closure over callees); the cross-order T3 runs cover the rest",
        "Spec (head_spec/show_spec and the relations of ActionsCheck.spec_ok) validated against PySpark 3.5.9 recordings (oracle/c11_pyspark.json)",
    ]
    ctx.trusted += ["translate/c11_facts.py (fail-closed ast translator) and vlib/py2v.py", "checks/c11.py harness (runner, canonicaliser, show() parser)"]


def prove_refutations(ctx) -> dict:
    """compile every chunk of coq/props/C11_refuted.v on its own; -> {signature: coqc error} of those that failed"""
    import re
    path0 = core.COQ + "/props/C11_refuted.v"
    if not os.path.exists(path0):      # nothing is refuted at present (all listed defects are repaired)
        ctx.coverage["refutations_checked"] = 0
        return {}
    src = open(path0).read()
    parts = re.split(r"\(\* == refutes: (\S+) == \*\)\n", src)
    pre, failed = parts[0], {}
    for k, (sig, body) in enumerate(zip(parts[1::2], parts[2::2])):
        path = ctx.gen(f"C11_refuted_{k}", pre + "\n" + body)
        gate = core.grep_gate([path])
        n = core.count_obligations(path) - 0
        if gate:
            ctx.broken("axiom-gate:C11_refuted.v", "; ".join(gate[:5]))
            continue
        rc, out, err, dt, cmd = ctx.coqc(path)
        ctx.checker_cmds.append(cmd)
        if rc == 0:
            ctx.obligations += n
            ctx.discharged += n
            for blk in core.parse_assumptions(out):
                ctx.assumptions_printed.append(f"C11_refuted.v[{sig}]: {blk}")
        else:
            failed[sig] = (err or out)[-1500:]
            ctx.log(f"refutation of {sig} no longer compiles")
    ctx.coverage["refutations_checked"] = len(parts) // 2
    return failed


def ref_ufn(fields):
    """the renaming algorithm the listed findings refer to (reference copy, only used to classify deviations)"""
    out = []
    for i, f in enumerate(fields):
        if f in out:
            f = f + "_" + str(i)
        out.append(f)
    return out


def _size(o):
    if o[0] in ("headN", "limitN"):
        return len(o[2])
    if o[0] in ("head", "first"):
        return o[1] is None
    if o[0] in ("show", "showT", "showD"):
        r = o[2]
        return ("raised",) if r and r[0] == "raised" else (tuple(r[0]), len(r[1]))
    return o


def spec_vs_pyspark(ctx) -> int:
    """PySpark's recorded answers must satisfy the Coq spec relation (with PySpark's NULL rendered as None)."""
    path = os.path.join(core.VERIF, "oracle", "c11_pyspark.json")
    with open(path) as f:
        rec = json.load(f)
    rows = [tuple(r) for r in rec["rows"]]

    def shown(key):
        names, body = parse_table(rec[key])
        return names, [["None" if c == "NULL" else c for c in r] for r in body]

    def case(steps, cn, cr, obs):
        return (f"(mkC {rel.frame_coq(COLS0, rows)} {listlit([step_coq(s) for s in steps])} CSeq "
                f"(Some ({listlit([strlit(c) for c in cn])}, {listlit([rel.row_coq(tuple(r)) for r in cr])})) "
                f"{listlit([obs_coq(o) for o in obs])})")
    full = [("count", rec["count()"]), ("isEmpty", rec["isEmpty()"]), ("head", tuple(rec["head()"])), ("first", tuple(rec["first()"])),
            ("headN", 0, rows_of(rec["head(0)"])), ("headN", 1, rows_of(rec["head(1)"])), ("headN", 2, rows_of(rec["head(2)"])),
            ("headN", 100, rows_of(rec["head(100)"])), ("limitN", 0, rows_of(rec["limit(0).collect()"])),
            ("show", 0, shown("show(0)")), ("show", 2, shown("show(2)"))]
    empty = [("count", rec["empty.count()"]), ("isEmpty", rec["empty.isEmpty()"]), ("head", rec["empty.head()"]),
             ("first", rec["empty.first()"]), ("headN", 0, rows_of(rec["empty.head(0)"])), ("headN", 2, rows_of(rec["empty.head(2)"])),
             ("show", PYSPARK_SHOW_DEFAULT, shown("empty.show()"))]
    dup = [("count", rec["dup.count()"]), ("show", PYSPARK_SHOW_DEFAULT, shown("dup.show()"))]
    clash = [("show", PYSPARK_SHOW_DEFAULT, shown("clash.show()")), ("show", 1, shown("clash.show(1)"))]
    w_empty = ("where", ("bin", "Gt", ("col", "a"), ("lit", 100)))
    s_dup = ("select", [(("col", "a"), "a"), (("col", "b"), "a")])
    s_clash = ("select", [(("col", "a"), "a_2"), (("col", "b"), "a"), (("col", "s"), "a")])
    cases = [
        (case([], COLS0, rows, full), full),
        (case([w_empty], COLS0, [], empty), empty),
        (case([s_dup], rec["dup.columns"], rec["dup.collect()"], dup), dup),
        (case([s_clash], rec["clash.columns"], rows, clash), clash),
    ]
    res = ctx.cases("c11_oracle", HEADER, [c for c, _ in cases], per_file=10, result_ty="str", fn="check")
    n = 0
    for (c, obs), r in zip(cases, res):
        if r is None:
            continue
        for j, o in enumerate(obs):
            n += 1
            if r[3 + 2 * j] != "1":
                ctx.broken("spec-vs-pyspark", f"PySpark's recorded answer {o!r} does not satisfy the Coq spec relation", data=c[:800])
    return n


def names_vs_impl(ctx, rnd) -> int:
    """Gen.unique_field_names == Row._unique_field_names on field lists incl. adversarial ones; never a duplicate"""
    from sqlframe.base.types import Row
    pool = ["a", "b", "a_1", "a_2", "a_0", "b_1", "a_1_2", "x", "_", "a_", "a_10", "A"]
    lists = [[], ["a"], ["a", "a"], ["a_2", "a", "a"], ["a", "a_2", "a"], ["a", "a", "a_1"], ["a", "a", "a", "a", "a", "a", "a", "a", "a", "a", "a", "a"],
             ["a_1", "a", "a"], ["a", "a_1", "a_1"], ["a_10"] + ["a"] * 11]
    for _ in range(150 if ctx.tier == "quick" else 1500):
        lists.append([rnd.choice(pool[:rnd.choice([2, 4, 12])]) for _ in range(rnd.randint(0, 6))])
    header = ("From SF Require Import C11.ActionsCheck.\nFrom Gen Require Import C11Facts.\nOpen Scope string_scope.\n"
              "Definition check (p : list string * list string) : string :=\n"
              "  b2c (names_eqb (unique_field_names (fst p)) (snd p)) ++ b2c (nodupb (unique_field_names (fst p))) ++ b2c (nodupb (snd p)).\n")
    items = []
    impl = []
    for fs in lists:
        r = Row(*[0] * len(fs)) if fs else Row()
        r.__fields__ = list(fs)
        out = r._unique_field_names
        impl.append(out)
        items.append(f"({listlit([strlit(x) for x in fs])}, {listlit([strlit(x) for x in out])})")
    res = ctx.cases("c11_names", header, items, per_file=60, result_ty="str", fn="check")
    bad = [(fs, out, r) for fs, out, r in zip(lists, impl, res) if r is not None and r[0] != "1"]
    if bad:
        ctx.broken("T3:unique_field_names-impl-vs-generated", f"Row._unique_field_names({bad[0][0]}) = {bad[0][1]} differs from the generated function",
                   data=[list(b) for b in bad[:5]])
    thm = [(fs, out) for fs, out, r in zip(lists, impl, res) if r is not None and r[1] != "1"]
    if thm:
        ctx.broken("theorem-vs-evaluation:names", f"the generated function returns a duplicate header (C11_names_holds says never): {thm[0]}")
    dup = [(fs, out) for fs, out, r in zip(lists, impl, res) if r is not None and r[2] != "1"]
    if dup:
        ctx.deviation("C11/unique-field-names-returns-duplicate", "Row._unique_field_names returns a header with a repeated name",
                      {"fields": dup[0][0], "returned": dup[0][1], "steps_json": [], "rows": [], "action": ["count"]})
    ctx.coverage["unique_field_names_lists_with_repeated_input_names"] = sum(1 for fs in lists if has_dup(fs))
    return len(items)


def _tup(x):
    return tuple(_tup(y) for y in x) if isinstance(x, list) else x


def replay(ctx: core.Ctx, rp: dict) -> int:
    """re-run the program and the action of a replay file on the current tree and print what they return"""
    r = rp.get("replay") or (rp.get("no_longer_checks") or [{}])[0].get("data", [{}])[0]
    steps = [_tup(s) for s in r["steps_json"]]
    from sqlframe.duckdb import DuckDBSession
    import sqlframe.duckdb.functions as F
    df = build(DuckDBSession(), F, [tuple(x) for x in r["rows"]], steps)
    if r.get("opaque"):
        df = opaque_frames(df, F)[r["opaque"]][0]()
    print("program:", [c01.step_str(s) for s in steps])
    print("sql:", df.sql(optimize=False))
    print("collect():", run_action(df, ("collect",)))
    act = _tup(r.get("action") or ["count"])
    print(f"action {act}:", run_action(df, act))
    if act[0] in ("show", "showT", "showD"):
        try:
            df.show(*act[1:2])
        except Exception as ex:
            print("show raised", type(ex).__name__, ex)
    print("recorded when found:", r.get("returned") or rp.get("returned_before_fix"))
    if rp.get("pyspark") or r.get("pyspark"):
        print("PySpark 3.5.9:", rp.get("pyspark") or r.get("pyspark"))
    return 0
