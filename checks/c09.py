"""C09 -- Python values and declared types survive the trip through the engine (DuckDBSession).

T1  translate/c09_facts.py -> Gen/C09Facts.v  (isinstance dispatch chains of get_default_data_type, Column._lit,
    functions.lit, _to_value; shapes of Column.__init__, _to_row, _try_get_map, _create_row; primitive_mapping)
Prf coq/props/C09.v: facts_ok (vm_compute) + C09_partial = string/ident/statement round trips for ALL NUL-free
    strings, infer_type_sound, value_roundtrip / untyped_roundtrip under the env_ok hypotheses, schema mapping;
    C09_refuted_* witnesses.
T3  (a) render_string / lex_string vs sqlglot's generator and DuckDB on every 1- and 2-character string over a
        25-symbol adversarial alphabet + long random strings (and identifiers, and raw malformed texts vs
        DuckDB's tokenizer);
    (b) cells: per-type generators through createDataFrame (4 row containers x 5 schema forms) and lit() in
        select(): collect() value AND Python type vs the Coq model (reference environment) and the Coq spec;
    (c) the statement text DuckDB received: certified by the Coq lexer, its string literals = the model's
        literals, same skeleton as the placeholder program, same token count as DuckDB's tokenizer;
    (d) df.schema vs declared (Coq Schema model) ; names vs declared;
    (e) where(col == lit(s)) selects exactly the equal rows;
    (f) container/schema-form cases judged by recorded PySpark 3.5.9 answers (oracle/c09_pyspark.jsonl).
"""
from __future__ import annotations

import datetime
import decimal
import json
import math
import os
import random
import struct

from vlib import core
from translate import c09_facts

HEADER = """From Coq Require Import NArith ZArith List Bool String.
From SF Require Import C09.Lex C09.Values C09.Pipeline C09.Schema C09.Check.
From Gen Require Import C09Facts.
Import ListNotations.
Local Open Scope string_scope.
"""
H_CELL = HEADER + ("Definition check := check_column gen_infer_chain gen_lit_chain gen_litfn_chain gen_tovalue_chain "
                   "gen_cells_float_via_lit gen_sample_first_non_none.\n")
H_STMT = HEADER + "Definition check := check_stmt gen_lit_chain gen_litfn_chain.\n"
H_RS = HEADER + "Definition check := check_render QS.\n"
H_RI = HEADER + "Definition check := check_render QI.\n"
H_RAW = HEADER + "Definition check := check_raw.\n"
H_SCH = HEADER + "Definition check := check_schema gen_primitive_mapping.\n"

ALPHABET = ["'", '"', "\\", "-", "/", "*", ";", "\n", "\t", "\x00", "%", "_", "`", "$", "{", "}", " ", "a", "\r",
            "\u00e9", "\u0301", "\U0001F600", "\u2028", "\x1b", ","]
HANDMADE = ["'; DROP TABLE t; --", "\\'", "''", "' OR '1'='1", "/* x */", "--", "$$", "E'\\n'", "\\\\'\\\\", "'''",
            "a'b\"c`d", "x' AS y, 'z", "') ; SELECT ('", "\u00e9\u0301\U0001F600'\U0001F600", "%_%", "{'a': 1}",
            "line1\nline2 -- c\n/* d", "\t'\t", "N'x'", "e'\\''"]
EPOCH = datetime.datetime(1970, 1, 1)


# ----------------------------------------------------------------------------------------------------
# encoding of Python values as Coq terms

def armour(s: str) -> str:
    out = []
    for ch in s:
        o = ord(ch)
        if 32 <= o < 127 and ch not in '"~':
            out.append(ch)
        else:
            out.append("~%06x" % o)
    return '"' + "".join(out) + '"'


def ustr(s: str) -> str:
    return f"(decode {armour(s)})"


def fval(x: float) -> str:
    if math.isnan(x):
        return "FNaN"
    if math.isinf(x):
        return f"(FInf {'true' if x < 0 else 'false'})"
    x = x + 0.0  # -0.0 == 0.0 in Python; the sign of zero is not part of "equal value"
    bits = struct.unpack("<q", struct.pack("<d", x))[0]
    return f"(FFin ({bits})%Z {'true' if 'e' in repr(x) else 'false'})"


def us_of(dt: datetime.datetime) -> int:
    d = dt - EPOCH
    return (d.days * 86400 + d.seconds) * 1000000 + d.microseconds


def float_leaves(v, out):
    if isinstance(v, float):
        out.append(v)
    elif isinstance(v, (list, tuple)):
        for x in v:
            float_leaves(x, out)
    return out


_R32_CACHE = {}
_R32_CONN = []


def duck_real(x: float) -> float:
    """what DuckDB's CAST of the DECIMAL numeral repr(x) to REAL yields, as a double (observed on a raw connection;
    it is NOT always the nearest float32)"""
    if x not in _R32_CACHE:
        if not _R32_CONN:
            import duckdb
            _R32_CONN.append(duckdb.connect())
        _R32_CACHE[x] = _R32_CONN[0].execute(f"SELECT CAST(CAST({x!r} AS REAL) AS DOUBLE)").fetchall()[0][0]
    return _R32_CACHE[x]


def r32_table(vals) -> str:
    """REAL rounding of the finite floats (written without exponent) of a column that also holds a NaN"""
    fl = float_leaves(list(vals), [])
    if not any(math.isnan(x) for x in fl):
        return "[]"
    ent = {}
    for x in fl:
        if math.isnan(x) or math.isinf(x) or "e" in repr(x + 0.0):
            continue
        x = x + 0.0
        y = duck_real(x)
        b = struct.unpack("<q", struct.pack("<d", x))[0]
        b2 = struct.unpack("<q", struct.pack("<d", y))[0]
        ent[b] = f"(({b})%Z, (({b2})%Z, {'true' if 'e' in repr(y) else 'false'}))"
    return "[" + "; ".join(ent.values()) + "]"


def py2coq(v) -> str:
    from sqlframe.base.types import Row
    if v is None:
        return "PNone"
    if isinstance(v, bool):
        return f"(PBool {'true' if v else 'false'})"
    if isinstance(v, int):
        return f"(PInt ({v})%Z)"
    if isinstance(v, float):
        return f"(PFloat {fval(v)})"
    if isinstance(v, decimal.Decimal):
        try:
            f = float(v)
            ok = decimal.Decimal(repr(f)) == v
        except Exception:  # noqa
            f, ok = float("nan"), False
        return f"(PDec {fval(f) if ok else 'FNaN'})"
    if isinstance(v, str):
        return f"(PStr {ustr(v)})"
    if isinstance(v, (bytes, bytearray)):
        return f"(PBytes {ustr(bytes(v).decode('latin-1'))})"
    if isinstance(v, datetime.datetime):
        if v.tzinfo is None:
            return f"(PTs ({us_of(v)})%Z None)"
        off = v.utcoffset()
        utc = v.astimezone(datetime.timezone.utc).replace(tzinfo=None)
        return f"(PTs ({us_of(utc)})%Z (Some ({int(off.total_seconds() // 60)})%Z))"
    if isinstance(v, datetime.date):
        return f"(PDate ({v.toordinal()})%Z)"
    if isinstance(v, Row) or hasattr(v, "__fields__"):
        return "(PRow [" + "; ".join(f"({ustr(k)}, {py2coq(x)})" for k, x in zip(v.__fields__, v)) + "])"
    if isinstance(v, list):
        return "(PList [" + "; ".join(py2coq(x) for x in v) + "])"
    if isinstance(v, tuple):
        return "(PTuple [" + "; ".join(py2coq(x) for x in v) + "])"
    if isinstance(v, dict):
        return "(PDict [" + "; ".join(f"({py2coq(k)}, {py2coq(x)})" for k, x in v.items()) + "])"
    raise ValueError(f"cannot encode {type(v)}")


def opt(x) -> str:
    return "None" if x is None else f"(Some {x})"


PRIMS = {"boolean": "TBool", "tinyint": "TByte", "smallint": "TShort", "int": "TInt", "bigint": "TBigint",
         "float": "TFloat", "double": "TDouble", "string": "TString", "binary": "TBinary", "date": "TDate",
         "timestamp": "TTimestamp"}


def ty2coq(t) -> str:
    if isinstance(t, str):
        return PRIMS[t]
    if t[0] == "array":
        return f"(TArray {ty2coq(t[1])})"
    if t[0] == "struct":
        return "(TStruct [" + "; ".join(f"({ustr(k)}, {ty2coq(x)})" for k, x in t[1]) + "])"
    raise ValueError(t)


def ty2spark(t) -> str:
    if isinstance(t, str):
        return t
    if t[0] == "array":
        return f"array<{ty2spark(t[1])}>"
    return "struct<" + ",".join(f"{k if k.isidentifier() else '`' + k + '`'}:{ty2spark(x)}" for k, x in t[1]) + ">"


def ty2T(t, T):
    if isinstance(t, str):
        return {"boolean": T.BooleanType, "tinyint": T.ByteType, "smallint": T.ShortType, "int": T.IntegerType,
                "bigint": T.LongType, "float": T.FloatType, "double": T.DoubleType, "string": T.StringType,
                "binary": T.BinaryType, "date": T.DateType, "timestamp": T.TimestampType}[t]()
    if t[0] == "array":
        return T.ArrayType(ty2T(t[1], T))
    return T.StructType([T.StructField(k, ty2T(x, T)) for k, x in t[1]])


def T2ty(dt):
    """sqlframe.base.types instance -> my type descriptor (None if outside)"""
    n = type(dt).__name__
    m = {"BooleanType": "boolean", "ByteType": "tinyint", "ShortType": "smallint", "IntegerType": "int",
         "LongType": "bigint", "FloatType": "float", "DoubleType": "double", "StringType": "string",
         "BinaryType": "binary", "DateType": "date", "TimestampType": "timestamp"}
    if n in m:
        return m[n]
    if n == "ArrayType":
        e = T2ty(dt.elementType)
        return None if e is None else ("array", e)
    if n == "StructType":
        fs = [(f.name, T2ty(f.dataType)) for f in dt]
        return None if any(x is None for _, x in fs) else ("struct", fs)
    return None


# ----------------------------------------------------------------------------------------------------
# generators

def gen_leaf(t, r: random.Random, strings, top=False):
    if t == "boolean":
        return r.random() < 0.5
    if t == "bigint":
        return r.choice([0, 1, -1, 2 ** 63 - 1, -2 ** 63, 2 ** 31, -2 ** 31 - 1, r.randint(-10 ** 18, 10 ** 18), r.randint(-100, 100)])
    if t == "double":
        return r.choice([0.0, -0.0, 1.5, 0.1, 1 / 3, 1e308, 5e-324, 1.7976931348623157e308, 1e16, 1e-5, 123456.789,
                         float("nan"), r.uniform(-1e6, 1e6), r.random() * 10 ** r.randint(-300, 300), -2.5e-7]
                        + [float("inf"), float("-inf")])
    if t == "string":
        return r.choice(strings)
    if t == "binary":
        return r.choice([b"", b"\x00", b"'", b"ab\x00\xff'", bytes(range(256)), bytes(r.randrange(256) for _ in range(r.randint(1, 12)))])
    if t == "date":
        return r.choice([datetime.date(1, 1, 1), datetime.date(9999, 12, 31), datetime.date(1970, 1, 1), datetime.date(2024, 2, 29),
                         datetime.date.fromordinal(r.randint(1, 3652059))])
    if t == "timestamp":
        return r.choice([datetime.datetime(1, 1, 1), datetime.datetime(9999, 12, 31, 23, 59, 59, 999999), EPOCH,
                         datetime.datetime(2020, 1, 2, 3, 4, 5, 678), datetime.datetime(1969, 12, 31, 23, 59, 59, 999999),
                         EPOCH + datetime.timedelta(microseconds=r.randint(-10 ** 16, 10 ** 17)),
                         datetime.datetime(2021, 6, 7, 8, 9, 10, 11, tzinfo=datetime.timezone(datetime.timedelta(hours=r.choice([-8, 0, 2, 5]), minutes=r.choice([0, 30]))))])
    raise ValueError(t)


def gen_value(t, r, strings, none_p=0.15, depth=0, top=True):
    from sqlframe.base.types import Row
    if depth > 0 and r.random() < none_p:
        return None
    if isinstance(t, str):
        return gen_leaf(t, r, strings, top=depth <= 1 and top)
    if t[0] == "array":
        return [gen_value(t[1], r, strings, 0.15, depth + 1, False) for _ in range(r.choice([0, 1, 2, 3]))]
    row = Row(*[gen_value(x, r, strings, 0.15, depth + 1, False) for _, x in t[1]])
    row.__fields__ = [k for k, _ in t[1]]
    return row


def first_ok(v, t) -> bool:
    """a first-row value from which the intended type is inferred (no None / empty list / None struct field on the path)"""
    if v is None:
        return False
    if isinstance(t, str):
        return True
    if t[0] == "array":
        return len(v) > 0 and first_ok(v[0], t[1])
    return all(first_ok(x, tx) for x, (_, tx) in zip(v, t[1]))


# declared names mix upper and lower case on purpose: df.schema / df.columns / Row fields must keep them as written
COLS_V = [("B", "boolean"), ("i", "bigint"), ("fLt", "double"), ("Str", "string"), ("y", "binary"), ("D", "date"),
          ("tS", "timestamp"), ("l", ("array", "bigint")), ("LS", ("array", "string")), ("lf", ("array", "double")),
          ("r", ("struct", [("x", "bigint"), ("y", "string")])),
          ("Lr", ("array", ("struct", [("p", "string"), ("q", "double")]))),
          ("rL", ("struct", [("a", ("array", "double")), ("c", ("struct", [("e", "date"), ("g", "boolean")]))])),
          ("ll", ("array", ("array", "string")))]
COLS_S = [("Id", "bigint"), ("userName", "string")]
# struct field names that are not identifiers (blank, leading digit, hyphen) and, separately, mixed case -- top level and
# inside arrays.  (Only with a declared dict / DDL schema: the inferred and StructType routes cannot write such names.)
Q_STRUCT = ("struct", [("my id", "bigint"), ("1st", "string"), ("a-b", "double"), ("ok", "boolean")])
M_STRUCT = ("struct", [("Mixed Case", "bigint"), ("myId", "string")])
COLS_Q = [("q", Q_STRUCT), ("Lq", ("array", Q_STRUCT)), ("m", M_STRUCT), ("lm", ("array", M_STRUCT))]


def spark_names_ok(ddl_cols):
    return all("," not in ty2spark(t) and " " not in ty2spark(t) for _, t in ddl_cols)


def make_rows(kind, cols, rows):
    from sqlframe.base.types import Row
    names = [c for c, _ in cols]
    if kind == "tuple":
        return [tuple(r) for r in rows]
    if kind == "list":
        return [list(r) for r in rows]
    if kind == "dict":
        # every other dict lists its keys in the opposite order: dict rows are read by key, not by position
        return [dict(zip(names, r)) if i % 2 == 0 else dict(reversed(list(zip(names, r)))) for i, r in enumerate(rows)]
    out = []
    for r in rows:
        x = Row(*r)
        x.__fields__ = list(names)
        out.append(x)
    return out


def make_schema(form, cols, T):
    if form == "inferred":
        return None
    if form == "names":
        return [c for c, _ in cols]
    if form == "ddl":
        return ", ".join(f"{c} {ty2spark(t)}" for c, t in cols)
    if form == "dict":
        return {c: ty2spark(t) for c, t in cols}
    return T.StructType([T.StructField(c, ty2T(t, T)) for c, t in cols])


KINDS = ["tuple", "list", "dict", "row"]
FORMS = ["inferred", "names", "ddl", "dict", "structtype"]


def expected_names(kind, form, cols):
    if form == "inferred" and kind in ("tuple", "list"):
        return [f"_{i + 1}" for i in range(len(cols))]
    return [c for c, _ in cols]


# ----------------------------------------------------------------------------------------------------
# Python-side reference for the row level (Coq carries the cell level)

def py_expected(v):
    """the value the property promises (mirror of Coq `expected`), used for shrinking / replays only"""
    from sqlframe.base.types import Row
    if isinstance(v, datetime.datetime) and v.tzinfo is not None:
        return v.astimezone(datetime.timezone.utc).replace(tzinfo=None)
    if hasattr(v, "__fields__"):
        r = Row(*[py_expected(x) for x in v])
        r.__fields__ = list(v.__fields__)
        return r
    if isinstance(v, list):
        return [py_expected(x) for x in v]
    return v


def same_value(a, b) -> bool:
    """equal value of the corresponding Python type"""
    if type(a) is not type(b) and not (hasattr(a, "__fields__") and hasattr(b, "__fields__")):
        return False
    if isinstance(a, float):
        return (math.isnan(a) and math.isnan(b)) or a == b
    if hasattr(a, "__fields__"):
        return list(a.__fields__) == list(b.__fields__) and len(a) == len(b) and all(same_value(x, y) for x, y in zip(a, b))
    if isinstance(a, list):
        return len(a) == len(b) and all(same_value(x, y) for x, y in zip(a, b))
    return a == b


def contains(v, pred) -> bool:
    if pred(v):
        return True
    if isinstance(v, (list, tuple)):
        return any(contains(x, pred) for x in v)
    if isinstance(v, dict):
        return any(contains(x, pred) for x in v.values())
    return False


def kind_of_value(v) -> str:
    if v is None:
        return "None"
    if hasattr(v, "__fields__"):
        return "struct"
    return type(v).__name__


def pysrc(v) -> str:
    """evaluable Python source of a value (Row field names need not be identifiers)"""
    if hasattr(v, "__fields__"):
        return "Row(**{" + ", ".join(f"{k!r}: {pysrc(x)}" for k, x in zip(v.__fields__, v)) + "})"
    if isinstance(v, list):
        return "[" + ", ".join(pysrc(x) for x in v) + "]"
    if isinstance(v, float) and (math.isnan(v) or math.isinf(v)):
        return "nan" if math.isnan(v) else ("inf" if v > 0 else "-inf")
    return repr(v)


def lower_fields(v):
    from sqlframe.base.types import Row
    if hasattr(v, "__fields__"):
        r = Row(*[lower_fields(x) for x in v])
        r.__fields__ = [k.lower() for k in v.__fields__]
        return r
    if isinstance(v, list):
        return [lower_fields(x) for x in v]
    return v


def cell_signature(v, first, form, sel, col_has_nan=False, got=None) -> str:
    """shape predicate of a cell-level deviation"""
    if got is not None and contains(v, lambda x: hasattr(x, "__fields__") and any(k != k.lower() for k in x.__fields__)) \
            and same_value(got[0], lower_fields(py_expected(v))):
        return "C09/struct-field-name-case-lowered"
    is_inf = lambda x: isinstance(x, float) and math.isinf(x)  # noqa
    if contains(v, lambda x: isinstance(x, str) and "\x00" in x):
        return "C09/string-contains-NUL"
    if col_has_nan and contains(v, lambda x: isinstance(x, float) and math.isfinite(x)):
        return "C09/nan-literal-is-float32-narrows-column"
    if sel:
        if is_inf(v):
            return "C09/lit-infinity-returns-str"
        if contains(v, is_inf):
            return "C09/infinity-outside-lit-is-bare-word"
        if not isinstance(v, float) and contains(v, lambda x: isinstance(x, float)):
            return "C09/uncast-nested-float-returns-Decimal"
        return f"C09/lit-value-differs:{kind_of_value(v)}"
    if not is_inf(v) and contains(v, is_inf):
        return "C09/infinity-outside-lit-is-bare-word"
    if form in ("inferred", "names"):
        if hasattr(first, "__fields__") and contains(first, lambda x: hasattr(x, "__fields__") and any(y is None for y in x)) \
                or (isinstance(first, list) and contains(first, lambda x: hasattr(x, "__fields__") and any(y is None for y in x))):
            return "C09/struct-field-None-in-first-row-dropped"
        if first is None or first == [] or (isinstance(first, list) and first and (first[0] is None or first[0] == [])):
            return "C09/first-value-None-column-untyped"
    if contains(v, lambda x: hasattr(x, "__fields__") and {"key", "value"} <= set(x.__fields__)) :
        return "C09/struct-with-key-and-value-fields"
    return f"C09/value-differs:{kind_of_value(v)}:{form}"


# ----------------------------------------------------------------------------------------------------

class Proxy:
    """DB-API connection wrapper that records the statement texts (no source hook)"""

    def __init__(self, c):
        self._c = c
        self.log = []

    def execute(self, sql, *a, **k):
        self.log.append(sql)
        return self._c.execute(sql, *a, **k)

    def __getattr__(self, n):
        return getattr(self._c, n)


def new_session():
    import duckdb
    from sqlframe.duckdb import DuckDBSession
    px = Proxy(duckdb.connect())
    px._c.execute("SET TimeZone='UTC'")
    s = DuckDBSession(conn=px)
    if getattr(s, "_conn", None) is not px:   # singleton created earlier in this process
        s._conn = px
        s.__dict__.pop("_cur", None)
    return s, px


def strings_for(ctx, rnd):
    one = list(ALPHABET)
    two = [a + b for a in ALPHABET for b in ALPHABET]
    n_long = 40 if ctx.tier == "quick" else 400
    longs = []
    pool = ALPHABET + ["b", "Z", "0", "\u4e2d", "\u00df", "\U0001F468\u200d\U0001F469", "\uffff", "\x01", "\x7f", "\x80"]
    for _ in range(n_long):
        n = rnd.choice([3, 5, 8, 13, 40, 200])
        longs.append("".join(rnd.choice(pool) if rnd.random() < 0.8 else chr(rnd.choice(
            [rnd.randint(1, 0xd7ff), rnd.randint(0xe000, 0xffff), rnd.randint(0x10000, 0x10ffff)])) for _ in range(n)))
    three = []
    if ctx.tier != "quick":
        small = ["'", '"', "\\", "-", "\n", "\x00", "a", "\U0001F600"]
        three = [a + b + c for a in small for b in small for c in small]
    return one, two, HANDMADE + longs + three


# ----------------------------------------------------------------------------------------------------

def run(ctx: core.Ctx):
    rnd = random.Random(ctx.seed)
    # ---- T1
    t1_ok = True
    try:
        text, facts = c09_facts.generate(core.REPO)
        ctx.gen("C09Facts", text, facts)
    except Exception as ex:  # fail-closed translator = broken proof obligation
        ctx.broken("T1:c09_facts", f"{type(ex).__name__}: {ex}")
        t1_ok = False
    # ---- proofs
    proved = False
    if t1_ok:
        proved = ctx.prove([ctx.build + "/gen/C09Facts.v", core.COQ + "/props/C09.v"],
                           dep_theories=["C09/Lex.v", "C09/Values.v", "C09/Pipeline.v", "C09/Schema.v", "C09/Main.v",
                                         "C09/Check.v"])
    if not t1_ok or not os.path.exists(ctx.build + "/gen/C09Facts.vo"):
        # the case files need Gen.C09Facts: fall back to the facts of the pinned source so that the search can run
        ctx.gen("C09Facts", open(core.VERIF + "/translate/c09_facts_pinned.v").read())
        ctx.coqc(ctx.build + "/gen/C09Facts.v")
    ctx.log(f"T1 {'ok' if t1_ok else 'FAILED'}, proofs {'ok' if proved else 'NOT ok'}")

    import duckdb
    import sqlglot
    from sqlglot import exp
    import sqlframe.duckdb.functions as F
    from sqlframe.base import types as T
    from sqlframe.base.types import Row
    session, px = new_session()
    raw = duckdb.connect()
    one, two, extra = strings_for(ctx, rnd)
    all_strings = one + two + extra
    hist = {"strings_1char": len(one), "strings_2char": len(two), "strings_long_or_handmade": len(extra)}
    n_eval = 0
    nontrivial = set()

    # ================================================================ (f) corpus first: PySpark recordings, which
    # contain the witnesses of every known and every repaired finding
    n_orc = oracle_cases(ctx, session, F, T, Row)
    ctx.log(f"(f) {n_orc} recorded PySpark cases (corpus)")

    # ================================================================ (a) the environment definitions
    items, meta = [], []
    for s in all_strings:
        r = exp.Literal.string(s).sql("duckdb")
        try:
            got = raw.execute("SELECT " + r).fetchall()
            ok = got == [(s,)]
        except Exception:  # noqa
            ok = False
        items.append(f"({armour(s)}, {armour(r)}, {'true' if ok else 'false'})")
        meta.append((s, r, ok))
    res = ctx.cases("c09_rs", H_RS, items, per_file=150, result_ty="str")
    n_eval += len(items)
    bad = [(m, x) for m, x in zip(meta, res) if x != "111"]
    for (s, r, ok), x in bad[:50]:
        if x is None:
            continue
        if x[0] == "1" and x[1] == "1" and x[2] == "0" and "\x00" in s:
            continue
        ctx.broken("T3:render_string-vs-sqlglot/duckdb", f"string {s!r}: sqlglot wrote {r!r}, DuckDB round trip ok={ok}, "
                   f"flags(render=generator, model verdict=DuckDB verdict, nul_free<->ok)={x}", data={"string": s})
        break
    nul_strings = [s for s in all_strings if "\x00" in s]
    # identifiers
    id_strings = one + two[::7] + [x for x in extra[:30] if x]
    items, meta = [], []
    for s in id_strings:
        r = exp.to_identifier(s, quoted=True).sql("duckdb")
        try:
            cur = raw.execute("SELECT 1 AS " + r)
            ok = cur.description[0][0] == s
        except Exception:  # noqa
            ok = False
        items.append(f"({armour(s)}, {armour(r)}, {'true' if ok else 'false'})")
        meta.append((s, r, ok))
    res = ctx.cases("c09_ri", H_RI, items, per_file=150, result_ty="str")
    n_eval += len(items)
    for (s, r, ok), x in zip(meta, res):
        if x is not None and x != "111" and not ("\x00" in s and x[:2] == "11"):
            ctx.broken("T3:render_ident-vs-sqlglot/duckdb", f"identifier {s!r}: sqlglot wrote {r!r}, DuckDB ok={ok}, flags={x}")
            break
    # raw, possibly malformed texts: model's token counts vs DuckDB's tokenizer
    small = ["'", '"', "a", "-", " ", "\\", ","]
    raws = ["SELECT " + "".join(p) for n in (1, 2, 3, 4) for p in __import__("itertools").product(small, repeat=n)]
    if ctx.tier == "quick":
        raws = [x for i, x in enumerate(raws) if len(x) <= 10 or i % 3 == 0]
    res = ctx.cases("c09_raw", H_RAW, [armour(t) for t in raws], per_file=400, result_ty="str")
    n_eval += len(raws)
    n_raw_some = 0
    for t, x in zip(raws, res):
        if x is None or x == "X":
            continue
        n_raw_some += 1
        toks = duckdb.tokenize(t)
        n_s = sum(1 for _, k in toks if str(k).endswith("string_const"))
        n_i = sum(1 for p, k in toks if str(k).endswith("identifier") and t[p] == '"')
        if x != f"{n_s},{n_i}":
            ctx.broken("T3:lexer-vs-duckdb-tokenizer", f"text {t!r}: model string/quoted-ident tokens {x}, DuckDB {n_s},{n_i}")
            break
    hist["raw_texts"] = len(raws)
    hist["raw_texts_model_accepts"] = n_raw_some
    ctx.log(f"(a) environment definitions: {len(all_strings)} strings, {len(id_strings)} identifiers, {len(raws)} raw texts")

    # ================================================================ (b)+(c) cells and statements
    cell_items, cell_meta, cell_seen = [], [], {}
    stmt_items, stmt_meta = [], []
    schema_items, schema_meta = [], []
    hist_kind, hist_form, hist_type, n_raised = {}, {}, {}, 0

    def add_col(decl, vals, gots, sel, info):
        """one column of one DataFrame: values put in, values collect() returned (None per row = statement raised)"""
        term = (f"(mkCol {opt(ty2coq(decl)) if decl is not None else 'None'} [{'; '.join(py2coq(v) for v in vals)}] "
                f"[{'; '.join(opt(py2coq(g[0])) if g is not None else 'None' for g in gots)}] "
                f"{'true' if sel else 'false'} {r32_table(vals)})")
        if term in cell_seen:
            return
        cell_seen[term] = len(cell_items)
        cell_items.append(term)
        cell_meta.append(dict(info, decl=decl, vals=list(vals), gots=list(gots), sel=sel))
        for v in vals:
            k = kind_of_value(v)
            hist_type[k] = hist_type.get(k, 0) + 1

    def run_df(kind, form, cols, rows, want_schema=False, base_rows=None, tag=""):
        """create + collect (+ schema); returns (rows or None, exception name, sql text, schema or None)"""
        nonlocal n_raised
        data = make_rows(kind, cols, rows)
        schema = make_schema(form, cols, T)
        px.log.clear()
        try:
            df = session.createDataFrame(data, schema)
            got = df.collect()
            sql = px.log[0] if px.log else None
            want_names = expected_names(kind, form, cols)
            if list(df.columns) != want_names:
                ctx.deviation(f"C09/names-differ:{kind}:{form}", f"df.columns {list(df.columns)} != declared {want_names}",
                              {"kind": kind, "form": form, "declared_names": want_names, "df.columns": list(df.columns),
                               "data": repr(data[:2])[:600], "schema": repr(schema)[:600] if not hasattr(schema, "fields") else schema.simpleString()})
            sch = None
            if want_schema:
                sch = df.schema
            return got, None, sql, sch, df
        except Exception as ex:  # noqa
            n_raised += 1
            return None, type(ex).__name__ + ": " + str(ex)[:160], (px.log[0] if px.log else None), None, None

    def record_cells(kind, form, cols, rows, got, info, only=None):
        names = expected_names(kind, form, cols)
        for ci, (c, t) in enumerate(cols):
            if only is not None and c not in only:
                continue
            decl = t if form in ("ddl", "dict", "structtype") else None
            vals = [row[ci] for row in rows]
            gots = [((got[ri][ci],) if got is not None else None) for ri in range(len(rows))]
            add_col(decl, vals, gots, False, dict(info, kind=kind, form=form, col=c, type=t))
        if got is not None:
            for r in got[:1]:
                if list(r.__fields__) != names:
                    ctx.deviation(f"C09/names-differ:{kind}:{form}", f"collect() field names {list(r.__fields__)} != declared {names}",
                                  {"kind": kind, "form": form, "declared_names": names, "row_fields": list(r.__fields__),
                                   "data": repr(make_rows(kind, cols, rows[:1]))[:600],
                                   "schema": repr(make_schema(form, cols, T))[:600] if form != "structtype" else make_schema(form, cols, T).simpleString()})

    # ---- profile S: every adversarial string through every container kind x schema form
    per = 25
    clean = [s for s in all_strings if "\x00" not in s]
    batches = [clean[i:i + per] for i in range(0, len(clean), per)]
    cols_s = COLS_S
    n_df = 0
    for kind in KINDS:
        for form in FORMS:
            hist_kind[kind] = hist_kind.get(kind, 0)
            hist_form[form] = hist_form.get(form, 0)
            bl = batches if (ctx.tier != "quick" or (kind, form) in (("tuple", "inferred"), ("dict", "ddl"), ("row", "structtype"), ("list", "names"), ("tuple", "dict"))) \
                else batches[(KINDS.index(kind) * 5 + FORMS.index(form)) % 3::3]
            for bi, b in enumerate(bl):
                rows = [(j, s) for j, s in enumerate(b)]
                got, exc, sql, sch, _ = run_df(kind, form, cols_s, rows, want_schema=(bi == 0))
                n_df += 1
                if sch is not None and [f.name for f in sch] != expected_names(kind, form, cols_s):
                    ctx.deviation(f"C09/schema-names-differ:{kind}:{form}",
                                  f"df.schema names {[f.name for f in sch]} != declared {expected_names(kind, form, cols_s)}",
                                  {"kind": kind, "form": form, "declared_names": expected_names(kind, form, cols_s),
                                   "schema_names": [f.name for f in sch], "data": repr(make_rows(kind, cols_s, rows[:1])),
                                   "schema": repr(make_schema(form, cols_s, T))[:300] if form != "structtype" else make_schema(form, cols_s, T).simpleString()})
                hist_kind[kind] += 1
                hist_form[form] += 1
                if got is None:
                    # isolate: one string per DataFrame
                    for j, s in enumerate(b):
                        g1, e1, _, _, _ = run_df(kind, form, cols_s, [(j, s)])
                        record_cells(kind, form, cols_s, [(j, s)], g1, {"profile": "S", "exc": e1}, only=None if g1 is not None else ["userName"])
                    continue
                record_cells(kind, form, cols_s, rows, got, {"profile": "S", "exc": None})
                # (c) statement text, for a share of the batches
                if sql is not None and (bi % 2 == 0 or ctx.tier != "quick"):
                    base_rows = [(j, "x") for j, _ in enumerate(b)]
                    _, _, bsql, _, _ = run_df(kind, form, cols_s, base_rows)
                    cells = [x for r_ in rows for x in r_]
                    stmt_items.append(f"(mkStmt [{'; '.join(py2coq(x) for x in cells)}] {armour(sql)} {armour(bsql or '')})")
                    stmt_meta.append({"kind": kind, "form": form, "sql": sql, "base": bsql, "strings": b})
    # NUL strings: each alone, one container/form per string (rotating), all of them in tuple/inferred
    for si, s in enumerate(nul_strings):
        combos = [("tuple", "inferred"), (KINDS[si % 4], FORMS[(si // 4) % 5])]
        for kind, form in dict.fromkeys(combos):
            g1, e1, _, _, _ = run_df(kind, form, cols_s, [(0, s)])
            record_cells(kind, form, cols_s, [(0, s)], g1, {"profile": "S-nul", "exc": e1}, only=None if g1 is not None else ["userName"])
    ctx.log(f"(b) profile S: {n_df} DataFrames, {len(cell_items)} distinct columns so far, {len(stmt_items)} statements to lex")

    # ---- profile V: typed values incl. nested, per-type generators
    n_rows = 14 if ctx.tier == "quick" else 60
    n_sets = 2 if ctx.tier == "quick" else 8
    vstrings = HANDMADE + one + two[::11]
    vstrings = [s for s in vstrings if "\x00" not in s]
    for si in range(n_sets):
        rows = []
        while len(rows) < n_rows:
            row = tuple(gen_value(t, rnd, vstrings, depth=(0 if not rows else 1)) for _, t in COLS_V)
            if not rows and not all(first_ok(v, t) for v, (_, t) in zip(row, COLS_V)):
                continue    # the value the type is sampled from determines the whole type
            rows.append(row)
        if si % 2 == 1:
            rows.insert(0, tuple(None for _ in COLS_V))    # the type is sampled from the first value that is not None
        for kind in KINDS:
            for form in FORMS:
                cols = COLS_V if form != "ddl" else [c for c in COLS_V if spark_names_ok([c])]
                idx = [i for i, c in enumerate(COLS_V) if c in cols]
                rr = [tuple(r[i] for i in idx) for r in rows]
                want_schema = si == 0
                got, exc, sql, sch, df = run_df(kind, form, cols, rr, want_schema=want_schema)
                hist_kind[kind] += 1
                hist_form[form] += 1
                if got is None:
                    ctx.deviation(f"C09/raises:{exc.split(':')[0]}:{kind}:{form}", f"createDataFrame/collect raised {exc}",
                                  {"kind": kind, "form": form, "columns": [c for c, _ in cols], "rows": repr(rr)[:3000], "sql": sql})
                    continue
                record_cells(kind, form, cols, rr, got, {"profile": "V", "exc": None})
                if sch is not None:
                    want_names = expected_names(kind, form, cols)
                    if [f.name for f in sch] != want_names:
                        ctx.deviation(f"C09/schema-names-differ:{kind}:{form}", f"df.schema names {[f.name for f in sch]} != {want_names}",
                                      {"kind": kind, "form": form})
                    for f_, (c, t) in zip(sch, cols):
                        rep = T2ty(f_.dataType)
                        item = f"({ty2coq(t)}, {ty2coq(rep)})" if rep is not None else None
                        if item is None:
                            ctx.deviation(f"C09/schema-type-differs:{ty2spark(t)}", f"df.schema reports {f_.dataType} for declared/inferred {ty2spark(t)}",
                                          {"kind": kind, "form": form, "column": c})
                        elif item not in schema_items:
                            schema_items.append(item)
                            schema_meta.append({"declared": ty2spark(t), "reported": f_.dataType.simpleString(), "kind": kind, "form": form})
    for kind in KINDS:
        for form in ("dict", "ddl"):
            rows = []
            while len(rows) < 6:
                row = tuple(gen_value(t, rnd, vstrings, depth=(0 if not rows else 1)) for _, t in COLS_Q)
                if not rows and not all(first_ok(v, t) for v, (_, t) in zip(row, COLS_Q)):
                    continue
                rows.append(row)
            got, exc, sql, sch, df = run_df(kind, form, COLS_Q, rows)
            hist_kind[kind] += 1
            hist_form[form] += 1
            if got is None:
                ctx.deviation(f"C09/raises:{exc.split(':')[0]}:{kind}:{form}:quoted-field-names", f"createDataFrame/collect raised {exc}",
                              {"kind": kind, "form": form, "columns": [c for c, _ in COLS_Q], "rows": repr(rows)[:3000], "sql": sql})
                continue
            record_cells(kind, form, COLS_Q, rows, got, {"profile": "Q", "exc": None})
    ctx.log(f"(b) profile V+Q: {len(cell_items)} distinct columns")

    # ---- lit() in select(): every string, and the typed leaves / nested values, without a CAST
    base_df = session.createDataFrame([(1,)], ["k"])
    lit_values = []
    for b in [all_strings[i:i + per] for i in range(0, len(all_strings), per)]:
        lit_values.append(b)
    r2 = random.Random(ctx.seed + 1)
    typed = []
    for _ in range(3 if ctx.tier == "quick" else 12):
        for _, t in COLS_V:
            typed.append(gen_value(t, r2, vstrings, depth=0))
    for _ in range(2):
        typed += [gen_value(Q_STRUCT, r2, vstrings, depth=0), gen_value(("array", Q_STRUCT), r2, vstrings, depth=0),
                  gen_value(M_STRUCT, r2, vstrings, depth=0)]
    typed += [float("inf"), float("-inf"), [0.1], None, True, 2 ** 63 - 1,
              datetime.datetime(2020, 1, 2, 3, 4, 5, 678, tzinfo=datetime.timezone(datetime.timedelta(hours=2)))]
    lit_values += [typed[i:i + 10] for i in range(0, len(typed), 10)]
    n_lit = 0
    for b in lit_values:
        def sel(vals):
            px.log.clear()
            try:
                got = base_df.select(*[F.lit(v).alias(f"c{j}") for j, v in enumerate(vals)]).collect()
                return got[0], None, px.log[0]
            except Exception as ex:  # noqa
                return None, type(ex).__name__ + ": " + str(ex)[:160], (px.log[0] if px.log else None)
        g, e, sql = sel(b)
        n_lit += 1
        if g is None:
            for v in b:
                g1, e1, _ = sel([v])
                add_col(None, [v], [(g1[0],) if g1 is not None else None], True, {"profile": "lit", "exc": e1, "kind": "select", "form": "lit", "col": "c", "type": kind_of_value(v)})
            continue
        for j, v in enumerate(b):
            add_col(None, [v], [(g[j],)], True, {"profile": "lit", "exc": None, "kind": "select", "form": "lit", "col": f"c{j}", "type": kind_of_value(v)})
        if all(isinstance(v, str) for v in b) and sql is not None:
            gb, _, bsql = sel([placeholder(v) for v in b])
            stmt_items.append(f"(mkStmt [{'; '.join(py2coq(x) for x in b)}] {armour(sql)} {armour(bsql or '')})")
            stmt_meta.append({"kind": "select", "form": "lit", "sql": sql, "base": bsql, "strings": b})
    ctx.log(f"(b) lit(): {n_lit} select statements; {len(cell_items)} distinct columns in total")

    # ---- result frames whose column names are NOT unique (same alias twice, a literal under the name of a selected
    # column, a column selected twice, both key columns of a join): every value must come back, at its position
    n_dup = 0
    dup_df = session.createDataFrame([(7, "q'")], ["a", "b"])
    ok_vals = [v for v in typed if not contains(v, lambda x: isinstance(x, float) and math.isinf(x))
               and not contains(v, lambda x: hasattr(x, "__fields__") and any(k != k.lower() for k in x.__fields__))] \
        + [s_ for s_ in clean[::9]]

    def dup_check(shape, build, names, want):
        nonlocal n_dup
        n_dup += 1
        try:
            rows_ = build().collect()
            got = rows_[0]
            ok = len(got) == len(want) and list(got.__fields__) == list(names) \
                and all(same_value(a, py_expected(b_)) for a, b_ in zip(got, want))
            shown = repr(tuple(got))[:600] + " fields=" + repr(list(got.__fields__))
        except Exception as ex:  # noqa
            ok, shown = False, f"raised {type(ex).__name__}: {str(ex)[:160]}"
        if not ok:
            ctx.deviation(f"C09/duplicate-output-names:{shape}",
                          "a result whose column names are not unique does not return every value at its position",
                          {"dup_select": shape, "names": list(names), "values": repr(list(want))[:1500], "collect_returned": shown,
                           "expected": repr(tuple(py_expected(x) for x in want))[:800]})

    for i in range(0, len(ok_vals) - 2, 3 if ctx.tier != "quick" else 6):
        v3 = ok_vals[i:i + 3]
        dup_check("same-alias-v-w-v", lambda v3=v3: dup_df.select(*[F.lit(v).alias(n) for v, n in zip(v3, "vwv")]), "vwv", v3)
        dup_check("same-alias-x-x", lambda v3=v3: dup_df.select(F.lit(v3[0]).alias("x"), F.lit(v3[1]).alias("x")), "xx", v3[:2])
        dup_check("literal-named-like-selected-column",
                  lambda v3=v3: dup_df.select("a", F.lit(v3[2]).alias("a"), "b"), ["a", "a", "b"], [7, v3[2], "q'"])
    dup_check("column-selected-twice", lambda: dup_df.select("a", "a", "b", "a"), ["a", "a", "b", "a"], [7, 7, "q'", 7])
    left = session.createDataFrame([(1, "l'")], ["id", "x"])
    right = session.createDataFrame([(1, 2.5)], ["id", "y"])
    dup_check("join-keeps-both-keys", lambda: left.join(right, left["id"] == right["id"]), ["id", "x", "id", "y"], [1, "l'", 1, 2.5])
    n_eval += n_dup
    hist["duplicate_name_results"] = n_dup
    ctx.log(f"(b) {n_dup} result frames with duplicate column names")

    # ---- evaluate the columns in Coq
    res = eval_cases(ctx, "c09_cell", H_CELL, cell_items)
    n_eval += len(cell_items)
    n_dom = n_cells = 0
    model_fail, dom_fail = [], []
    for it, m, xs in zip(cell_items, cell_meta, res):
        if xs is None or len(xs) != 4 * len(m["vals"]):
            if xs is not None:
                ctx.broken("cases-shape", f"column with {len(m['vals'])} cells got {len(xs)} flags")
            continue
        col_has_nan = contains(m["vals"], lambda y: isinstance(y, float) and math.isnan(y))
        for ri, v in enumerate(m["vals"]):
            x = xs[4 * ri:4 * ri + 4]
            im, isp, ms, dom = (ch == "1" for ch in x)
            n_cells += 1
            n_dom += dom
            got = m["gots"][ri]
            if v is not None and not (isinstance(v, str) and v == "x"):
                nontrivial.add(py2coq(v) + "|" + m["kind"] + "|" + m["form"])
            first = next((y for y in m["vals"] if y is not None), None)   # the value the column type is sampled from
            if im and isp and ms and len(ctx.samples) >= 4:
                continue
            desc = {"kind": m["kind"], "form": m["form"], "column": m["col"], "type": m["type"] if isinstance(m["type"], str) else ty2spark(m["type"]),
                    "first_row_value": repr(first)[:300], "value": repr(v)[:600], "row": ri,
                    "first_src": pysrc(first)[:2000], "value_src": pysrc(v)[:4000],
                    "decl_type": (ty2spark(m["decl"]) if m["decl"] is not None else None), "rows_before": repr(m["vals"][:ri])[:300] if m["vals"][:1] == [None] else None,
                    "column_values": repr(m["vals"])[:1500] if col_has_nan else None,
                    "collect_returned": (repr(got[0])[:600] + " : " + type(got[0]).__name__) if got is not None else f"raised {m.get('exc')}",
                    "expected": repr(py_expected(v))[:600], "select_lit": m["sel"],
                    "verdict(impl=model,impl=spec,model=spec,in_domain)": x}
            if not isp:
                ctx.deviation(cell_signature(v, first, m["form"], m["sel"], col_has_nan, got),
                              "collect() does not return an equal value of the corresponding Python type", desc)
            if not im:
                model_fail.append(dict(desc, coq_case=it[:3000]))
            if dom and not ms:
                dom_fail.append(dict(desc, coq_case=it[:3000]))
            if len(ctx.samples) < 4 and isinstance(v, (list, tuple)) and v and x == "1111":
                ctx.sample({k: desc[k] for k in ("kind", "form", "column", "type", "value", "collect_returned")})
    if model_fail:
        ctx.broken("T3:impl-vs-model", f"{len(model_fail)} cells where collect() differs from the Coq model of the pipeline; first: "
                   f"{model_fail[0]['value']} -> {model_fail[0]['collect_returned']} ({model_fail[0]['kind']}/{model_fail[0]['form']})",
                   data=model_fail[:5])
    if dom_fail and proved:
        ctx.broken("theorem-vs-evaluation", "in-domain cell where model and spec evaluate differently: " + dom_fail[0]["coq_case"][:400])

    # ================================================================ (e) where(col == lit(s))
    n_where = 0
    wstrings = clean if ctx.tier != "quick" else one_clean(one) + [s for i, s in enumerate(clean) if i % 4 == 0]
    for bi_w, b in enumerate([wstrings[i:i + per] for i in range(0, len(wstrings), per)]):
        try:
            df = session.createDataFrame([(j, s) for j, s in enumerate(b)], ["i", "s"])
        except Exception as ex:  # noqa
            ctx.broken("T3:where-setup", str(ex)[:200])
            break
        for j, s in enumerate(b):
            want = sorted(k for k, s2 in enumerate(b) if s2 == s)
            for mode in ("lit", "bare"):
                px.log.clear()
                try:
                    got = sorted(r[0] for r in df.where(F.col("s") == (F.lit(s) if mode == "lit" else s)).collect())
                except Exception as ex:  # noqa
                    got = f"raised {type(ex).__name__}"
                n_where += 1
                if px.log and (bi_w < 2 or ctx.tier != "quick") and (j % 2 == 0 or mode == "lit"):
                    wsql = px.log[-1]
                    px.log.clear()
                    try:
                        df.where(F.col("s") == (F.lit("x") if mode == "lit" else "x")).collect()
                        bsql = px.log[-1]
                    except Exception:  # noqa
                        bsql = ""
                    cells = [x for j2, s2 in enumerate(b) for x in (j2, s2)] + [s]
                    stmt_items.append(f"(mkStmt [{'; '.join(py2coq(x) for x in cells)}] {armour(wsql)} {armour(bsql)})")
                    stmt_meta.append({"kind": "where", "form": mode, "sql": wsql, "base": bsql, "strings": [s]})
                if got != want:
                    ctx.deviation(f"C09/where-literal-selects-wrong-rows:{mode}", "where(col == literal) does not select exactly the equal rows",
                                  {"literal": s, "mode": mode, "rows": b, "selected_ids": got, "expected_ids": want})
    n_eval += n_where
    # non-string literals as comparison operands
    df = session.createDataFrame([(1, 1.5, datetime.date(2020, 1, 2), True, float("inf"))], ["i", "f", "d", "b", "g"])
    for c, v in (("i", 1), ("f", 1.5), ("d", datetime.date(2020, 1, 2)), ("b", True), ("g", float("inf"))):
        for mode in ("lit", "bare"):
            try:
                got = len(df.where(F.col(c) == (F.lit(v) if mode == "lit" else v)).collect())
            except Exception as ex:  # noqa
                got = f"raised {type(ex).__name__}"
            n_eval += 1
            if got != 1:
                sig = "C09/infinity-outside-lit-is-bare-word" if isinstance(v, float) and math.isinf(v) and mode == "bare" \
                    else f"C09/where-literal-selects-wrong-rows:{mode}:{type(v).__name__}"
                ctx.deviation(sig, "where(col == literal) does not select the equal row", {"column": c, "literal": repr(v), "mode": mode, "got": got})
    ctx.log(f"(e) {n_where} where() queries")

    # ---- (c) statements
    res = eval_cases(ctx, "c09_stmt", H_STMT, stmt_items)
    n_eval += len(stmt_items)
    n_cert = 0
    for m, x in zip(stmt_meta, res):
        if x is None:
            continue
        flags, _, cnt = x.partition(":")
        toks = duckdb.tokenize(m["sql"])
        n_s = sum(1 for _, k in toks if str(k).endswith("string_const"))
        if flags == "111" and int(cnt) == n_s:
            n_cert += 1
            continue
        what = {"statement": m["sql"][:1500], "placeholder_statement": (m["base"] or "")[:600],
                "flags(certified,literals=model literals,skeleton=placeholder skeleton)": flags,
                "string_tokens(model,duckdb)": [cnt, n_s], "kind": m["kind"], "form": m["form"]}
        if flags[:1] == "1" and flags[2:3] == "0":
            ctx.deviation(f"C09/statement-structure-changed:{m['kind']}:{m['form']}",
                          "string content changed the token structure of the generated statement", what)
        else:
            ctx.broken("T3:statement-vs-model", f"generated statement not as the model writes it (flags {flags}, tokens {cnt}/{n_s}): "
                       f"{m['sql'][:300]}", data=what)
            break
    ctx.log(f"(c) {n_cert}/{len(stmt_items)} statement texts certified by the Coq lexer and DuckDB's tokenizer")

    # ---- (d) schema
    res = ctx.cases("c09_schema", H_SCH, schema_items, per_file=400, result_ty="bool")
    n_eval += len(schema_items)
    for m, x in zip(schema_meta, res):
        if x is False:
            ctx.deviation(f"C09/schema-type-differs:{m['declared']}", f"df.schema reports {m['reported']} for {m['declared']}", m)

    n_eval += n_orc

    sig_hist = {}
    for d in ctx.deviations:
        sig_hist[d["signature"]] = sig_hist.get(d["signature"], 0) + 1
    ctx.coverage.update({
        "deviation_signature_histogram": sig_hist,
        "evaluations": n_eval, "distinct_nontrivial": len(nontrivial),
        "rule": "evaluations = Coq-evaluated cases (render/lex checks per string, raw texts, distinct columns, statements, schema "
                "fields) + where() queries + oracle cases; a cell = (declared type | first-row value, value, collect() result, "
                "select-lit flag), de-duplicated on its Coq term; non-trivial = value is not None and not the placeholder 'x'; "
                "strings: EVERY 1- and 2-character string over the 25-symbol alphabet " + repr("".join(ALPHABET)) +
                " + handmade injections + random long strings (any scalar value except surrogates)",
        "cells_in_theorem_domain": n_dom, "cells": n_cells, "columns": len(cell_items), "statements_lexed": len(stmt_items),
        "statements_certified": n_cert, "where_queries": n_where, "oracle_cases": n_orc, "impl_raised": n_raised,
        "histogram_container_kind_dataframes": hist_kind, "histogram_schema_form_dataframes": hist_form,
        "histogram_cell_value_kind": hist_type, "string_sets": hist,
    })
    ctx.assumptions += [
        "env_ok (Pipeline.v): 30 named sentences about DuckDB 1.2.2's evaluation of leaf literals, its CAST on leaf values and "
        "the Python client's conversions (float text<->binary, date/time text, TIMESTAMPTZ under a UTC session) -- premises of "
        "value_roundtrip/untyped_roundtrip, satisfiable (ref_env_ok), exercised by T3 on every leaf kind",
        "Lex.render_quoted / Lex.scan / Lex.lex are my definitions of sqlglot 26.14's DuckDB string/identifier escaping and of "
        "DuckDB's lexer (validated exhaustively over the alphabet, against execution and against duckdb.tokenize)",
        "Pipeline.eval/cast/client on lists and structs (element-wise; struct CAST by name; STRUCT -> dict) and "
        "Schema.env_report (type names after the catalog round trip) are my definitions, validated by T3",
        "convert_leaf = sqlglot's exp.convert on leaves (validated by T3)",
        "session time zone UTC (set on the check's own connection); surrogate code points are not generated",
        "the sign of a float zero is not compared (-0.0 == 0.0 in Python; DuckDB returns 0.0)",
    ]
    ctx.trusted += ["translate/c09_facts.py (fail-closed ast translator; branch bodies recognised up to alpha-renaming)",
                    "checks/c09.py encoders py2coq/armour (Python value -> Coq term) and the DB-API proxy that records statement texts"]


def shard_size(items, budget=250_000):
    """cases per Coq file: about 14 shards, but never more than ~250 kB of terms in one file (coqc's stack)"""
    if not items:
        return 1
    avg = sum(len(x) for x in items) / len(items)
    return max(2, min(len(items) // 14 + 1, int(budget / max(1.0, avg))))


def eval_cases(ctx, tag, header, items, big=4000):
    """ctx.cases with the large terms in shards of their own (a file of many large terms overflows coqc's stack)"""
    idx_big = [i for i, x in enumerate(items) if len(x) > big]
    idx_small = [i for i, x in enumerate(items) if len(x) <= big]
    out = [None] * len(items)
    for sub, idx in (("", idx_small), ("L", idx_big)):
        if not idx:
            continue
        sub_items = [items[i] for i in idx]
        res = ctx.cases(tag + sub, header, sub_items, per_file=shard_size(sub_items), result_ty="str")
        for i, r in zip(idx, res):
            out[i] = r
    return out


def placeholder(s: str) -> str:
    """the string with the same statement structure and harmless content: every NUL-free piece becomes x (a str that
    contains U+0000 is written as CONCAT of its pieces and CHR(0), so the positions of the NULs are structure)"""
    return "\x00".join("x" if part else "" for part in s.split("\x00"))


def one_clean(one):
    return [s for s in one if "\x00" not in s]


# ----------------------------------------------------------------------------------------------------
# (f) container / schema-form cases judged by PySpark recordings

ORACLE_SIG = {
    "dict-key-order": "C09/dict-rows-taken-positionally", "dict-key-order-ddl": "C09/dict-rows-taken-positionally",
    "row-names-rename": "C09/named-rows-with-names-schema-KeyError", "dict-names-rename": "C09/named-rows-with-names-schema-KeyError",
    "first-none-int": "C09/first-value-None-column-untyped", "first-none-float": "C09/first-value-None-column-untyped",
    "first-none-inf": "C09/first-value-None-column-untyped", "first-none-floatlist": "C09/first-value-None-column-untyped",
    "struct-none-field": "C09/struct-field-None-in-first-row-dropped",
    "nested-inf": "C09/infinity-outside-lit-is-bare-word", "struct-inf": "C09/infinity-outside-lit-is-bare-word",
    "struct-key-value": "C09/struct-with-key-and-value-fields",
    "lit-inf": "C09/lit-infinity-returns-str", "lit-floatlist": "C09/uncast-nested-float-returns-Decimal",
    "nul-string": "C09/string-contains-NUL", "nested-row-case": "C09/struct-field-name-case-lowered",
    "nan-narrows-column": "C09/nan-literal-is-float32-narrows-column", "nan-narrows-list": "C09/nan-literal-is-float32-narrows-column",
    "nan-narrows-declared": "C09/nan-literal-is-float32-narrows-column", "operand-inf": "C09/infinity-outside-lit-is-bare-word",
    "name-dashdash-list": "C09/column-name-comment-marker", "name-dashdash-dict-rows": "C09/column-name-comment-marker",
    "ddl-colon": "C09/ddl-colon-kept-in-name", "ddl-struct": "C09/ddl-type-with-comma", "ddl-spaces": "C09/ddl-extra-spaces",
}
# not judged: outside the property's list of values (tuples as structs), names (C10/C16), or PySpark itself refuses
ORACLE_SKIP = {"nested-tuple": "a plain tuple nested in a row is not in the property's list (PySpark: struct)",
               "all-none": "PySpark refuses (CANNOT_DETERMINE_TYPE); nothing declared",
               "ddl-single-type": "PySpark refuses"}
TYPE_SYN = {"long": "bigint", "integer": "int", "short": "smallint", "byte": "tinyint"}


def norm_schema(s: str) -> str:
    import re
    s = s.replace(" ", "")
    return re.sub(r"\b(long|integer|short|byte)\b", lambda m: TYPE_SYN[m.group(1)], s)


def oracle_cases(ctx, session, F, T, Row) -> int:
    path = os.path.join(core.VERIF, "oracle", "c09_pyspark.jsonl")
    import importlib.util
    spec = importlib.util.spec_from_file_location("record_c09", os.path.join(core.VERIF, "oracle", "record_c09.py"))
    rec_mod = importlib.util.module_from_spec(spec)
    spec.loader.exec_module(rec_mod)
    ns = rec_mod.namespace(Row, T, F)
    n = 0
    with open(path) as f:
        cases = [json.loads(l) for l in f if l.strip()]
    for case in cases:
        if case["id"] in ORACLE_SKIP:
            continue
        n += 1
        mine = rec_mod.run_case(session, case, ns)
        ps = case["pyspark"]
        # the schema of a select(lit(..)) is not a declared one: only rows are compared there
        same = mine["ok"] == ps["ok"] and (not ps["ok"] or (
            mine["rows"] == ps["rows"] and (bool(case.get("select")) or norm_schema(mine["schema"]) == norm_schema(ps["schema"]))))
        if not same and ps["ok"]:
            sig = ORACLE_SIG.get(case["id"], "C09/differs-from-pyspark:" + case["id"])
            ctx.deviation(sig, "differs from PySpark 3.5.9 (recorded) on a container/schema-form case",
                          {"oracle_case": case["id"], "data": case["data"], "schema": case["schema"], "select": case.get("select"),
                           "pyspark": ps, "sqlframe": mine})
    return n


# ----------------------------------------------------------------------------------------------------

def replay(ctx: core.Ctx, rp: dict) -> int:
    """re-run the input of a replay file on the current tree and print what it returns"""
    import sqlframe.duckdb.functions as F
    from sqlframe.base import types as T
    from sqlframe.base.types import Row
    session, px = new_session()
    r = rp.get("replay") or ((rp.get("no_longer_checks") or [{}])[0].get("data") or [{}])
    if isinstance(r, list):
        r = r[0] if r else {}
    ns = {"datetime": datetime, "Row": Row, "T": T, "F": F, "inf": float("inf"), "nan": float("nan"), "Decimal": decimal.Decimal}
    print("what:", rp.get("what"))
    if "data" in r and "schema" in r:       # oracle-style case: python source
        data, schema = eval(r["data"], ns), eval(r["schema"], ns)
        print("createDataFrame(", r["data"], ",", r["schema"], ")")
        try:
            df = session.createDataFrame(data, schema)
            if r.get("select"):
                df = df.select(*eval(r["select"], ns))
            print("collect():", df.collect())
            print("schema:", df.schema.simpleString())
        except Exception as ex:  # noqa
            print("raised:", type(ex).__name__, str(ex)[:300])
        print("statement:", px.log[:1])
        print("PySpark 3.5.9 recorded:", r.get("pyspark"))
        return 0
    if "dup_select" in r:
        vals = eval(r["values"], ns)
        print("select of", vals, "under the names", r["names"], "(shape:", r["dup_select"] + ")")
        df0 = session.createDataFrame([(7, "q'")], ["a", "b"])
        try:
            if r["dup_select"].startswith("same-alias"):
                got = df0.select(*[F.lit(v).alias(n) for v, n in zip(vals, r["names"])]).collect()
            elif r["dup_select"] == "literal-named-like-selected-column":
                got = df0.select("a", F.lit(vals[1]).alias("a"), "b").collect()
            elif r["dup_select"] == "column-selected-twice":
                got = df0.select("a", "a", "b", "a").collect()
            else:
                le = session.createDataFrame([(1, "l'")], ["id", "x"])
                ri = session.createDataFrame([(1, 2.5)], ["id", "y"])
                got = le.join(ri, le["id"] == ri["id"]).collect()
            print("collect():", got, "tuple:", tuple(got[0]), "fields:", got[0].__fields__)
        except Exception as ex:  # noqa
            print("raised:", type(ex).__name__, str(ex)[:300])
        print("expected:", r.get("expected"), "| recorded:", r.get("collect_returned"))
        return 0
    if "value" in r:
        print("value:", r["value"], "| first-row value:", r.get("first_row_value"), "| container/form:", r.get("kind"), r.get("form"))
        print("expected:", r.get("expected"))
        try:
            v = eval(r.get("value_src") or r["value"], ns)
            if r.get("select_lit"):
                df = session.createDataFrame([(1,)], ["k"]).select(F.lit(v).alias("c"))
            else:
                first = eval(r.get("first_src") or r["first_row_value"], ns)
                rows = [(first,), (v,)] if repr(first) != repr(v) else [(v,)]
                df = session.createDataFrame(rows, {"c": r["decl_type"]} if r.get("decl_type") else None)
            print("collect():", df.collect())
        except Exception as ex:  # noqa
            print("raised:", type(ex).__name__, str(ex)[:300])
        print("statement:", px.log[:1])
        print("recorded:", r.get("collect_returned"), "verdict", r.get("verdict(impl=model,impl=spec,model=spec,in_domain)"))
        return 0
    print(json.dumps(r, indent=1, default=str)[:4000])
    return 0
