"""C20 -- activate() redirects every documented pyspark import and is fully reversible.

T1  translate/c20_facts.py -> Gen/C20Facts.v   tables, statement shapes of activate / deactivate / activate_context,
                                               every engine package's exports, Builder/singleton shapes
Prf coq/props/C20.v                            instantiation obligations on gen_facts (they guard the size of the proved domain)
                                               + C20_partial_no_mixture (any engines) + C20_partial (session, one engine)
                                               + C20_deactivate_restores (no restriction), all for event lists of any length
                                               and all environments + conditional refutation witnesses
T3  event scripts, each in a FRESH interpreter (checks/c20_worker.py): the observations (what import statements yield,
    ACTIVATE_CONFIG, the session getOrCreate returns) are compared step by step with the Coq model (impl = model?)
    and judged by the Coq Spec (impl allowed by the property?); a rejected step is classified by [diagnose] on the
    model state -- that classification is the signature of the deviation.
"""
from __future__ import annotations

import json
import os
import random
import re
import subprocess
import time
from concurrent.futures import ThreadPoolExecutor

from vlib import core
from vlib.core import strlit, listlit, natlit
from translate import c20_facts

WORKER = os.path.join(core.VERIF, "checks", "c20_worker.py")
DOC_SUBS = ["functions", "types", "window", "dataframe", "session", "column", "catalog", "readwriter", "group", "udf"]
DOC_PATHS = ["pyspark", "pyspark.sql"] + ["pyspark.sql." + f for f in DOC_SUBS] + ["pyspark.testing"]
ENVS = ["sandbox", "healthy", "absent"]
BAD_RAISES = ["duckdb", "postgres", "snowflake", "bigquery"]   # session construction uses the connection at once
NO_CONN_NEEDED = ["duckdb", "standalone"]                      # engines that can make a session without a connection
DIALECT_IDS = c20_facts.DIALECT_IDS
DIALECT_KEYS = ["sqlframe.input.dialect", "sqlframe.output.dialect", "sqlframe.execution.dialect"]
DIALECT_KEY = DIALECT_KEYS[0]
DIALECT_VALUES = ["duckdb", "spark", "snowflake", "bigquery", "postgres"]

HEADER = """From SF Require Import C20.Activate.
From Gen Require Import C20Facts.
Definition check := Activate.check gen_facts.
"""

SIGNATURES = {
    "X": ("C20/context-exit-by-exception-skips-deactivate",
          "activate_context has no try/finally: leaving the block by an exception skips deactivate(); the pyspark "
          "imports stay redirected and ACTIVATE_CONFIG stays filled"),
    "R": ("C20/deactivate-raises-on-non-ImportError-and-keeps-config",
          "deactivate() only swallows ImportError while re-importing the real modules; another exception (here "
          "AttributeError from pyspark.testing under numpy 2) escapes and ACTIVATE_CONFIG.clear() is never reached"),
    "F": ("C20/unregistered-submodule-stays-stale-after-activate",
          "activate(e) registers pyspark.sql.functions only if sqlframe.<e>.functions was imported before; otherwise an "
          "entry already in sys.modules (the real PySpark's, or another engine's) survives and is what imports yield"),
    "S": ("C20/session-singleton-shared-across-engines",
          "_BaseSession.__new__ keeps one instance for all engine classes: after a session of engine A exists, "
          "activate(B) + SparkSession.builder.getOrCreate() returns A's session"),
    "C": ("C20/stale-connection-from-previous-engine-activation",
          "activate() never resets ACTIVATE_CONFIG: a connection stored by activate(A, conn=c) is handed to engine B's "
          "session after activate(B) without a connection"),
    "P": ("C20/spark-engine-builder-imports-itself-when-activated",
          "sqlframe.spark's Builder imports pyspark.sql.session.SparkSession, which after activate('spark') is itself: "
          "SparkSession.builder.getOrCreate() ends in RecursionError"),
}


# ----------------------------------------------------------------------------------------------------
# Coq terms

def opt_nat(c):
    return "None" if c is None else f"(Some {natlit(c)})"


def kv_coq(cfg: dict):
    return listlit([f"({strlit(k)}, {natlit(DIALECT_IDS[v])})" for k, v in sorted(cfg.items())])


def path_coq(p: str):
    if p == "pyspark":
        return "PTop"
    if p == "pyspark.sql":
        return "PSql"
    if p == "pyspark.testing":
        return "PTesting"
    assert p.startswith("pyspark.sql."), p
    return f"(PSub {strlit(p[len('pyspark.sql.'):])})"


def event_coq(ev):
    k = ev[0]
    if k == "act":
        return f"(Activate {strlit(ev[1])} {opt_nat(ev[2])} {kv_coq(ev[3])})"
    if k == "enter":
        return f"(CtxEnter {strlit(ev[1])} {opt_nat(ev[2])} {kv_coq(ev[3])})"
    if k == "deact":
        return "Deactivate"
    if k == "exit":
        return "(CtxExit " + {"normal": "XNormal", "raise": "XRaise", "sraise": "XSessionRaise", "braise": "XBaseRaise"}[ev[1]] + ")"
    if k == "goc":
        return "GetOrCreate"
    if k == "imp":
        return f"(Import F{ev[1]} {path_coq(ev[2])})"
    if k == "loadf":
        return f"(LoadFunctions {strlit(ev[1])})"
    if k == "bconf":
        return f"(BuilderConfig {'true' if ev[1] == 'key' else 'false'} {kv_coq(ev[2])})"
    if k == "dial":
        return "ReadDialects"
    raise ValueError(ev)


def obs_coq(ev, r):
    k, t = ev[0], r[0]
    if k == "goc":
        if t == "session":
            return f"(GSession {strlit(r[1])} {opt_nat(r[2] if r[2] >= 1 else None)})"
        return {"real": "GReal", "raised": "GRaise", "importerror": "EImportError", "error": "EError"}.get(t, "EOther")
    if k == "imp":
        if t == "mock":
            return "(EMod (Mock None))"
        if t == "sfpkg":
            return f"(EMod (SfPkg {strlit(r[1])}))"
        if t == "sf":
            return f"(EMod (Sf {strlit(r[1])} {strlit(r[2])}))"
        return {"testing": "(EMod Testing)", "real": "(EMod Real)", "importerror": "EImportError",
                "error": "EError"}.get(t, "EOther")
    if k == "dial":
        if t != "dial":
            return "EOther"
        if r[1] is None:
            return "(EDial None)"
        ids = [DIALECT_IDS.get(x, 0) for x in r[1]]
        return f"(EDial (Some ({ids[0]}, ({ids[1]}, {ids[2]}))))"
    return {"ok": "EOk", "raised": "ERaised"}.get(t, "EOther")


def cfg_coq(cfg):
    out = []
    for key, v in cfg:
        if isinstance(v, int):
            out.append(f"({strlit(key)}, {natlit(max(v, 0))})")
        else:
            out.append(f"({strlit(key)}, {natlit(DIALECT_IDS.get(v, 0))})")
    return listlit(out)


def env_coq(env: str):
    bad = listlit([strlit(e) for e in BAD_RAISES])
    if env == "absent":
        return f"(mkEnv false doc_subs RAbsent {bad})"
    return f"(mkEnv true doc_subs {'ROk' if env == 'healthy' else 'RRaise'} {bad})"


# ----------------------------------------------------------------------------------------------------
# script generation

def shapes(maxlen: int):
    """all core sequences up to maxlen over {A0,A1,D,C0,C1,Xn,Xr,Xs}: engine 1 only after engine 0 appeared,
    an exit only while a context is open"""
    out = []

    def rec(prefix, depth, seen1):
        if prefix:
            out.append(list(prefix))
        if len(prefix) == maxlen:
            return
        for sym in [("A", 0), ("A", 1), ("D",), ("C", 0), ("C", 1), ("X", "normal"), ("X", "raise"), ("X", "sraise"),
                    ("X", "braise")]:
            if sym[0] in "AC" and sym[1] == 1 and not seen1:
                continue
            if sym[0] == "X" and depth == 0:
                continue
            prefix.append(sym)
            rec(prefix, depth + (sym[0] == "C") - (sym[0] == "X"), seen1 or sym[0] in "AC")
            prefix.pop()

    rec([], 0, False)
    return out


def random_shape(rnd, n):
    sh, depth, seen = [], 0, False
    while len(sh) < n:
        sym = rnd.choice([("A", 0), ("A", 1), ("D",), ("C", 0), ("C", 1), ("X", "normal"), ("X", "raise"), ("X", "sraise"),
                          ("X", "braise"), ("C", 0)])
        if sym[0] in "AC" and sym[1] == 1 and not seen:
            sym = (sym[0], 0)
        if sym[0] == "X" and depth == 0:
            continue
        depth += (sym[0] == "C") - (sym[0] == "X")
        seen = seen or sym[0] in "AC"
        sh.append(sym)
    return sh


def rand_dialects(rnd):
    """a config dict with one to three of the dialect keys (each key is used about equally often)"""
    keys = [k for k in DIALECT_KEYS if rnd.random() < 0.5] or [rnd.choice(DIALECT_KEYS)]
    rnd.shuffle(keys)
    return {k: rnd.choice(DIALECT_VALUES) for k in keys}


def with_dial(evs):
    """every getOrCreate is followed by a look at the dialects of the session it returned"""
    out = []
    for ev in evs:
        out.append(ev)
        if ev[0] == "goc":
            out.append(["dial"])
    return out


def decorate(shape, rnd, pair, env, names_tables):
    """core shape -> concrete event list with probes"""
    engines = pair
    # which exit closes which enter
    closes, stack = {}, []
    for i, sym in enumerate(shape):
        if sym[0] == "C":
            stack.append(i)
        elif sym[0] == "X" and stack:
            closes[stack.pop()] = sym[1]
    evs = []
    r = rnd.random()
    if r < 0.22:
        evs.append(["imp", "A", "pyspark.sql"])          # the real PySpark was imported before anything else
    elif r < 0.34:
        evs.append(["loadf", engines[0]])
    elif r < 0.40:
        evs.append(["imp", "A", "pyspark.testing"])

    def probe(active_engine):
        k = rnd.random()
        if k < 0.30:
            return ["imp", rnd.choice("AASB"), "pyspark.sql.functions"]
        if k < 0.55:
            return ["imp", rnd.choice("ASB"), rnd.choice(DOC_PATHS)]
        if k < 0.76:
            return ["goc"]
        if k < 0.84:
            d = rand_dialects(rnd)
            return ["bconf", "key", {kk: d[kk] for kk in list(d)[:1]}] if rnd.random() < 0.5 else ["bconf", "map", d]
        if k < 0.90:
            return ["loadf", rnd.choice(engines)]
        return ["imp", "A", "pyspark.sql.types"]

    for i, sym in enumerate(shape):
        if sym[0] in "AC":
            e = engines[sym[1]]
            if sym[0] == "C" and closes.get(i) == "sraise" and e in BAD_RAISES:
                conn = 9
            elif e in NO_CONN_NEEDED:
                conn = rnd.choice([None, 1, 2])
            else:
                conn = rnd.choice([1, 2])
            cfg = rand_dialects(rnd) if rnd.random() < 0.45 else {}
            evs.append(["act" if sym[0] == "A" else "enter", e, conn, cfg])
            if rnd.random() < 0.2 and e in names_tables:
                evs.append(["names", e, names_tables[e]])
        elif sym[0] == "D":
            evs.append(["deact"])
        else:
            if sym[1] == "sraise" and (not evs or evs[-1][0] != "goc"):
                evs.append(["goc"])
            evs.append(["exit", sym[1]])
        for _ in range(rnd.choice([0, 0, 1, 1, 2, 3])):
            evs.append(probe(None))
    form = rnd.choice("AAASB")
    order = list(DOC_PATHS)
    if rnd.random() < 0.5:
        rnd.shuffle(order)
    evs += [["imp", form, p] for p in order]
    if rnd.random() < 0.8:
        evs.append(["goc"])
    return with_dial(evs)


def corpus(engs):
    """hand-written scripts that run first: the minimal forms of everything that ever failed"""
    full = [["imp", "A", p] for p in DOC_PATHS]
    c = [
        ("sandbox", [["enter", "duckdb", 1, {}], ["exit", "raise"]] + full + [["goc"]]),
        ("absent", [["enter", "duckdb", 1, {}], ["exit", "raise"]] + full),
        ("healthy", [["enter", "duckdb", 9, {}], ["goc"], ["exit", "sraise"]] + full),
        ("sandbox", [["act", "duckdb", 1, {}], ["deact"]] + full),
        ("healthy", [["act", "duckdb", 1, {}], ["deact"]] + full),
        ("healthy", [["imp", "A", "pyspark.sql"], ["act", "duckdb", None, {}], ["imp", "A", "pyspark.sql.functions"],
                     ["imp", "S", "pyspark.sql.functions"], ["imp", "B", "pyspark.sql.functions"]]),
        ("absent", [["act", "duckdb", None, {}], ["imp", "A", "pyspark.sql.functions"], ["act", "standalone", None, {}],
                    ["imp", "A", "pyspark.sql.functions"]] + full),
        ("absent", [["act", "duckdb", 1, {}], ["goc"], ["deact"], ["act", "standalone", None, {}], ["goc"]]),
        ("absent", [["act", "duckdb", 1, {}], ["act", "postgres", 2, {}], ["goc"]]),
        ("absent", [["act", "duckdb", 1, {}], ["act", "duckdb", None, {}], ["goc"]]),
        ("absent", [["act", "postgres", 1, {}], ["act", "duckdb", None, {}], ["goc"]]),
        ("absent", [["act", "redshift", 1, {}], ["act", "databricks", 2, {}], ["act", "duckdb", None, {}], ["goc"]]),
        ("absent", [["act", "spark", 1, {}], ["goc"]]),
        ("healthy", [["enter", "duckdb", 1, {}], ["enter", "standalone", None, {}], ["exit", "normal"]] + full
         + [["exit", "normal"]] + full),
        ("healthy", [["loadf", "duckdb"], ["imp", "A", "pyspark.sql"], ["act", "duckdb", 2, {DIALECT_KEY: "duckdb"}]] + full
         + [["goc"], ["deact"]] + full + [["goc"]]),
        ("absent", [["loadf", "snowflake"], ["enter", "snowflake", 1, {}]] + [["imp", "S", p] for p in DOC_PATHS]
         + [["goc"], ["exit", "normal"]] + [["imp", "B", p] for p in DOC_PATHS]),
    ]
    allk = {DIALECT_KEYS[0]: "duckdb", DIALECT_KEYS[1]: "snowflake", DIALECT_KEYS[2]: "postgres"}
    c += [
        ("absent", [["act", "standalone", None, allk], ["goc"]]),
        ("absent", [["act", "duckdb", 1, {DIALECT_KEYS[2]: "snowflake"}], ["goc"], ["deact"], ["act", "duckdb", 1, {}], ["goc"]]),
        ("healthy", [["enter", "duckdb", None, {}], ["bconf", "key", {DIALECT_KEYS[2]: "bigquery"}], ["goc"],
                     ["bconf", "map", allk], ["goc"], ["exit", "normal"], ["goc"]]),
        ("absent", [["act", "postgres", 2, {DIALECT_KEYS[1]: "duckdb"}], ["bconf", "key", {DIALECT_KEYS[0]: "snowflake"}],
                    ["bconf", "map", {DIALECT_KEYS[1]: "spark", DIALECT_KEYS[2]: "duckdb"}], ["goc"]]),
    ]
    c += [
        ("absent", [["enter", "duckdb", 1, {}], ["exit", "braise"]] + full + [["goc"]]),
        ("healthy", [["enter", "standalone", None, allk], ["goc"], ["exit", "braise"], ["imp", "A", "pyspark.sql"], ["goc"]]),
        ("absent", [["act", "duckdb", 1, {}], ["goc"], ["act", "postgres", 2, {}], ["goc"], ["act", "duckdb", 2, {}], ["goc"]]),
        ("absent", [["enter", "postgres", 1, {}], ["goc"], ["exit", "normal"], ["enter", "redshift", 1, {}], ["goc"], ["exit", "normal"],
                    ["enter", "postgres", 2, {}], ["goc"], ["exit", "normal"]]),
    ]
    c += [   # the Builder object keeps the conn kwarg of an earlier activation of the same engine
        ("absent", [["act", "duckdb", 1, {}], ["goc"], ["enter", "snowflake", 2, {}], ["goc"], ["act", "duckdb", None, {}], ["goc"]]),
        ("sandbox", [["imp", "A", "pyspark.sql"], ["act", "duckdb", 1, {}], ["loadf", "snowflake"], ["imp", "A", "pyspark.sql.functions"],
                     ["goc"], ["enter", "snowflake", 2, {}], ["goc"], ["imp", "S", "pyspark.sql.functions"], ["goc"],
                     ["act", "duckdb", None, {}], ["enter", "duckdb", None, {}], ["loadf", "duckdb"], ["goc"], ["goc"]]),
        ("absent", [["act", "postgres", 1, {}], ["goc"], ["deact"], ["act", "redshift", 2, {}], ["goc"], ["deact"],
                    ["act", "postgres", 2, {}], ["deact"], ["act", "redshift", 1, {}], ["goc"]]),
    ]
    c = [(env, with_dial(evs)) for env, evs in c]
    return [(env, evs) for env, evs in c if all(ev[0] not in ("act", "enter", "loadf") or ev[1] in engs for ev in evs)]


def conn_histories(rnd, pairs, n):
    """engine A with connection c1 and a session, engine B and a session, engine A again with ANOTHER connection and a
    session -- as plain activations, activate/deactivate pairs and context blocks; the current session belongs to B when A
    comes back, so A's session is really built again and must hold the new connection"""
    out = []
    for i in range(n):
        a, b = pairs[i % len(pairs)]
        c1, c2 = rnd.choice([(1, 2), (2, 1)])
        cb = rnd.choice([1, 2])
        style = i % 3
        evs = []
        for eng, cid in ((a, c1), (b, cb), (a, c2)):
            if style == 2:
                evs += [["enter", eng, cid, {}], ["goc"], ["exit", rnd.choice(["normal", "raise", "braise"])]]
            else:
                evs += [["act", eng, cid, {}], ["goc"]] + ([["deact"]] if style == 1 else [])
        out.append({"env": ENVS[i % 3], "events": with_dial(evs), "origin": "conn-history", "pair": [a, b]})
    return out


def make_scripts(ctx, info, names_tables):
    rnd = random.Random(ctx.seed)
    engs = info["engines"]
    pairs = [(a, b) for a in engs for b in engs if a != b]
    rnd.shuffle(pairs)
    scripts = [{"env": env, "events": evs, "origin": "corpus"} for env, evs in corpus(engs)]
    scripts += conn_histories(rnd, pairs, 12 if ctx.tier == "quick" else 3 * len(pairs))
    exh = shapes(3 if ctx.tier == "quick" else 4)
    n_exh = len(exh)
    n_rand = 170 if ctx.tier == "quick" else 1500
    rand = [random_shape(rnd, rnd.choice([4, 5, 5]) if ctx.tier == "quick" else 5) for _ in range(n_rand)]
    k = 0
    for origin, shs in (("exhaustive", exh), ("random", rand)):
        for sh in shs:
            pair = pairs[k % len(pairs)]
            env = ENVS[(k // 3 + k) % 3]
            k += 1
            scripts.append({"env": env, "events": decorate(sh, rnd, pair, env, names_tables), "origin": origin,
                            "shape": ["".join(map(str, s)) for s in sh], "pair": list(pair)})
    return scripts, n_exh


# ----------------------------------------------------------------------------------------------------
# running

def run_worker(script, build, deadline=None, timeout=120):
    if deadline is not None and script.get("origin") == "random" and time.time() > deadline:
        return None, "skipped: time budget of the quick tier used up (only random scripts are ever skipped)"
    env = {"PYTHONPATH": core.REPO, "VERIF_REPO": core.REPO, "PYTHONHASHSEED": "0", "PATH": os.environ.get("PATH", ""),
           "HOME": os.environ.get("HOME", "/root"), "TZ": "UTC"}
    arg = json.dumps({"env": script["env"], "events": script["events"]})
    try:
        p = subprocess.run([core.PY, WORKER, arg], env=env, cwd=build, stdout=subprocess.PIPE, stderr=subprocess.PIPE,
                           text=True, timeout=timeout)
    except subprocess.TimeoutExpired:
        return None, "timeout"
    m = re.search(r"^C20OBS (.*)$", p.stdout, re.M)
    if not m:
        return None, (p.stderr or p.stdout)[-600:]
    return json.loads(m.group(1)), None


def case_term(script, res):
    evs, obs = [], []
    for ev, o in zip(script["events"], res["obs"]):
        if ev[0] == "names":
            continue
        evs.append(event_coq(ev))
        obs.append(f"({obs_coq(ev, o['r'])}, {cfg_coq(o['cfg'])})")
    return f"(mkCase {env_coq(script['env'])} {listlit(evs)} {listlit(obs)})"


REG_TABLE_FN = (
    'Definition table_of (e : string) : string := String.concat ";" (map (fun r => '
    '(fst r ++ "," ++ fst (snd r) ++ "," ++ snd (snd r))%string) (reg_table gen_facts e)).\n')


def facts_or_pinned(ctx):
    try:
        text, facts, info = c20_facts.generate(core.REPO)
        ctx.gen("C20Facts", text, facts)
        return True, info
    except Exception as ex:  # fail-closed translator = broken proof obligation
        ctx.broken("T1:c20_facts", f"{type(ex).__name__}: {ex}")
        pinned = os.path.join(core.VERIF, "translate", "c20_facts_pinned.v")
        ctx.gen("C20Facts", open(pinned).read())
        with open(os.path.join(core.VERIF, "translate", "c20_facts_pinned.json")) as f:
            return False, json.load(f)


def describe(ev):
    k = ev[0]
    if k in ("act", "enter"):
        fn = "activate" if k == "act" else "activate_context(...).__enter__ :"
        return f"{fn}({ev[1]!r}, conn={'None' if ev[2] is None else 'CONN%d' % ev[2]}, config={ev[3] or None})"
    if k == "deact":
        return "deactivate()"
    if k == "exit":
        return {"normal": "leave the with-block normally", "raise": "leave the with-block by an exception raised in it",
                "sraise": "leave the with-block by the exception getOrCreate() raised",
                "braise": "leave the with-block by a KeyboardInterrupt (a BaseException that is not an Exception)"}[ev[1]]
    if k == "goc":
        return "from pyspark.sql import SparkSession; SparkSession.builder.getOrCreate()"
    if k == "imp":
        p = ev[2]
        return {"A": f"importlib.import_module({p!r})   # the module `from {p} import ...` uses",
                "S": f"import {p} as m",
                "B": f"from {p.rpartition('.')[0]} import {p.rpartition('.')[2]}" if "." in p else f"import {p}"}[ev[1]]
    if k == "loadf":
        return f"import sqlframe.{ev[1]}.functions"
    if k == "names":
        return f"identity of the documented classes under pyspark.sql.* vs sqlframe.{ev[1]}"
    if k == "bconf":
        return ("SparkSession.builder.config(" + ", ".join(f"{a!r}, {b!r}" for a, b in ev[2].items()) + ")" if ev[1] == "key"
                else f"SparkSession.builder.config(map={ev[2]})")
    if k == "dial":
        return "[type(getattr(session, a)).__name__ for a in (input_dialect, output_dialect, execution_dialect)]"
    return str(ev)


def run(ctx: core.Ctx):
    t1_ok, info = facts_or_pinned(ctx)
    gen_v = ctx.build + "/gen/C20Facts.v"
    ctx.coqc(gen_v)      # the case files and the table below need Gen.C20Facts (prove() compiles and counts it again)
    # the (file, pyspark name, sqlframe name) rows activate registers, computed by the model from the facts
    rows = ctx.cases("c20tab", HEADER + REG_TABLE_FN, [strlit(e) for e in info["engines"]], per_file=50,
                     result_ty="str", fn="table_of")
    tables = {e: [x.split(",") for x in (r or "").split(";") if x] for e, r in zip(info["engines"], rows)}
    names_tables = {e: [r for r in rows if len(r) == 3 and r[1] not in ("functions", "types")] + [["types", "Row", "Row"]]
                    for e, rows in tables.items() if rows}
    if not any(names_tables.values()):
        ctx.broken("model:reg_table", "could not evaluate reg_table gen_facts")
    scripts, n_exh = make_scripts(ctx, info, names_tables)
    ctx.log(f"{len(scripts)} scripts ({n_exh} bounded-exhaustive shapes), one fresh interpreter each")
    t0 = time.time()
    with ThreadPoolExecutor(max_workers=8) as ex:
        deadline = t0 + 55 if ctx.tier == "quick" else None
        futures = [ex.submit(run_worker, s, ctx.build, deadline) for s in scripts]
        # proofs are checked while the interpreters run
        proved = False
        if t1_ok:
            proved = ctx.prove([gen_v, core.COQ + "/props/C20.v"], dep_theories=["C20/Activate.v", "C20/ActivateProof.v"])
        results = [f.result() for f in futures]
    # a script that timed out on a loaded machine gets one more, unhurried, run
    for i, (res, err) in enumerate(results):
        if res is None and err == "timeout" and sum(1 for r in results[:i] if r[1] == "timeout") < 12:
            results[i] = run_worker(scripts[i], ctx.build, None, timeout=600)
    n_skipped = sum(1 for r in results if r[0] is None and str(r[1]).startswith("skipped"))
    ctx.log(f"interpreters done in {time.time() - t0:.1f}s" + (f" ({n_skipped} random scripts skipped: time budget)" if n_skipped else ""))
    ctx.coverage["random_scripts_skipped_for_time"] = n_skipped
    items, keep = [], []
    n_fail = 0
    for sc, (res, err) in zip(scripts, results):
        if res is None and str(err).startswith("skipped"):
            continue
        if res is None or len(res["obs"]) != len(sc["events"]):
            n_fail += 1
            if n_fail <= 3:
                ctx.broken("T3:worker", f"worker produced no observations: {err}", data=sc)
            continue
        if res["pre"]:
            ctx.broken("T3:not-fresh", f"pyspark/engine modules present before the first event: {res['pre'][:5]}")
        items.append(case_term(sc, res))
        keep.append((sc, res))
    verdicts = ctx.cases("c20", HEADER, items, per_file=40, result_ty="str", fn="check")
    evaluate(ctx, keep, verdicts, proved, n_exh, len(scripts), info)


def engines_in(sc):
    return {ev[1] for ev in sc["events"] if ev[0] in ("act", "enter")}


def evaluate(ctx, keep, verdicts, proved, n_exh, n_scripts, info):
    hist_len, hist_kind, hist_env, hist_diag, hist_origin = {}, {}, {}, {}, {}
    n_steps = n_in_dom = n_nontriv = n_abstain = n_names = n_in_dom0 = n_multi = n_multi_dom0 = 0
    model_fail, deviations = [], {}
    seen = set()
    for (sc, res), v in zip(keep, verdicts):
        if v is None:
            continue
        m = re.match(r"^([01])([01])([01])([01]):((?:[01u][01][A-Za-z])*)(!?)$", v)
        if not m:
            ctx.broken("cases-format", f"unparsable verdict {v[:80]!r}")
            continue
        in_dom, model_conf, in_dom0, model_conf0, body = (m.group(1) == "1", m.group(2) == "1", m.group(3) == "1",
                                                          m.group(4) == "1", m.group(5))
        n_in_dom0 += in_dom0
        if len(engines_in(sc)) >= 2:
            n_multi += 1
            n_multi_dom0 += in_dom0
        if proved and in_dom0 and not model_conf0:
            ctx.broken("theorem-vs-evaluation", "script in the no-mixture domain whose model run the Spec rejects: "
                       + json.dumps([sc["env"], sc["events"]])[:300])
        if m.group(6):
            ctx.broken("cases-format", "event and observation lists of different length")
            continue
        core_evs = [(ev, o) for ev, o in zip(sc["events"], res["obs"]) if ev[0] != "names"]
        steps = [body[i:i + 3] for i in range(0, len(body), 3)]
        if len(steps) != len(core_evs):
            ctx.broken("cases-format", f"{len(steps)} verdicts for {len(core_evs)} events")
            continue
        key = json.dumps([sc["env"], sc["events"]])
        n_core = sum(1 for ev in sc["events"] if ev[0] in ("act", "enter", "deact", "exit"))
        engines_used = {ev[1] for ev in sc["events"] if ev[0] in ("act", "enter")}
        if key not in seen and n_core >= 2 and len(sc["events"]) > n_core:
            n_nontriv += 1
        seen.add(key)
        n_in_dom += in_dom
        n_steps += len(steps)
        hist_len[n_core] = hist_len.get(n_core, 0) + 1
        hist_env[sc["env"]] = hist_env.get(sc["env"], 0) + 1
        hist_origin[sc["origin"]] = hist_origin.get(sc["origin"], 0) + 1
        for ev in sc["events"]:
            kk = ev[0] + (":" + ev[1] if ev[0] in ("exit", "imp", "bconf") else "")
            if ev[0] in ("act", "enter"):
                for dk in ev[3]:
                    hist_kind["config:" + dk] = hist_kind.get("config:" + dk, 0) + 1
            if ev[0] == "bconf":
                for dk in ev[2]:
                    hist_kind["bconf-" + ev[1] + ":" + dk] = hist_kind.get("bconf-" + ev[1] + ":" + dk, 0) + 1
            hist_kind[kk] = hist_kind.get(kk, 0) + 1
        if proved and in_dom and not model_conf:
            ctx.broken("theorem-vs-evaluation", "in-domain script whose model run the Spec rejects: " + key[:300])
        # names checks are judged directly: every documented class must be the engine's own object
        for ev, o in zip(sc["events"], res["obs"]):
            if ev[0] == "names":
                n_names += 1
                got = o["r"][1] if o["r"][0] == "names" else "0" * len(ev[2])
                if len(got) != len(ev[2]) or set(got) - {"1"}:
                    bad = [row[1] for row, ch in zip(ev[2], got) if ch != "1"]
                    deviations.setdefault("C20/documented-class-not-engine-object:" + ",".join(sorted(bad))[:80],
                                          []).append((len(sc["events"]), sc, res, -1 - sc["events"].index(ev),
                                                      "documented class is not sqlframe's object"))
        first_mis = first_rej = None
        for i, st in enumerate(steps):
            if st[0] == "u":
                n_abstain += 1
            if st[0] == "0" and first_mis is None:
                first_mis = i
            if st[1] == "0" and first_rej is None:
                first_rej = i
        if first_mis is not None:
            model_fail.append({"env": sc["env"], "events": sc["events"], "step": first_mis, "event": core_evs[first_mis][0],
                               "implementation": core_evs[first_mis][1], "verdict": v})
        # a rejected step is explained by the model only if everything up to and including it agrees with the model
        explained = first_mis is None or (first_rej is not None and first_mis > first_rej)
        if first_rej is not None:
            letter = steps[first_rej][2]
            hist_diag[letter] = hist_diag.get(letter, 0) + 1
            ev, o = core_evs[first_rej]
            if explained and letter in SIGNATURES:
                sig, what = SIGNATURES[letter]
                if letter == "F":        # which sub-module is stale is part of the shape
                    sig += ":" + ev[2].rpartition(".")[2]
            else:
                sig = f"C20/unexplained:{ev[0]}:{o['r'][0]}" + ("" if explained else ":model-disagrees")
                what = "the property's Spec rejects an observation that no listed defect explains"
            deviations.setdefault(sig, []).append((first_rej, sc, res, first_rej, what))
        if len(ctx.samples) < 4 and sc["origin"] != "corpus" and n_core >= 3:
            ctx.sample({"env": sc["env"], "events": [describe(e) for e in sc["events"]][:14], "verdict": v[:60]})
    for sig, lst in sorted(deviations.items()):
        lst.sort(key=lambda x: (x[0], len(x[1]["events"])))
        pos, sc, res, idx, what = lst[0]
        # smallest witness: the script cut after the rejected step (idx < 0: a names check at position -1 - idx)
        core_i, cutpos = -1, len(sc["events"])
        if idx < 0:
            cutpos = -idx
        else:
            for j, ev in enumerate(sc["events"]):
                if ev[0] != "names":
                    core_i += 1
                if core_i == idx:
                    cutpos = j + 1
                    break
        evs = sc["events"][:cutpos]
        ctx.deviation(sig, what, {
            "env": sc["env"], "events": evs, "script": [describe(e) for e in evs],
            "observed": [o["r"] for o in res["obs"][:cutpos]],
            "config_after_each": [o["cfg"] for o in res["obs"][:cutpos]],
            "rejected_step": idx, "occurrences": len(lst),
            "demanded": demanded(evs, idx, sc["env"]),
        })
    if os.environ.get("C20_DEBUG"):
        with open(os.environ["C20_DEBUG"], "w") as f:
            json.dump({"model_fail": model_fail}, f, indent=1)
    if model_fail:
        ctx.broken("T3:impl-vs-model", f"{len(model_fail)} scripts where an observation differs from the model's; first: "
                   f"{model_fail[0]['env']} {[describe(e) for e in model_fail[0]['events']][:8]} step {model_fail[0]['step']} "
                   f"-> {model_fail[0]['implementation']}", data=model_fail[:5])
    ctx.coverage.update({
        "evaluations": n_steps, "scripts": len(keep), "distinct_nontrivial": n_nontriv,
        "rule": "evaluation = one observed step (event + what it returned + ACTIVATE_CONFIG afterwards) compared with the model "
                "and judged by the Spec; script = core sequence over {activate a|b, deactivate, enter a|b, exit normal|raise|"
                "session-raise|BaseException} (every well-formed sequence of length <= 3 quick / <= 4 thorough, plus random ones of length 4-5 "
                "quick / 5 thorough; in the quick tier random scripts are skipped once 55 s of interpreter time are used) with "
                "engines from all ordered pairs, connections, config and import/getOrCreate probes between the events and a full "
                "view of the 13 documented paths at the end, each in a fresh interpreter; non-trivial = >= 2 core events and >= 1 "
                "probe; distinct by (environment, event list)",
        "bounded_exhaustive_shapes": n_exh, "scripts_generated": n_scripts, "in_theorem_domain": n_in_dom,
        "in_no_mixture_theorem_domain": n_in_dom0, "scripts_with_two_engines": n_multi,
        "two_engine_scripts_in_no_mixture_domain": n_multi_dom0,
        "model_abstained_steps": n_abstain, "names_checks": n_names,
        "histogram_core_events": hist_len, "histogram_event_kind": hist_kind, "histogram_environment": hist_env,
        "histogram_origin": hist_origin, "histogram_first_rejection": hist_diag,
        "facts": {k: info[k] for k in ("ctx_finally", "catch", "clear_protected", "forced", "reset", "singleton_global",
                                       "noconn", "selfref", "cached")},
    })
    ctx.assumptions += [
        "CPython's import system behaves as Activate.importA/importS/importB say on the states activate()/deactivate() produce "
        "(sys.modules lookup first, parent __path__ otherwise, IMPORT_FROM attribute chain) -- validated by T3 only",
        "`import pyspark` loads pyspark.sql and all ten documented sub-modules (env.bundle = doc_subs) -- validated by T3",
        "environment 'absent' emulates an uninstalled PySpark by a meta-path finder; 'healthy' restores numpy.NaN",
        "database drivers are stub modules; connections are stub objects compared by identity",
        "the session model covers which engine's session getOrCreate returns and which connection it holds; dialect "
        "settings kept in the per-engine Builder object are not modelled",
    ]
    ctx.trusted += ["translate/c20_facts.py (statement-by-statement shape matching, fail-closed)",
                    "checks/c20_worker.py (classification of what import statements return)"]


def demanded(evs, idx, env):
    if idx < 0:
        return "after activate(e) every documented class under pyspark.sql.* is sqlframe.<e>'s own object"
    active = None
    for ev in evs[:-1]:
        if ev[0] in ("act", "enter"):
            active = ev[1]
        elif ev[0] in ("deact", "exit"):
            active = None
    ev = evs[-1]
    base = {"absent": "ImportError (PySpark not installed)", "healthy": "the real PySpark module",
            "sandbox": "the real PySpark module (AttributeError for pyspark.testing, as before any activation)"}[env]
    if ev[0] in ("deact", "exit"):
        return "returns without raising a new exception; ACTIVATE_CONFIG == {}; imports as before any activation"
    if ev[0] == "imp":
        return f"sqlframe's module for engine {active!r}" if active else base + "; ACTIVATE_CONFIG == {}"
    if ev[0] == "dial":
        return ("each dialect given in the activation's config (else: given through builder.config during this activation) is the "
                "session's; the others are the engine's default or a value given to this engine earlier")
    if ev[0] == "goc":
        return (f"a session of engine {active!r} holding a connection given to that engine" if active
                else "the real SparkSession / ImportError as before any activation; ACTIVATE_CONFIG == {}")
    return "succeeds; ACTIVATE_CONFIG contains what was passed"


def replay(ctx: core.Ctx, rp: dict) -> int:
    """re-run the event script of a replay file in a fresh interpreter on the current tree; print what it returns"""
    r = rp.get("replay") or ((rp.get("no_longer_checks") or [{}])[0].get("data") or [{}])[0]
    script = {"env": r["env"], "events": r["events"]}
    res, err = run_worker(script, ctx.build)
    if res is None:
        print("worker failed:", err)
        return 2
    print(f"environment: {script['env']}   tree: {core.REPO}")
    for ev, o in zip(script["events"], res["obs"]):
        print(f"  {describe(ev):95s} -> {o['r']}   config={o['cfg']}")
    if r.get("demanded"):
        print("the property demands at the last step:", r["demanded"])
    t1_ok, info = facts_or_pinned(ctx)
    ctx.coqc(ctx.build + "/gen/C20Facts.v")
    out = ctx.coq_eval(HEADER, "check " + case_term(script, res))
    m = re.search(r'"(.*)"', out, re.S)
    print("verdict <in_domain><model conforms><in_no_mixture_domain><model conforms there>:<impl=model, spec accepts, diagnosis> per step:", m.group(1) if m else out[-300:])
    return 0
