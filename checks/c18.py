"""C18 -- a pipeline's meaning does not depend on session history; its SQL is reproducible.

T1  translate/c18_facts.py -> Gen/C18Facts.v   registry-access table, alias-lookup scoping, schema cache policy, schema lookup
                                               view, hash-name formula, Operation values + wrapper test, singleton/guards
Prf coq/props/C18.v   non-interference for every interleaving (C18.NonInterf), equivariance under renaming of fresh
                      values (C18.Equivar), reproducible text / history independence end to end (C18.Repro), append-only
                      registries, failed actions write nothing (C18.Registry); refutations of the full-strength statement
T3  (a) model tie: every step of every trace -- registries after the step, structure of the frame it binds (CTE list with
        branch/sequence classes and columns, which CTE each qualifier resolved to, uuid literals) -- implementation == model
    (b) history: P interleaved with H in ONE session vs P alone in a FRESH process: rows / names / error of P's actions;
        the model's prediction same|differs (computed in Coq) must agree
    (c) text: P alone in two more fresh processes with other PYTHONHASHSEEDs: df.sql() byte-identical (uuid literals and the
        CTE names that depend on them normalised only when uuid literals are present)
    (d) catalog.listTables()/listTables('*')/per-database listings before and after read-only actions
"""
from __future__ import annotations

import json
import os
import random
import re
import subprocess
from concurrent.futures import ThreadPoolExecutor

from vlib import core
from translate import c18_facts
from checks import c18_model as M
from checks import c18_gen as G

WORKER = os.path.join(core.VERIF, "checks", "c18_worker.py")
HDR = """From Coq Require Import List String ZArith Bool.
From SF Require Import C18.Session C18.Compile C18.Check.
From Gen Require Import C18Facts.
Import ListNotations.
Open Scope string_scope.
Definition check := check_trace gen_cfg.
"""
RID = re.compile(r"^r[0-9a-f]{32}$")
HASHNAME = re.compile(r"^t\d{4,9}$")


def canon_names(names):
    """a result column named after a CTE (an alias that captured a column identifier) carries a hash name: not compared"""
    if not isinstance(names, list):
        return names
    return ["<cte-hash-name>" if isinstance(n, str) and HASHNAME.match(n) else n for n in names]


FILES_DIR: list = []


def make_files():
    """the csv fixtures, in one directory per check run (the path is part of the SQL text that is compared across processes)"""
    import importlib.util
    import tempfile
    spec = importlib.util.spec_from_file_location("c18_worker_files", WORKER)
    mod = importlib.util.module_from_spec(spec)
    spec.loader.exec_module(mod)
    d = tempfile.mkdtemp(prefix="c18_files_", dir="/var/tmp")
    for k, v in mod.FILES.items():
        with open(os.path.join(d, k + ".csv"), "w") as f:
            f.write(v)
    FILES_DIR[:] = [d]
    return d


def drop_files():
    import shutil
    for d in FILES_DIR:
        shutil.rmtree(d, True)
    FILES_DIR[:] = []


def run_worker(trace, dump=False, hashseed="0", timeout=120):
    env = {k: v for k, v in os.environ.items() if k not in ("PYTHONPATH", "PYTHONHASHSEED")}
    env["PYTHONPATH"] = core.REPO
    env["PYTHONHASHSEED"] = str(hashseed)
    if FILES_DIR:
        env["C18_FILES"] = FILES_DIR[0]
    p = subprocess.run([core.PY, WORKER], input=json.dumps({"trace": trace, "dump": dump}), capture_output=True, text=True,
                       env=env, timeout=timeout)
    if p.returncode != 0:
        return {"crash": p.stderr[-1500:]}
    try:
        return json.loads(p.stdout.strip().splitlines()[-1])
    except Exception as ex:  # noqa
        return {"crash": f"unparsable worker output: {ex}: {p.stdout[-500:]}"}


def modelled(trace):
    return [st for st in trace if st["op"] not in ("tables", "union")]


def norm_where(s):
    """the order in which sqlglot nests AND is irrelevant: sort the qualifier list of the W: segment"""
    def fix(m):
        return "~W:" + ".".join(sorted(m.group(1).split("."))) + "~S:"
    return re.sub(r"~W:([^~]*)~S:", fix, s)


def p_observations(trace, res):
    """what P observed: per action of P (rows, names, ok/err class)"""
    out = []
    for st, ob in zip(trace, res["steps"]):
        if st["o"] != "P" or st["op"] not in M.ACTIONS:
            continue
        if st["op"] == "sqltext":
            out.append(("sqltext", "ok" if ob.get("ok") else "err:" + ob.get("err", "?")))
            continue
        if ob.get("ok"):
            rows = canon_names(ob.get("rows")) if st["op"] == "columns" else ob.get("rows")
            if st["op"] == "show" and isinstance(rows, str):
                rows = re.sub(r"t\d{4,9}\b", "<cte-hash-name>", rows)
                rows = re.sub(r"[-+]+\n", "\n", rows)
                rows = re.sub(r" +", " ", rows)
            out.append((st["op"], json.dumps(rows, default=str), json.dumps(canon_names(ob.get("names")))))
        else:
            out.append((st["op"], "err"))
    return out


def p_texts(trace, res):
    return [(ob.get("text"), ob.get("opt"), ob.get("nuuid"), ob.get("raw")) for st, ob in zip(trace, res["steps"])
            if st["o"] == "P" and st["op"] == "sqltext" and ob.get("ok")]


def join_order_only(a: str, b: str) -> bool:
    """two texts that differ only in the order of their JOIN clauses"""
    pa, pb = a.split(" JOIN "), b.split(" JOIN ")
    return a != b and pa[0] == pb[0] and sorted(pa[1:]) == sorted(pb[1:]) and len(pa) > 2


def stale_cache_shape(trace):
    """H registered a view name with some columns before P registers the same name with other columns and reads it"""
    cols = {}
    first = {}
    last_p = {}
    for st in trace:
        if "dst" in st and st["op"] == "create":
            cols[st["dst"]] = list(M.TBL_COLS[st["tbl"]])
        elif st["op"] in ("where", "alias"):
            cols[st["dst"]] = cols.get(st["src"])
        elif st["op"] == "select":
            cols[st["dst"]] = [c["c"] for c in st["cols"]]
        elif st["op"] == "view":
            c = cols.get(st["src"])
            first.setdefault(st["name"], (st["o"], c))
            if st["o"] == "P":
                last_p[st["name"]] = c
        elif st["op"] == "sql" and st["o"] == "P":
            v = st["view"]
            if v in first and first[v][0] == "H" and v in last_p and first[v][1] != last_p[v]:
                return True
    return False


# ---------------------------------------------------------------------------------------------------------------
# corpus: the situations the property text names, written out

def C(q, c):
    return {"q": q, "c": c}


def corpus():
    P, H = "P", "H"
    cases = []
    # 1 -- same alias name on both sides, shared source frame, self-join through the alias
    p = [{"o": P, "op": "create", "dst": "p0", "tbl": "T1"},
         {"o": P, "op": "alias", "dst": "p1", "src": "p0", "name": "x"},
         {"o": P, "op": "alias", "dst": "p2", "src": "p0", "name": "y"},
         {"o": P, "op": "join", "dst": "p3", "l": "p1", "r": "p2", "on": ["expr", C(["name", "x"], "a"), C(["name", "y"], "a")]},
         {"o": P, "op": "select", "dst": "p4", "src": "p3", "cols": [C(["name", "x"], "a"), C(["name", "y"], "b")]},
         {"o": P, "op": "collect", "src": "p4"}, {"o": P, "op": "sqltext", "src": "p4"}]
    h = [{"o": H, "op": "alias", "dst": "h0", "src": "p0", "name": "x"},
         {"o": H, "op": "alias", "dst": "h1", "src": "p0", "name": "y"},
         {"o": H, "op": "join", "dst": "h2", "l": "h0", "r": "h1", "on": ["expr", C(["name", "x"], "b"), C(["name", "y"], "b")]},
         {"o": H, "op": "collect", "src": "h2"}, {"o": H, "op": "schema", "src": "h2"},
         {"o": H, "op": "bad", "src": "h0", "kind": "alias_then_missing", "name": "x"}]
    cases.append(("alias-reuse+shared-source", p, h))
    # 2 -- the same view name, registered by H first with OTHER columns (stale schema cache)
    p = [{"o": P, "op": "create", "dst": "p0", "tbl": "T3"}, {"o": P, "op": "view", "src": "p0", "name": "v"},
         {"o": P, "op": "sql", "dst": "p1", "view": "v", "cols": None}, {"o": P, "op": "collect", "src": "p1"},
         {"o": P, "op": "sqltext", "src": "p1"}]
    h = [{"o": H, "op": "create", "dst": "h0", "tbl": "T1"}, {"o": H, "op": "view", "src": "h0", "name": "v"},
         {"o": H, "op": "sql", "dst": "h1", "view": "v", "cols": ["a"]}, {"o": H, "op": "collect", "src": "h1"}]
    cases.append(("view-reuse-other-columns", p, h))
    p2 = [dict(s) for s in p]
    p2[2] = {"o": P, "op": "sql", "dst": "p1", "view": "v", "cols": ["c", "e"]}
    cases.append(("view-reuse-other-columns-named", p2, h))
    # 3 -- the same view name with the SAME columns: must not matter
    h3 = [{"o": H, "op": "create", "dst": "h0", "tbl": "T3"}, {"o": H, "op": "where", "dst": "h1", "src": "h0", "col": C(None, "c"), "k": 1},
          {"o": H, "op": "view", "src": "h1", "name": "v"}, {"o": H, "op": "count", "src": "h1"}]
    cases.append(("view-reuse-same-columns", p, h3))
    # 4 -- failed actions and schema lookups before a self-join with df[...] references
    p = [{"o": P, "op": "create", "dst": "p0", "tbl": "T1"},
         {"o": P, "op": "where", "dst": "p1", "src": "p0", "col": C(None, "b"), "k": 2},
         {"o": P, "op": "join", "dst": "p2", "l": "p0", "r": "p1", "on": ["expr", C(["frame", "p0"], "a"), C(["frame", "p1"], "a")]},
         {"o": P, "op": "collect", "src": "p2"}, {"o": P, "op": "sqltext", "src": "p2"}]
    h = [{"o": H, "op": "create", "dst": "h0", "tbl": "T1"}, {"o": H, "op": "bad", "src": "h0", "kind": "missing_col"},
         {"o": H, "op": "bad", "src": "h0", "kind": "missing_view"}, {"o": H, "op": "bad", "src": "h0", "kind": "bad_join"},
         {"o": H, "op": "schema", "src": "h0"}, {"o": H, "op": "where", "dst": "h1", "src": "p0", "col": C(["frame", "p0"], "a"), "k": 0},
         {"o": H, "op": "join", "dst": "h2", "l": "p0", "r": "h1", "on": ["names", ["a"]]}, {"o": H, "op": "show", "src": "h2"}]
    cases.append(("failed-actions+schema+self-join", p, h))
    # 5 -- C01-style chain
    p = [{"o": P, "op": "create", "dst": "p0", "tbl": "T1"},
         {"o": P, "op": "select", "dst": "p1", "src": "p0", "cols": [C(None, "a"), C(None, "b")]},
         {"o": P, "op": "where", "dst": "p2", "src": "p1", "col": C(None, "a"), "k": 0},
         {"o": P, "op": "select", "dst": "p3", "src": "p2", "cols": [C(None, "b")]},
         {"o": P, "op": "collect", "src": "p3"}, {"o": P, "op": "sqltext", "src": "p3"}]
    cases.append(("chain", p, h))
    # 6 -- the history uses alias names that are column names of P's data, and P's own alias names
    h6 = [{"o": H, "op": "create", "dst": "h0", "tbl": "T1"}, {"o": H, "op": "alias", "dst": "h1", "src": "h0", "name": "a"},
          {"o": H, "op": "alias", "dst": "h2", "src": "h1", "name": "b"}, {"o": H, "op": "alias", "dst": "h3", "src": "h0", "name": "x"},
          {"o": H, "op": "collect", "src": "h2"}]
    cases.append(("history-alias-is-column-name", p, h6))
    p7 = [{"o": P, "op": "create", "dst": "p0", "tbl": "T1"}, {"o": P, "op": "create", "dst": "p1", "tbl": "T2"},
          {"o": P, "op": "alias", "dst": "p2", "src": "p0", "name": "x"},
          {"o": P, "op": "join", "dst": "p3", "l": "p2", "r": "p1", "on": ["expr", C(["name", "x"], "a"), C(["frame", "p1"], "a")]},
          {"o": P, "op": "select", "dst": "p4", "src": "p3", "cols": [C(["name", "x"], "b"), C(["frame", "p1"], "c")]},
          {"o": P, "op": "collect", "src": "p4"}, {"o": P, "op": "sqltext", "src": "p4"}]
    cases.append(("history-alias-is-P-alias", p7, h6))
    # 8 -- the history mirrors P: same source frames, same shape, alias names swapped between the inputs
    p8 = [{"o": P, "op": "create", "dst": "p0", "tbl": "T1"}, {"o": P, "op": "create", "dst": "p1", "tbl": "T2"},
          {"o": P, "op": "alias", "dst": "p2", "src": "p0", "name": "x"}, {"o": P, "op": "alias", "dst": "p3", "src": "p1", "name": "y"},
          {"o": P, "op": "join", "dst": "p4", "l": "p2", "r": "p3", "on": ["expr", C(["name", "x"], "a"), C(["name", "y"], "a")]},
          {"o": P, "op": "select", "dst": "p5", "src": "p4", "cols": [C(["name", "x"], "a"), C(["name", "y"], "a")]},
          {"o": P, "op": "collect", "src": "p5"}, {"o": P, "op": "sqltext", "src": "p5"}]
    cases.append(("mirror-alias-names-swapped", p8, G.mirror_history(random.Random(0), p8), ("after",)))
    # 9 -- the history registered P's view name first: same columns in another order / a superset / a subset;
    #      P reads its own registration with * and with explicit columns
    p9 = [{"o": P, "op": "create", "dst": "p0", "tbl": "T1"}, {"o": P, "op": "view", "src": "p0", "name": "v"},
          {"o": P, "op": "sql", "dst": "p1", "view": "v", "cols": None}, {"o": P, "op": "collect", "src": "p1"},
          {"o": P, "op": "sql", "dst": "p2", "view": "v", "cols": ["b", "a"]}, {"o": P, "op": "collect", "src": "p2"},
          {"o": P, "op": "where", "dst": "p3", "src": "p1", "col": C(None, "a"), "k": 1}, {"o": P, "op": "collect", "src": "p3"},
          {"o": P, "op": "sqltext", "src": "p1"}]
    for nm, tbl, sel in (("order", "T4", None), ("superset", "T5", None), ("subset", "T4", ["b"])):
        h9 = [{"o": H, "op": "create", "dst": "h0", "tbl": tbl}]
        src = "h0"
        if sel:
            h9.append({"o": H, "op": "select", "dst": "h1", "src": "h0", "cols": [C(None, c) for c in sel]})
            src = "h1"
        h9 += [{"o": H, "op": "view", "src": src, "name": "v"}, {"o": H, "op": "sql", "dst": "h2", "view": "v", "cols": None},
               {"o": H, "op": "collect", "src": "h2"}]
        cases.append(("view-name-first-registered-" + nm, p9, h9, ("before",)))
    # 10 -- other work DERIVES frames from P's join / filter / alias frames (sharing source data); P then uses its frames
    p10 = [{"o": P, "op": "create", "dst": "p0", "tbl": "T1"}, {"o": P, "op": "create", "dst": "p1", "tbl": "T2"},
           {"o": P, "op": "join", "dst": "p2", "l": "p0", "r": "p1", "on": ["names", ["a"]]},
           {"o": P, "op": "where", "dst": "p3", "src": "p0", "col": C(None, "b"), "k": 2},
           {"o": P, "op": "alias", "dst": "p4", "src": "p0", "name": "x"},
           {"o": P, "op": "collect", "src": "p2"}, {"o": P, "op": "collect", "src": "p3"}, {"o": P, "op": "collect", "src": "p4"},
           {"o": P, "op": "sqltext", "src": "p2"}]
    h10 = [{"o": H, "op": "where", "dst": "h0", "src": "p2", "col": C(None, "c"), "k": 10}, {"o": H, "op": "collect", "src": "h0"},
           {"o": H, "op": "where", "dst": "h1", "src": "p3", "col": C(None, "a"), "k": 1}, {"o": H, "op": "count", "src": "h1"},
           {"o": H, "op": "where", "dst": "h2", "src": "p4", "col": C(["name", "x"], "a"), "k": 1}, {"o": H, "op": "collect", "src": "h2"},
           {"o": H, "op": "select", "dst": "h3", "src": "p2", "cols": [C(None, "c")]}, {"o": H, "op": "collect", "src": "h3"}]
    cases.append(("history-derives-from-P-frames", p10, h10, ("after",)))
    return cases


def ext_corpus(rnd):
    """situations over the wider alphabet (outside the Coq model): compared between runs only; all are in the property's domain"""
    P, H = "P", "H"
    out = []
    # E1 -- earlier reads with chained reader options / format, then an unrelated plain read
    h = [{"o": H, "op": "csv", "dst": "h0", "file": "F3", "chain": [["option", "header", False]]}, {"o": H, "op": "collect", "src": "h0"},
         {"o": H, "op": "csv", "dst": "h1", "file": "F1", "chain": [["options", {"skip": 1, "all_varchar": True}]]}, {"o": H, "op": "collect", "src": "h1"},
         {"o": H, "op": "csv", "dst": "h2", "file": "F3", "chain": [["format", "csv"]], "kw": "load"}, {"o": H, "op": "count", "src": "h2"}]
    p = [{"o": P, "op": "csv", "dst": "p0", "file": "F1", "chain": []}, {"o": P, "op": "collect", "src": "p0"},
         {"o": P, "op": "columns", "src": "p0"},
         {"o": P, "op": "csv", "dst": "p1", "file": "F3", "chain": [], "kw": {"header": True}}, {"o": P, "op": "collect", "src": "p1"},
         {"o": P, "op": "sqltext", "src": "p0"}]
    out.append(("reader-options-before-unrelated-read", p, h, "before"))
    # E1b -- ONE reader object kept by P and also used by other work for another file (reads must not leave anything on it)
    p = [{"o": P, "op": "reader", "dst": "pr0", "chain": [["option", "header", True]]},
         {"o": P, "op": "csv", "dst": "p0", "file": "F1", "reader": "pr0", "chain": []}, {"o": P, "op": "collect", "src": "p0"},
         {"o": P, "op": "columns", "src": "p0"}, {"o": P, "op": "sqltext", "src": "p0"}]
    h = [{"o": H, "op": "csv", "dst": "h0", "file": "F3", "reader": "pr0", "chain": []}, {"o": H, "op": "collect", "src": "h0"},
         {"o": H, "op": "csv", "dst": "h1", "file": "F3", "reader": "pr0", "chain": [], "kw": {"skip": 1, "header": False}},
         {"o": H, "op": "count", "src": "h1"}]
    out.append(("kept-reader-object-used-by-other-work", p, p[:1] + h + p[1:], "given"))
    # E2 -- a view registered from an aliased frame, read through session.table by other work that filters it
    p = [{"o": P, "op": "create", "dst": "p0", "tbl": "T1"}, {"o": P, "op": "alias", "dst": "p1", "src": "p0", "name": "x"},
         {"o": P, "op": "view", "src": "p1", "name": "tv"},
         {"o": P, "op": "table", "dst": "p2", "view": "tv"}, {"o": P, "op": "collect", "src": "p2"},
         {"o": P, "op": "sql", "dst": "p3", "view": "tv", "cols": None}, {"o": P, "op": "collect", "src": "p3"},
         {"o": P, "op": "collect", "src": "p1"}]
    h = [{"o": H, "op": "table", "dst": "h0", "view": "tv"}, {"o": H, "op": "where", "dst": "h1", "src": "h0", "col": C(None, "a"), "k": 1},
         {"o": H, "op": "collect", "src": "h1"},
         {"o": H, "op": "api", "dst": "h2", "src": "h0", "name": "orderBy", "args": {"cols": ["b"]}}, {"o": H, "op": "collect", "src": "h2"}]
    out.append(("view-read-through-session.table-by-other-work", p[:3] + h + p[3:], None, "given"))
    out[-1] = ("view-read-through-session.table-by-other-work", p, p[:3] + h + p[3:], "given")
    # E3 -- other work derives frames with the wider API from P's join / filter / alias / union frames
    p = [{"o": P, "op": "create", "dst": "p0", "tbl": "T1"}, {"o": P, "op": "create", "dst": "p1", "tbl": "T2"},
         {"o": P, "op": "join", "dst": "p2", "l": "p0", "r": "p1", "on": ["names", ["a"]]},
         {"o": P, "op": "where", "dst": "p3", "src": "p0", "col": C(None, "b"), "k": 2},
         {"o": P, "op": "union", "dst": "p4", "l": "p0", "r": "p0"},
         {"o": P, "op": "collect", "src": "p2"}, {"o": P, "op": "collect", "src": "p3"}, {"o": P, "op": "collect", "src": "p4"},
         {"o": P, "op": "sqltext", "src": "p2"}]
    h = G.touch_steps(rnd, "p2", ["a", "b", "c"], True, 60) + G.touch_steps(rnd, "p3", ["a", "b"], True, 70) \
        + G.touch_steps(rnd, "p4", ["a", "b"], True, 80)
    out.append(("wide-api-derivations-from-P-frames", p, p[:5] + h + p[5:], "given"))
    # E4 -- other work constructs / configures "a session" with ANOTHER connection while P's session is live; P's rows are
    #       compared across all actions (collect/count/show go through the cursor, toPandas through the connection)
    pa = [{"o": P, "op": "mktable", "name": "tt"}, {"o": P, "op": "table", "dst": "p0", "view": "tt"},
          {"o": P, "op": "where", "dst": "p1", "src": "p0", "col": C(None, "k"), "k": 1}, {"o": P, "op": "collect", "src": "p0"}]
    pb = [{"o": P, "op": "collect", "src": "p1"}, {"o": P, "op": "count", "src": "p1"}, {"o": P, "op": "topandas", "src": "p1"},
          {"o": P, "op": "toarrow", "src": "p1"}, {"o": P, "op": "show", "src": "p0"}, {"o": P, "op": "topandas", "src": "p0"},
          {"o": P, "op": "create", "dst": "p2", "tbl": "T1"}, {"o": P, "op": "topandas", "src": "p2"}, {"o": P, "op": "collect", "src": "p2"}]
    for how in ("ctor", "builder", "plain"):
        h = [{"o": H, "op": "newsession", "how": how, "name": "tt"}, {"o": H, "op": "create", "dst": "h0", "tbl": "T2"},
             {"o": H, "op": "collect", "src": "h0"}]
        out.append(("other-work-opens-session-with-another-connection:" + how, pa + pb, pa + h + pb, "given"))
    return out


def tables_cases():
    """catalog listings around read-only actions"""
    P = "P"
    out = []
    for act in ("collect", "count", "show", "columns", "sqltext", "schema"):
        tr = [{"o": P, "op": "create", "dst": "p0", "tbl": "T1"},
              {"o": P, "op": "where", "dst": "p1", "src": "p0", "col": C(None, "a"), "k": 0},
              {"o": P, "op": "view", "src": "p1", "name": "keepme"},
              {"o": P, "op": "tables"}, {"o": P, "op": act, "src": "p1"}, {"o": P, "op": "tables"},
              {"o": P, "op": act, "src": "p0"}, {"o": P, "op": "tables"}]
        out.append((act, tr))
    return out


# ---------------------------------------------------------------------------------------------------------------

def run(ctx: core.Ctx):
    make_files()
    try:
        _run(ctx)
    finally:
        drop_files()


def _run(ctx: core.Ctx):
    try:
        text, facts = c18_facts.generate(core.REPO)
        ctx.gen("C18Facts", text, facts)
        t1_ok = True
    except Exception as ex:  # noqa
        ctx.broken("T1:c18_facts", f"{type(ex).__name__}: {ex}")
        t1_ok = False
        ctx.gen("C18Facts", open(core.VERIF + "/translate/c18_facts_pinned.v").read())
        facts = []
    ctx.prove([ctx.build + "/gen/C18Facts.v"] + ([core.COQ + "/props/C18.v"] if t1_ok else []),
              dep_theories=["C18/Session.v", "C18/Compile.v", "C18/Facts.v", "C18/NonInterf.v", "C18/Registry.v", "C18/Equivar.v",
                            "C18/Repro.v", "C18/Statement.v", "C18/Check.v"])
    fact = {f["name"]: f.get("value") for f in facts}
    aia = fact.get("schema cache add-if-absent", True)

    # what PySpark 3.5.9 does in the situations of the two findings (recorded by oracle/record_c18.py)
    try:
        pyspark = json.load(open(os.path.join(core.VERIF, "oracle", "c18_pyspark.json")))
        if pyspark["reregistered_view_select_star"]["columns"] != ["c", "d", "e"] \
                or pyspark["listTables_before_schema"] != pyspark["listTables_after_schema"]:
            ctx.broken("spec-conformance", "the PySpark recording contradicts the property's reading (latest registration of a view "
                       "name wins; df.schema leaves nothing in the catalog)", data=pyspark)
    except OSError:
        pyspark = None
    rnd = random.Random(ctx.seed)
    quick = ctx.tier == "quick"
    n_hist = 40 if quick else 400
    n_solo = 14 if quick else 250

    # ---- cases -------------------------------------------------------------------------------------------
    cases = []   # dict(kind, p, h, trace)
    for entry in corpus():
        name, p, h = entry[:3]
        for mode in (entry[3] if len(entry) > 3 else ("before", "mix")):
            if mode in ("before", "after"):
                # H before P -- or, when it reads P's frames, right after the prefix of P that binds them
                tr = G.after_reads(p, h)
            else:
                tr = G.interleave(rnd, p, h, "mix")
            cases.append({"kind": "corpus:" + name, "mode": mode, "p": p, "trace": tr})
    for name, p, h, mode in ext_corpus(rnd):
        tr = (h + p) if mode == "before" else h
        cases.append({"kind": "ext:" + name, "mode": "ext", "p": p, "trace": tr, "ext": True})
    hist_len, hist_ops = {}, {}
    n_mirror = 0
    for i in range(n_hist):
        p, info = G.gen_program(rnd, rnd.randint(2, 6), "P", actions=rnd.choice([1, 2]))
        hm = G.mirror_history(rnd, p) if n_mirror < 8 else None
        if hm:
            # other work of the same shape over the same source frames with the alias names permuted
            p = G.creates_first(p)
            cases.append({"kind": "random-mirror", "mode": "after", "p": p, "trace": G.after_reads(p, hm)})
            n_mirror += 1
            continue
        mode = rnd.choice(["before", "mix", "mix", "mix"])
        h, _ = G.gen_program(rnd, rnd.randint(1, 7), "H", info=dict(info) if mode != "before" else {},
                             allow_peer=(mode != "before"), actions=rnd.choice([0, 1]))
        tr = G.interleave(rnd, p, h, mode)
        # other work that derives (and executes) new frames from the frame P is about to act on
        acted = [st["src"] for st in p if st["op"] == "collect"]
        if acted and rnd.random() < 0.6 and info.get(acted[-1], {}).get("cols"):
            tr = G.insert_before_actions(tr, acted[-1], G.touch_steps(rnd, acted[-1], info[acted[-1]]["cols"], False, 90))
        cases.append({"kind": "random", "mode": mode, "p": p, "trace": tr})
    n_ext_solo = 10 if quick else 120
    ext_kinds = {}
    for i in range(n_ext_solo):
        p, k = G.gen_ext_program(rnd)
        ext_kinds[k] = ext_kinds.get(k, 0) + 1
        cases.append({"kind": "ext-solo:" + k, "mode": "solo", "p": p, "trace": p, "ext": True})
    try:
        for tr in json.load(open(os.path.join(core.VERIF, "checks", "c18_corpus.json"))):
            cases.append({"kind": "solo-corpus", "mode": "solo", "p": tr, "trace": tr})
    except OSError:
        pass
    for i in range(n_solo):
        p, _ = G.gen_program(rnd, rnd.randint(3, 10), "P", actions=1)
        cases.append({"kind": "solo", "mode": "solo", "p": p, "trace": p})
    for c in cases:
        hist_len[len(c["trace"])] = hist_len.get(len(c["trace"]), 0) + 1
        for st in c["trace"]:
            k = st["o"] + ":" + st["op"]
            hist_ops[k] = hist_ops.get(k, 0) + 1

    # ---- run the implementation ---------------------------------------------------------------------------
    jobs = []
    for ci, c in enumerate(cases):
        jobs.append((ci, "hist", c["trace"], not c.get("ext"), "0"))
        if c["mode"] != "solo":
            jobs.append((ci, "alone0", c["p"], False, "0"))
            jobs.append((ci, "alone1", c["p"], False, str(1 + (ctx.seed + ci) % 4000000)))
        else:
            jobs.append((ci, "alone1", c["p"], False, str(1 + (ctx.seed + ci) % 4000000)))
    for act, tr in tables_cases():
        jobs.append((act, "tables", tr, False, "0"))

    def do(job):
        ci, tag, tr, dump, hs = job
        return ci, tag, run_worker(tr, dump=dump, hashseed=hs)
    with ThreadPoolExecutor(max_workers=8) as ex:
        results = list(ex.map(do, jobs))
    by = {}
    for ci, tag, res in results:
        by.setdefault(ci, {})[tag] = res
    n_proc = len(jobs)
    ctx.log(f"{len(cases)} cases, {n_proc} worker processes")

    # ---- the model on the same traces (Coq) -----------------------------------------------------------------
    mod_idx = [i for i, c in enumerate(cases) if not c.get("ext")]
    items = [M.trace_coq(modelled(cases[i]["trace"])) for i in mod_idx]
    mres_m = ctx.cases("c18", HDR, items, per_file=12, result_ty="str", fn="check")
    mres = [None] * len(cases)
    for i, r_ in zip(mod_idx, mres_m):
        mres[i] = r_
    for i, c in enumerate(cases):
        if c.get("ext"):
            # outside the model's alphabet: no step tie; the property's verdict on the syntactic domain stands in
            ind = G.py_independent(c["trace"])
            mres[i] = "$" + ("same,independent,scoped" if ind else "unknown,dependent,unscoped")

    n_steps_cmp = n_tie_bad = n_engine_err = n_captured = 0
    n_hist_cmp = n_same = n_diff_known = n_legit_dep = 0
    n_text_cmp = n_text_uuid = 0
    nontriv = 0
    tie_bad = []
    for ci, (c, mr) in enumerate(zip(cases, mres)):
        r = by.get(ci, {})
        hist = r.get("hist", {})
        if "crash" in hist or mr is None:
            ctx.broken("T3:worker", f"case {ci} ({c['kind']}): {hist.get('crash', 'model evaluation failed')[:300]}",
                       data={"trace": c["trace"]})
            continue
        body, verdict = mr.rsplit("$", 1)
        same_pred, indep, scoped = verdict.split(",")
        msteps = body.split("@") if body else []
        tr_m = modelled(c["trace"]) if not c.get("ext") else []
        impl_steps = [ob for st, ob in zip(c["trace"], hist["steps"]) if st["op"] not in ("tables", "union")]
        # (a) model tie, step by step
        outside = False
        for k, (st, ob, ms) in enumerate(zip(tr_m, impl_steps, msteps)):
            n_steps_cmp += 1
            is_ = norm_where(M.impl_step_str(st, ob))
            ms = norm_where(ms)
            if is_ == ms:
                continue
            if "^" in ms.split("#")[1] and "~J:~" not in ms.split("#")[1] and is_.split("#")[0] == ms.split("#")[0]:
                # an alias name that equals a column name captured a column identifier (the column becomes a struct named by a
                # CTE hash -- a defect of another property); how such names are disambiguated in a join is outside the model
                n_captured += 1
                outside = True
                break
            if is_.rsplit("#", 1)[0] == ms.rsplit("#", 1)[0] and is_.endswith("#err") and ms.endswith("#ok"):
                # the engine rejects the query for a reason outside the model (ambiguous column, ...): nothing more to tie
                n_engine_err += 1
                outside = True
                break
            if is_.split("#")[0].rsplit(" e", 1)[0] == ms.split("#")[0].rsplit(" e", 1)[0] and is_.endswith("#err") and ms.endswith("#ok") \
                    and st["op"] == "schema":
                n_engine_err += 1
                outside = True
                break
            n_tie_bad += 1
            tie_bad.append({"case": ci, "kind": c["kind"], "step": k, "step_json": st, "impl": is_, "model": ms,
                            "impl_error": ob.get("msg"), "trace": c["trace"][:k + 1]})
            break
        # (b) history independence
        if c["mode"] != "solo":
            alone = r.get("alone0", {})
            if "crash" in alone:
                ctx.broken("T3:worker", f"case {ci} alone: {alone['crash'][:300]}", data={"trace": c["p"]})
                continue
            n_hist_cmp += 1
            o_hist = p_observations(c["trace"], hist)
            o_alone = p_observations(c["p"], alone)
            impl_same = o_hist == o_alone
            if any(x[0] not in ("sqltext", "columns") and len(x) > 2 and x[1] not in ("[]", "0") for x in o_alone):
                nontriv += 1
            desc = {"kind": c["kind"], "mode": c["mode"], "trace": c["trace"], "program": c["p"],
                    "P_observed_with_history": o_hist, "P_observed_alone_in_fresh_process": o_alone,
                    "model_predicts": same_pred, "model_domain": [indep, scoped],
                    "pyspark_3.5.9_recording": pyspark and pyspark.get("reregistered_view_select_star"),
                    "property": "rows/names/errors of P's actions must be the same with and without the other work"}
            if impl_same:
                n_same += 1
                if same_pred == "differs" and not outside:
                    ctx.broken("T3:impl-vs-model", "the model predicts that the history changes P's observations but the "
                               "implementation's are unchanged", data=[desc])
            elif same_pred == "unknown":
                n_legit_dep += 1
            elif scoped != "scoped":
                # P reads a view the other work registered last: a dependency PySpark has as well -- only tied to the model
                n_legit_dep += 1
                if same_pred == "same" and not outside:
                    ctx.broken("T3:impl-vs-model", "history changes P's observations where the model predicts none "
                               "(trace outside the property's domain)", data=[desc])
            else:
                if stale_cache_shape(c["trace"]) and same_pred == "differs":
                    n_diff_known += 1
                    sig = "C18/stale-schema-cache:view-name-first-registered-by-history-with-other-columns"
                else:
                    sig = "C18/history-changes-result:" + c["kind"].split(":")[0] + ":" + \
                          ("outside-the-model" if c.get("ext") else "model-agrees" if same_pred == "differs" else "model-disagrees")
                ctx.deviation(sig, "P's observations differ between 'interleaved with other work in the same session' and "
                              "'alone in a fresh process'", desc)
                if same_pred == "same" and not outside and not c.get("ext"):
                    ctx.broken("T3:impl-vs-model", "history changes P's observations where the model predicts none", data=[desc])
            if indep == "independent" and same_pred != "same":
                ctx.broken("theorem-vs-evaluation", "an independent trace on which the model itself evaluates to 'differs'", data=[desc])
            ctx.sample({"kind": c["kind"], "mode": c["mode"], "steps": len(c["trace"]), "verdict": verdict, "impl_same": impl_same})
        # (c) reproducible text across fresh processes with different hash seeds
        a0 = r.get("alone0") if c["mode"] != "solo" else hist
        a1 = r.get("alone1", {})
        if a0 and "crash" not in a0 and "crash" not in a1:
            src_tr = c["p"]
            t0 = p_texts(src_tr, a0)
            t1 = p_texts(src_tr, a1)
            n_text_cmp += 1
            o0, o1 = p_observations(src_tr, a0), p_observations(src_tr, a1)
            if o0 != o1:
                ctx.deviation("C18/fresh-processes-observe-differently", "the same program in two fresh processes (different "
                              "PYTHONHASHSEED) returns different rows/errors", {"program": src_tr, "a": o0, "b": o1})
            for (x0, p0, u0, raw0), (x1, p1, u1, raw1) in zip(t0, t1):
                if u0 or u1:
                    n_text_uuid += 1
                bad = (x0 != x1) or (p0 != p1) or (u0 != u1) or (not u0 and raw0 != raw1)
                if bad and x0 == x1 and u0 == u1 and u0 and isinstance(p0, str) and isinstance(p1, str) \
                        and join_order_only(p0, p1):
                    ctx.deviation("C18/optimized-sql-text:join-order-depends-on-random-cte-names",
                                  "df.sql() (optimize=True) of a program that joins a DataFrame with relatives of itself lists its "
                                  "JOINs in a different order in two fresh processes (the unoptimised text is identical up to the "
                                  "uuid literals)",
                                  {"program": src_tr, "optimized_a": p0, "optimized_b": p1, "unoptimized_normalised": x0,
                                   "uuid_literals": [u0, u1]})
                    break
                if bad or len(t0) != len(t1):
                    ctx.deviation("C18/sql-text-not-reproducible:" + ("with-uuid-literals" if u0 or u1 else "no-uuid-literals"),
                                  "df.sql() of the same program differs between two fresh processes",
                                  {"program": src_tr, "text_a": x0, "text_b": x1, "optimized_a": p0, "optimized_b": p1,
                                   "uuid_literals": [u0, u1]})
                    break
    if tie_bad:
        ctx.log("tie mismatches by step kind: " + json.dumps({k: sum(1 for t in tie_bad if t["step_json"]["op"] == k)
                                                               for k in {t["step_json"]["op"] for t in tie_bad}}))
        for t in tie_bad[:3]:
            ctx.log("  impl : " + t["impl"][:400])
            ctx.log("  model: " + t["model"][:400])
        ctx.broken("T3:impl-vs-model", f"{n_tie_bad} traces where a step's registries/frame structure differ between implementation "
                   f"and model; first: step {tie_bad[0]['step']} {json.dumps(tie_bad[0]['step_json'])}", data=tie_bad[:5])

    # (d) catalog listings around read-only actions
    n_tab = n_tab_leak = 0
    for act, tr in tables_cases():
        res = by.get(act, {}).get("tables", {})
        if "crash" in res:
            ctx.broken("T3:worker", f"tables case {act}: {res['crash'][:300]}")
            continue
        reps = [ob.get("rows") for st, ob in zip(tr, res["steps"]) if st["op"] == "tables"]
        if any(r_ is None for r_ in reps):
            ctx.broken("T3:catalog-listing", f"catalog listing raised around {act}", data=res["steps"])
            continue
        n_tab += 1
        for before, after in zip(reps, reps[1:]):
            if before == after:
                continue
            new = sorted(set(after["all_dbs"]) - set(before["all_dbs"])) + sorted(set(after["star"]) - set(before["star"])) \
                + sorted(set(after["default"]) - set(before["default"]))
            n_tab_leak += 1
            if act == "schema" and new and all(RID.match(x) for x in new):
                sig = "C18/schema-lookup-leaves-temp-view:catalog-lists-r<uuid>-view"
            else:
                sig = f"C18/read-only-action-leaves-object:{act}"
            ctx.deviation(sig, f"catalog listings differ before and after the read-only action `{act}`",
                          {"action": act, "trace": tr, "before": before, "after": after, "new_objects": new,
                           "property": "read-only actions leave no objects behind that the catalog API reports",
                           "pyspark_3.5.9_recording": pyspark and {k: pyspark[k] for k in ("listTables_before_schema", "listTables_after_schema")}})
            break
        # the model's prediction for the schema lookup
        if act == "schema":
            leaked = any(b != a for b, a in zip(reps, reps[1:]))
            drops = fact.get("schema lookup drops its temporary view", False)
            if leaked == bool(drops):
                ctx.broken("T3:impl-vs-model", f"schema lookup: model (drops_view={drops}) and catalog listing (changed={leaked}) disagree")
        elif any(b != a for b, a in zip(reps, reps[1:])):
            ctx.broken("T3:impl-vs-model", f"read-only action {act} changes the catalog listing; the model says it writes nothing")

    # (e) thorough tier: a live history on the Spark-backed session (two reads of one path with different options, then P acts
    #     on its first frame) against P alone in a fresh process
    spark_live = "not run (quick tier)"
    if ctx.tier != "quick":
        spark_live = spark_history(ctx)
    ctx.coverage.update({
        "spark_live_history": spark_live,
        "evaluations": n_steps_cmp + n_hist_cmp + n_text_cmp + n_tab,
        "distinct_nontrivial": nontriv,
        "rule": "case = (program P, history H, interleaving) executed in one DuckDBSession, P alone in a fresh process, P alone in a "
                "second fresh process with another PYTHONHASHSEED; non-trivial = P has an action returning rows; programs over 4 tables "
                "with NULLs/duplicates: create/select/where/alias/join (expression and name joins, self-joins, df[...] and alias "
                "qualifiers)/createOrReplaceTempView/session.sql/actions/schema lookups/raising actions; H shares P's frames, alias "
                "names {x,y,a,v} and view names {v,w}",
        "steps_tied_to_model": n_steps_cmp, "traces_with_engine_error_outside_model": n_engine_err,
        "steps_where_model_and_implementation_differ": n_tie_bad,
        "traces_left_at_a_join_over_captured_identifiers": n_captured,
        "history_comparisons": n_hist_cmp, "history_same": n_same, "history_differs_known_shape": n_diff_known,
        "history_differs_outside_domain(view last registered by the other work)": n_legit_dep,
        "text_comparisons": n_text_cmp, "text_comparisons_with_uuid_literals": n_text_uuid,
        "catalog_listing_cases": n_tab, "catalog_listing_changed": n_tab_leak,
        "worker_processes": n_proc,
        "histogram_trace_length": dict(sorted(hist_len.items())), "histogram_owner_op": dict(sorted(hist_ops.items())),
        "histogram_kind": {k: sum(1 for c in cases if c["kind"].split(":")[0] == k) for k in ("corpus", "ext", "random", "random-mirror", "ext-solo", "solo-corpus", "solo")},
        "histogram_ext_solo_kind": ext_kinds,
    })
    ctx.assumptions += [
        "uuid4 freshness: random ids / uuid literals are pairwise distinct and never equal a user-written name (oracle hypothesis "
        "`jointly_injective` of the theorems; atoms of different kinds are distinct by typing)",
        "crc32-prefix CTE names are collision-free within one query (the model names a CTE by the text that was hashed); the worker "
        "checks distinctness of CTE names in every frame it dumps",
        "the model names a CTE by the text of its leaf SELECT; the implementation hashes the text including the WITH clause",
        "DuckDB's result does not depend on CTE names, VALUES aliases or the value of a `'u' = 'u'` literal (observer invariance "
        "hypothesis of C18_rows), validated by the T3 runs",
        "engine-side rejections of a query (ambiguous column, ...) are outside the model; they are compared between runs but not predicted",
        "catalog reports are taken through listTables(), listTables(pattern='*') and listTables(db) for every listDatabases() entry",
    ]
    ctx.trusted += ["translate/c18_facts.py (fail-closed ast translator)", "checks/c18_worker.py, c18_gen.py, c18_model.py (harness)",
                    "CPython subprocess isolation for 'fresh session'"]


def spark_history(ctx):
    sw = os.path.join(core.VERIF, "checks", "c18_spark_worker.py")
    env = {k: v for k, v in os.environ.items() if k not in ("PYTHONPATH",)}
    env["PYTHONPATH"] = core.REPO
    env["PYSPARK_PYTHON"] = core.PY

    def one(hist):
        try:
            p = subprocess.run([core.PY, sw], input=json.dumps({"history": hist}), capture_output=True, text=True, env=env, timeout=420)
        except subprocess.TimeoutExpired:
            return None
        for line in p.stdout.splitlines():
            if line.startswith("@@"):
                return json.loads(line[2:])
        return None
    with ThreadPoolExecutor(max_workers=2) as ex:
        alone, hist = list(ex.map(one, [False, True]))
    if alone is None or hist is None:
        ctx.log("live Spark history not available (no JVM / pyspark did not start): skipped")
        return "skipped: the Spark session did not start"
    obs = lambda o: {k: o.get(k) for k in ("rows", "count", "columns", "error")}  # noqa
    if obs(alone) != obs(hist):
        ctx.deviation("C18/history-changes-result:spark-reader:second-read-of-the-same-path",
                      "on the Spark-backed session a frame read from a file changes (or fails) after other work read the same path "
                      "with other options",
                      {"engine": "spark", "program": "p = session.read.load(path, format='csv', header=True, nullValue='b'); p.collect()",
                       "history": "session.read.load(path, format='csv', header=True); session.read.load(path, format='csv', header=False)",
                       "P_observed_with_history": obs(hist), "P_observed_alone_in_fresh_process": obs(alone)})
        return "differs"
    return "same"


def replay(ctx, rp):
    r = rp.get("replay") or rp
    if "trace" in r and "program" in r:
        a = run_worker(r["trace"])
        b = run_worker(r["program"])
        print("P with history :", p_observations(r["trace"], a))
        print("P alone (fresh):", p_observations(r["program"], b))
        return 0
    if "trace" in r:
        res = run_worker(r["trace"])
        for st, ob in zip(r["trace"], res.get("steps", [])):
            print(json.dumps(st), "->", json.dumps(ob)[:400])
        return 0
    if "program" in r:
        for hs in ("0", "777"):
            res = run_worker(r["program"], hashseed=hs)
            print("PYTHONHASHSEED", hs, p_texts(r["program"], res))
        return 0
    print(json.dumps(r, indent=1)[:3000])
    return 0
