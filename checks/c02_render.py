"""C02: running a case on the implementation, observing the lineage ids the implementation attached, and rendering
the case as a Coq term of type C02.Check.jcase."""
from __future__ import annotations

from vlib import rel
from vlib.core import strlit, listlit, boollit, natlit
from . import c02_cases as cc


# ---- input frames of DataFrame descriptions (own 3VL evaluator; independent of the implementation) ------------

def _ev(e, cols, row):
    k = e[0]
    if k == "ref":
        assert e[1][0] == "name", "only bare names inside a derived input"
        return row[cols.index(e[1][1])]
    if k == "lit":
        return e[1]
    if k == "bin":
        a, b = _ev(e[2], cols, row), _ev(e[3], cols, row)
        op = e[1]
        if op == "And":
            return False if (a is False or b is False) else (None if (a is None or b is None) else True)
        if op == "Or":
            return True if (a is True or b is True) else (None if (a is None or b is None) else False)
        if op == "NullSafeEq":
            return a == b
        if a is None or b is None:
            return None
        return {"Eq": a == b, "Neq": a != b, "Lt": a < b, "Le": a <= b, "Gt": a > b, "Ge": a >= b}[op] \
            if op in ("Eq", "Neq", "Lt", "Le", "Gt", "Ge") else {"Add": a + b, "Sub": a - b, "Mul": a * b}[op]
    if k == "not":
        a = _ev(e[1], cols, row)
        return None if a is None else (not a)
    if k == "isnull":
        return _ev(e[1], cols, row) is None
    raise ValueError(e)


def df_frame(d, data):
    """(cols, rows) denoted by a DF description"""
    if d[0] == "base":
        return cc.df_cols(d), [tuple(r) for r in cc.DATA[data][d[1]]]
    cols, rows = df_frame(d[1], data)
    if d[0] == "alias":
        return cols, rows
    if d[0] == "limit":
        assert d[2] >= len(rows), "limit below the row count is not deterministic"
        return cols, rows
    if d[0] == "where":
        return cols, [r for r in rows if _ev(d[2], cols, r) is True]
    if d[0] == "proj":
        idx = [cols.index(c) for c in d[2]]
        return list(d[2]), [tuple(r[i] for i in idx) for r in rows]
    if d[0] == "sel":
        return [o for _, o in d[2]], [tuple(_ev(e, cols, r) for e, _ in d[2]) for r in rows]
    raise ValueError(d)


# ---- implementation ------------------------------------------------------------------------------------------------

def run_impl(case, session, F, order_seed=None):
    """((cols, rows), None) or (None, 'ExcClass: text')"""
    b = cc.Builder(session, F, case["data"], order_seed=order_seed)
    try:
        df = b.final(case)
        return cc.observe(df), None
    except Exception as ex:  # canonicalised: any exception = "raises"
        return None, f"{type(ex).__name__}: {str(ex)[:160]}"


class Ids:
    """branch / sequence ids -> small naturals (one namespace, as in session.known_ids)"""

    def __init__(self):
        self.m = {}

    def __call__(self, s):
        if s not in self.m:
            self.m[s] = len(self.m) + 1
        return self.m[s]


def frozen_ctes(df, as_left: bool):
    """the CTEs the implementation has for this DataFrame when it enters a join (left: after the @operation wrapper;
    right: after other._convert_leaf_to_cte()).  Pure observation: _convert_leaf_to_cte returns a copy."""
    from sqlframe.base.operations import Operation
    if not as_left:
        return list(df._convert_leaf_to_cte().expression.ctes)
    last = df.last_op
    if last == Operation.INIT:
        df = df._convert_leaf_to_cte()
        last = Operation.NO_OP
    if Operation.FROM < last or (last == Operation.FROM == Operation.SELECT):
        df = df._convert_leaf_to_cte()
    return list(df.expression.ctes)


def observe_lineage(case, session, F, builder=None, self_exact=False, rename_in_place=False):
    """What the Coq model takes as given: per table the (branch, seq) of the CTEs it brings, per join whether both sides
    have the same branch id, per df-reference the branch id and the `uo` bit, per alias the sequence ids registered.
    `builder`: the Builder that ran the case (its DataFrame objects are the ones observed); a fresh one otherwise."""
    b = builder or cc.Builder(session, F, case["data"])
    ids = Ids()
    out = {"tables": [], "same_branch": [], "known": [], "stale": [], "right_uuid": [], "self_exact": self_exact,
           "objs": b, "ids": ids, "error": None}
    try:
        left = b.df(case["left"])
        stages = getattr(b, "stages", None) or [left]
        segs = [frozen_ctes(left, True)]
        tnames = [segs[0][-1].alias_or_name]         # names of the FROM/JOIN tables so far
        existing = {c.alias_or_name for c in segs[0]}  # names of all CTEs of the left expression
        for i, st in enumerate(case["steps"]):
            r = b.df(st["right"])
            segs.append(frozen_ctes(r, False))
            # other_df.latest_cte_name as join() sees it: _add_ctes_to_expression renames the FIRST colliding CTE in place
            # (visible through other_df), but works on transformed COPIES of the following ones -- their old names stay in other_df
            rname = segs[-1][-1].alias_or_name
            earlier_collision = any(c.alias_or_name in existing for c in segs[-1][:-1])
            out["stale"].append(tnames.index(rname) if (rname in tnames and earlier_collision and not rename_in_place) else None)
            if i + 1 < len(stages):
                js = stages[i + 1].expression.args.get("joins") or []
                tnames.append(js[-1].this.alias_or_name if len(js) > i else "?")
                existing = {c.alias_or_name for c in stages[i + 1].expression.ctes}
            else:
                tnames.append("?")
            cur = stages[i] if i < len(stages) else None
            if cur is None:
                # the chain could not be built this far (join() raised): lineage of a join result = lineage of its left side
                cur = stages[-1]
            out["same_branch"].append(cur.branch_id == r.branch_id)
            out["known"].append((set(cur.known_uuids), set(r.known_uuids)))
            out["right_uuid"].append(r.join_on_uuid)
        for seg in segs:
            out["tables"].append([(ids(c.args["branch_id"]), ids(c.args["sequence_id"])) for c in seg])
    except Exception as ex:
        out["error"] = f"{type(ex).__name__}: {ex}"
    # only ids that occur in this expression can be found by normalize.py; the session-wide registry keeps growing
    out["alias_seq"] = {a: [ids.m[s] for s in seqs if s in ids.m]
                        for a, seqs in session.name_to_sequence_id_mapping.items()}
    return out


# ---- Coq rendering ---------------------------------------------------------------------------------------------------

def positions(case):
    """DF description key -> position in the join chain (first occurrence).  An intermediate frame (a proper ancestor of
    exactly one table of the chain, not a table itself) denotes that table: PySpark follows the attribute through
    where / limit / alias / select-by-name."""
    pos = {}
    tabs = [case["left"]] + [s["right"] for s in case["steps"]]
    for i, d in enumerate(tabs):
        pos.setdefault(cc.key(d), i)
    anc = {}
    for i, d in enumerate(tabs):
        x = d
        while x[0] != "base":
            x = x[1]
            if x[0] != "base":
                anc.setdefault(cc.key(x), set()).add(i)
    for k, owners in anc.items():
        if k not in pos and len(owners) == 1:
            pos[k] = next(iter(owners))
    return pos


def alias_positions(case):
    pos = {}
    for i, d in enumerate([case["left"]] + [s["right"] for s in case["steps"]]):
        x = d
        while x[0] != "base":
            if x[0] == "alias":
                pos.setdefault(x[2], i)
            x = x[1]
    return pos


def ref_coq(r, case, lin, step_i):
    if r[0] == "name":
        return f"(RName {strlit(r[1])})"
    if r[0] == "df":
        t = positions(case).get(cc.key(r[1]))
        if t is None:
            raise ValueError("reference through a DataFrame that is not a table of the chain")
        if lin.get("spec_only"):
            return f"(RDf {natlit(t)} 0%nat false {strlit(r[2])})"
        obj = lin["objs"].df(r[1])
        uo = False
        if step_i is not None and step_i < len(lin.get("known", [])):
            kl, kr = lin["known"][step_i]
            uo = obj.join_on_uuid in (kr - kl)
            if lin.get("self_exact") and step_i < len(lin.get("right_uuid", [])):
                # (regenerated fact) a reference taken from the very DataFrame being joined goes to the right table as well
                uo = uo or obj.join_on_uuid == lin["right_uuid"][step_i]
        return f"(RDf {natlit(t)} {natlit(lin['ids'](obj.branch_id))} {boollit(uo)} {strlit(r[2])})"
    if r[0] == "alias":
        t = alias_positions(case).get(r[1])
        if t is None:
            raise ValueError("unknown alias")
        sq = lin["alias_seq"].get(r[1].lower(), [])
        return f"(RAlias {natlit(t)} {listlit([natlit(s) for s in sq])} {strlit(r[2])})"
    raise ValueError(r)


def ue_coq(e, case, lin, step_i):
    k = e[0]
    if k == "ref":
        return f"(UCol {ref_coq(e[1], case, lin, step_i)})"
    if k == "lit":
        return f"(ULit {rel.val_coq(e[1])})"
    if k == "bin":
        return f"(UBin {e[1]} {ue_coq(e[2], case, lin, step_i)} {ue_coq(e[3], case, lin, step_i)})"
    if k == "not":
        return f"(UNot {ue_coq(e[1], case, lin, step_i)})"
    if k == "isnull":
        return f"(UIsNull {ue_coq(e[1], case, lin, step_i)})"
    raise ValueError(e)


def on_coq(on, case, lin, i):
    if on is None:
        return "OnNone"
    if on[0] == "names":
        return f"(OnNames {listlit([strlit(k) for k in on[1]])})"
    return f"(OnExprs {listlit([ue_coq(e, case, lin, i) for e in on[1]])})"


def ctes_coq(seg, tab):
    items = []
    for n, (br, sq) in enumerate(seg):
        t = f"(Some {natlit(tab)})" if n == len(seg) - 1 else "None"
        items.append(f"(mkCm {natlit(br)} {natlit(sq)} {t})")
    return listlit(items)


BASE_ID = {"A": 1, "B": 2, "C": 3, "D": 4}


def base_of(d):
    return natlit(BASE_ID[cc.df_base(d)])


def frame_of(d, data):
    cols, rows = df_frame(d, data)
    return rel.frame_coq(cols, rows)


def ue_plain(e):
    """a condition inside an input DataFrame (bare names only) as a vlib.rel expression descriptor"""
    k = e[0]
    if k == "ref":
        assert e[1][0] == "name"
        return ("col", e[1][1])
    if k == "lit":
        return ("lit", e[1])
    if k == "bin":
        return ("bin", e[1], ue_plain(e[2]), ue_plain(e[3]))
    if k == "not":
        return ("not", ue_plain(e[1]))
    if k == "isnull":
        return ("isnull", ue_plain(e[1]))
    raise ValueError(e)


def df_wheres(d):
    """all WHERE conjuncts a DataFrame description carries down to its base table (as Coq expr terms)"""
    if d[0] == "base":
        return []
    inner = df_wheres(d[1])
    return ([rel.e_coq(ue_plain(d[2]))] + inner) if d[0] == "where" else inner


def expected_table_wheres(case):
    return listlit([listlit(sorted(df_wheres(d))) for d in [case["left"]] + [s["right"] for s in case["steps"]]])


def dummy_lineage(case):
    """for terms that are only given to the Spark spec (which ignores the implementation's lineage ids)"""
    return {"tables": [], "same_branch": [], "alias_seq": {}, "spec_only": True}


def case_coq(case, lin, impl, exported="None", spec_only=False, table_wheres="None"):
    """impl: (cols, rows) | None; exported: Coq term of type option exported; table_wheres: option (list (list expr))"""
    tabs = lin["tables"] or [[] for _ in range(len(case["steps"]) + 1)]
    while len(tabs) < len(case["steps"]) + 1:
        tabs.append([])
    steps = []
    for i, st in enumerate(case["steps"]):
        sb = lin["same_branch"][i] if i < len(lin["same_branch"]) else False
        stale = lin["stale"][i] if i < len(lin.get("stale", [])) else None
        steps.append(f"(mkStep {frame_of(st['right'], case['data'])} {base_of(st['right'])} {ctes_coq(tabs[i + 1], i + 1)} "
                     f"{on_coq(st['on'], case, lin, i)} {strlit(st['how'])} {boollit(sb)} "
                     f"{'None' if stale is None else '(Some ' + natlit(stale) + ')'})")
    fin = case.get("fin")
    if fin is None:
        fin_t = "FNone"
    elif fin[0] == "rename":
        fin_t = f"(FRename {strlit(fin[1])} {strlit(fin[2])})"
    elif fin[0] == "where":
        fin_t = f"(FWhere {ue_coq(fin[1], case, lin, None)})"
    else:
        fin_t = "(FSelect " + listlit([f"({ue_coq(e, case, lin, None)}, {strlit(o)})" for e, o in fin[1]]) + ")"
    return (f"(mkJCase {frame_of(case['left'], case['data'])} {base_of(case['left'])} {ctes_coq(tabs[0], 0)} {listlit(steps)} {fin_t} "
            f"{obs_coq(impl)} {exported} {table_wheres} {expected_table_wheres(case)})")


def obs_coq(obs):
    if obs is None:
        return "None"
    cols, rows = obs
    return f"(Some ({listlit([strlit(c) for c in cols])}, {listlit([rel.row_coq(r) for r in rows])}))"


# ---- printing ------------------------------------------------------------------------------------------------------------

def df_str(d):
    if d[0] == "base":
        return d[1]
    if d[0] == "where":
        return f"{df_str(d[1])}.where({ue_str(d[2])})"
    if d[0] == "alias":
        return f"{df_str(d[1])}.alias('{d[2]}')"
    if d[0] == "proj":
        return f"{df_str(d[1])}.select({', '.join(map(repr, d[2]))})"
    if d[0] == "limit":
        return f"{df_str(d[1])}.limit({d[2]})"
    if d[0] == "sel":
        return f"{df_str(d[1])}.select(" + ", ".join(f"{ue_str(e)} as {o}" for e, o in d[2]) + ")"
    return str(d)


def ue_str(e):
    k = e[0]
    if k == "ref":
        r = e[1]
        return f"col('{r[1]}')" if r[0] == "name" else (f"{df_str(r[1])}['{r[2]}']" if r[0] == "df" else f"col('{r[1]}.{r[2]}')")
    if k == "lit":
        return repr(e[1])
    if k == "bin":
        sym = {"Eq": "==", "Neq": "!=", "Lt": "<", "Le": "<=", "Gt": ">", "Ge": ">=", "And": "&", "Or": "|",
               "NullSafeEq": "<=>", "Add": "+", "Sub": "-", "Mul": "*"}[e[1]]
        return f"({ue_str(e[2])} {sym} {ue_str(e[3])})"
    if k == "not":
        return f"~{ue_str(e[1])}"
    if k == "isnull":
        return f"{ue_str(e[1])}.isNull()"
    return str(e)


def on_str(on):
    if on is None:
        return "None"
    if on[0] == "names":
        return repr(on[1][0]) if on[2] else repr(list(on[1]))
    es = [ue_str(e) for e in on[1]]
    return "[" + ", ".join(es) + "]" if on[2] else es[0]


def case_str(case):
    s = df_str(case["left"])
    for st in case["steps"]:
        s += f".join({df_str(st['right'])}, on={on_str(st['on'])}, how='{st['how']}')"
    fin = case.get("fin")
    if fin:
        if fin[0] == "where":
            s += f".where({ue_str(fin[1])})"
        elif fin[0] == "rename":
            s += f".withColumnRenamed('{fin[1]}', '{fin[2]}')"
        else:
            s += ".select(" + ", ".join(f"{ue_str(e)} as {o}" for e, o in fin[1]) + ")"
    return s + f"  [{case['data']}]"
