"""C02 -- joins return PySpark's rows and PySpark's output column list.

T1  translate/c02_facts.py -> Gen/C02Facts.v   (JOIN_TYPE_MAPPING + the literals join() / _resolve_ambiguous_columns compare with)
Prf coq/props/C02.v        -> how_total on the regenerated table (18 documented spellings -> 7 kinds, with the flags of the kind),
                              C02_partial (model join chain == PySpark's join chain: same kind, ON, select list => same columns and
                              rows for every table content), join laws under 3VL, refutation witnesses for the known defects
T2  the sqlglot tree the implementation built (join kinds, ON, WHERE, select list) == the model's state   (per program, all data)
T3  df.columns + collect() on DuckDB == model == Coq Spark spec                                              (per program x data)
    + the Coq Spark spec is validated against column lists AND rows recorded from PySpark 3.5.9 (oracle/c02_pyspark.jsonl)
"""
from __future__ import annotations

import json
import logging
import os
import random

from vlib import core, rel
from vlib.core import strlit, listlit
from translate import c02_facts
from . import c02_cases as cc
from . import c02_gen as gen
from . import c02_render as rd

HEADER = """From SF Require Import C02.Check.
From Gen Require Import C02Facts.
Open Scope string_scope.
Definition check := Check.check gen_cfg.
"""

PINNED_SELF_EXACT = (True, True)   # (_handle_self_join rule, in-place rename) of the pinned source (used only when T1 fails)

DEPS = ["Base/Val.v", "Base/Expr.v", "Base/Sort.v", "Sql/Block.v", "C02/Join.v", "C02/How.v", "C02/Model.v",
        "C02/Proof.v", "C02/Check.v"]

ENGINE_KIND = {(None, None): "JInner", (None, "inner"): "JInner", (None, "cross"): "JCross",
               ("left", None): "JLeft", ("left", "outer"): "JLeft", ("right", None): "JRight", ("right", "outer"): "JRight",
               ("full", None): "JFull", ("full", "outer"): "JFull", (None, "semi"): "JSemi", ("left", "semi"): "JSemi",
               (None, "anti"): "JAnti", ("left", "anti"): "JAnti"}


# ---- T2: export the tree the implementation built -------------------------------------------------------------------

def qn(i, n):
    return "'" * i + "." + n


def export_tree(df, exp):
    """(joins, where, select) of df.expression as a Coq term of type C02.Check.exported; raises rel.NotExportable"""
    e = df.expression
    if not isinstance(e, exp.Select):
        raise rel.NotExportable("not a SELECT")
    for k, v in e.args.items():
        if v and k not in ("expressions", "from", "joins", "where", "with", "kind", "hint"):
            raise rel.NotExportable(f"select arg {k}")
    frm = e.args["from"].this
    joins = e.args.get("joins") or []
    if not isinstance(frm, exp.Table) or any(not isinstance(j.this, exp.Table) for j in joins):
        raise rel.NotExportable("FROM/JOIN operand is not a table")
    tabs = [frm.alias_or_name] + [j.this.alias_or_name for j in joins]
    if len(set(tabs)) != len(tabs):
        raise rel.NotExportable("a table is joined twice under one name")
    cte_cols = {c.alias_or_name: c.this.named_selects for c in e.ctes}
    for t in tabs:
        if t not in cte_cols:
            raise rel.NotExportable(f"table {t} is not a CTE of the expression")

    def q(node):
        node = node.copy()
        root = exp.Paren(this=node)          # so that a bare Column can be replaced
        for col in list(root.find_all(exp.Column)):
            if isinstance(col.this, exp.Star):
                raise rel.NotExportable("star")
            if col.table:
                if col.table not in tabs:
                    raise rel.NotExportable(f"column qualified by {col.table}, which is not in FROM")
                i = tabs.index(col.table)
            else:
                cands = [i for i, t in enumerate(tabs) if col.name in cte_cols[t]]
                if len(cands) != 1:
                    raise rel.NotExportable(f"unqualified column {col.name} is in {len(cands)} tables")
                i = cands[0]
            col.replace(exp.column(qn(i, col.name)))
        return rel.x_expr(root.this, exp)

    js = []
    for j in joins:
        for k, v in j.args.items():
            if v and k not in ("this", "on", "side", "kind"):
                raise rel.NotExportable(f"join arg {k}")
        side, kind = j.args.get("side") or None, j.args.get("kind") or None
        key = (side.lower() if side else None, kind.lower() if kind else None)
        if key not in ENGINE_KIND:
            raise rel.NotExportable(f"join words {key}")
        on = j.args.get("on")
        js.append(f"({ENGINE_KIND[key]}, {'None' if on is None else '(Some ' + q(on) + ')'})")
    where = e.args.get("where")
    wh = [q(where.this)] if where is not None else []
    sel = []
    for it in e.expressions:
        if isinstance(it, exp.Alias):
            sel.append(f"({q(it.this)}, {strlit(it.alias)})")
        elif isinstance(it, exp.Column):
            sel.append(f"({q(it)}, {strlit(it.name)})")
        else:
            raise rel.NotExportable(f"select item {type(it).__name__}")
    return f"({listlit(js)}, {listlit(wh)}, {listlit(sel)})"


def _is_dummy(n, exp):
    """the `'<uuid hex>' = '<uuid hex>'` predicate _add_ctes_to_expression adds to make a duplicated CTE's hash unique"""
    while isinstance(n, exp.Paren):
        n = n.this
    return (isinstance(n, exp.EQ) and isinstance(n.this, exp.Literal) and isinstance(n.expression, exp.Literal)
            and n.this.is_string and n.expression.is_string and n.this.this == n.expression.this)


def export_table_wheres(df, exp):
    """per FROM/JOIN table: every WHERE conjunct of the chain of CTEs the table is built from (sorted Coq terms).
    This is where a filter lost or gained while CTEs of a common ancestor are merged/renamed becomes visible."""
    e = df.expression
    ctes = {c.alias_or_name: c.this for c in e.ctes}
    frm = e.args["from"].this
    tabs = [frm.alias_or_name] + [j.this.alias_or_name for j in (e.args.get("joins") or [])]
    out = []
    for t in tabs:
        conj, name, seen = [], t, set()
        while name in ctes and name not in seen:
            seen.add(name)
            sel = ctes[name]
            if not isinstance(sel, exp.Select):
                raise rel.NotExportable("CTE is not a SELECT")
            w = sel.args.get("where")
            f = sel.args.get("from")
            derived = f is not None and isinstance(f.this, exp.Table)
            if w is not None:
                for c in rel.flatten_and(w.this, exp):
                    # the createDataFrame block of an empty table is `... FROM VALUES ... WHERE FALSE`: not a user filter
                    if not _is_dummy(c, exp) and (derived or not isinstance(c, exp.Boolean)):
                        conj.append(rel.x_expr(c, exp))
            name = f.this.alias_or_name if derived else None
        out.append(listlit(sorted(conj)))
    return listlit(out)


# ---- one case on the implementation -----------------------------------------------------------------------------------

def run_case(case, session, F, exp, order_seed=None):
    b = cc.Builder(session, F, case["data"], order_seed=order_seed)
    impl, exc, exported, why, twh = None, None, "None", None, "None"
    df = None
    try:
        df = b.final(case)
    except Exception as ex:
        exc = f"{type(ex).__name__}: {str(ex)[:160]}"
    if df is not None:
        try:
            exported = "(Some " + export_tree(df, exp) + ")"
            twh = "(Some " + export_table_wheres(df, exp) + ")"
        except rel.NotExportable as ne:
            why = str(ne)
        except Exception as ex:  # fail-closed: any surprise in the exporter counts as not exportable
            why = f"{type(ex).__name__}: {ex}"
        try:
            impl = cc.observe(df)
        except Exception as ex:
            exc = f"{type(ex).__name__}: {str(ex)[:160]}"
    return impl, exc, (exported, twh), why, b


def _work(arg):
    """worker process: run a chunk of cases on the implementation and render them as Coq terms"""
    chunk, order_seed, (self_exact, in_place) = arg
    logging.disable(logging.WARNING)     # join() logs a warning for every `on=None`
    from sqlframe.duckdb import DuckDBSession
    import sqlframe.duckdb.functions as F
    from sqlglot import expressions as exp
    session = DuckDBSession()
    try:
        session._conn.execute("PRAGMA threads=1")
    except Exception:
        pass
    out = []
    for case in chunk:
        impl, exc, (exported, twh), why, b = run_case(case, session, F, exp, order_seed)
        lin = rd.observe_lineage(case, session, F, b, self_exact=self_exact, rename_in_place=in_place)
        try:
            term = rd.case_coq(case, lin, impl, exported, table_wheres=twh)
            err = None
        except Exception as ex:
            term, err = None, f"{type(ex).__name__}: {ex}"
        out.append({"term": term, "render_error": err, "impl": impl, "exc": exc, "exported": exported != "None", "why": why,
                    "lineage_error": lin.get("error")})
    return out


def run_cases_parallel(cases, workers=6, order_seed=None, self_exact=(False, False)):
    from concurrent.futures import ProcessPoolExecutor
    n = max(1, (len(cases) + workers * 4 - 1) // (workers * 4))
    chunks = [(cases[i:i + n], order_seed, self_exact) for i in range(0, len(cases), n)]
    with ProcessPoolExecutor(max_workers=workers) as ex:
        res = list(ex.map(_work, chunks))
    return [r for ch in res for r in ch]


def describe(case, impl, exc, r, extra=None):
    d = {"program": rd.case_str(case), "case": case,
         "tables": {t: {"schema": cc.schema_str(t), "rows": cc.DATA[case["data"]][t]} for t in sorted(
             {cc.df_base(x) for x in [case["left"]] + [s["right"] for s in case["steps"]]})},
         "implementation": ({"columns": impl[0], "rows": sorted(impl[1], key=repr)} if impl else {"raised": exc}),
         "verdict(impl=model,impl=spec,model=spec,in_domain,impl_raised,model_rejects,spec_rejects,t2)": r}
    if extra:
        d.update(extra)
    return d


def same_answer(impl, rec):
    """implementation's (columns, rows) against a recorded PySpark answer: same column list, same bag of rows"""
    if impl is None:
        return False
    return list(impl[0]) == list(rec["cols"]) and sorted(map(repr, (tuple(r) for r in impl[1]))) == sorted(
        map(repr, (tuple(r) for r in rec["rows"])))


def size_of(case):
    return (len(case["steps"]), 0 if case.get("fin") is None else 1, 0 if case["data"] == "std" else 1,
            sum(1 for s in case["steps"] if s["on"] is None), 0 if case.get("shape") == "independent" else 1,
            len(json.dumps(case)))


def run(ctx: core.Ctx):
    logging.disable(logging.WARNING)     # join() logs a warning for every `on=None`
    # ---- T1
    try:
        text, facts = c02_facts.generate(core.REPO)
        ctx.gen("C02Facts", text, facts)
        t1_ok = True
        self_exact = (bool([f_ for f_ in facts if f_["name"].startswith("_handle_self_join")][0]["value"]),
                      bool([f_ for f_ in facts if f_["name"].startswith("renamed duplicate CTEs")][0]["value"]))
    except Exception as ex:
        ctx.broken("T1:c02_facts", f"{type(ex).__name__}: {ex}")
        t1_ok = False
        self_exact = PINNED_SELF_EXACT
        ctx.gen("C02Facts", open(core.VERIF + "/translate/c02_facts_pinned.v").read())
    # ---- proofs
    proved = ctx.prove([ctx.build + "/gen/C02Facts.v"] + ([core.COQ + "/props/C02.v"] if t1_ok else []), dep_theories=DEPS)
    # ---- T2/T3
    # The PROGRAMS are drawn from a fixed seed (the one oracle/c02_pyspark.jsonl was recorded with), so that every run is
    # judged by the same recorded PySpark answers; VERIF_SEED varies the row order of the input tables (results are bags).
    cases = gen.gen_cases(random.Random(gen.PROGRAM_SEED), ctx.tier)
    # recordings: key -> PySpark's answer
    rec_path = os.path.join(core.VERIF, "oracle", "c02_pyspark.jsonl")
    recs = []
    if os.path.exists(rec_path):
        for line in open(rec_path):
            try:
                recs.append(json.loads(line))
            except ValueError:
                ctx.log("skipping an incomplete line of the recording (recorder still running?)")
    rec_by_key = {cc.key({x: r["case"][x] for x in ("left", "steps", "fin", "data")}): r["result"] for r in recs}

    items, metas = [], []
    hist = {"shape": {}, "chain_length": {}, "kind": {}, "on_form": {}, "fin": {}, "data": {}, "how_spelling": {}}
    n_raise = n_unexportable = 0
    unexport_why = {}

    def bump(h, k):
        hist[h][k] = hist[h].get(k, 0) + 1

    ctx.log(f"running {len(cases)} cases on the implementation")
    results = run_cases_parallel(cases, workers=8, order_seed=ctx.seed, self_exact=self_exact)
    for case, w in zip(cases, results):
        if w["term"] is None:
            ctx.broken("harness:render", f"{w['render_error']} on {rd.case_str(case)}")
            continue
        if w["lineage_error"] and not any(b_["name"] == "harness:lineage" for b_ in ctx.brokens):
            ctx.broken("harness:lineage", f"{w['lineage_error']} on {rd.case_str(case)}")
        impl, why = w["impl"], w["why"]
        impl = (impl[0], [tuple(x) for x in impl[1]]) if impl else None
        items.append(w["term"])
        metas.append({"case": case, "impl": impl, "exc": w["exc"], "exported": w["exported"], "why": why})
        n_raise += impl is None
        if impl is not None and not w["exported"]:
            n_unexportable += 1
            unexport_why[why] = unexport_why.get(why, 0) + 1
        bump("shape", case.get("shape", "?"))
        bump("chain_length", len(case["steps"]))
        bump("fin", "none" if case.get("fin") is None else case["fin"][0])
        bump("data", case["data"])
        for s in case["steps"]:
            bump("kind", str(cc.kind_of(s["how"])))
            bump("on_form", "none" if s["on"] is None else s["on"][0] + ("/str" if s["on"][0] == "names" and s["on"][2] else "")
                 + ("/list" if s["on"][0] == "exprs" and s["on"][2] else ""))
            bump("how_spelling", s["how"])
    ctx.log(f"{len(items)} cases ({n_raise} raised, {n_unexportable} not exportable)")
    res = ctx.cases("c02", HEADER, items, per_file=120, result_ty="str", fn="check")

    n_dom = n_t2 = n_nontriv = n_spec_rejects = n_rec_judged = 0
    model_fail, t2_fail, dom_fail = [], [], []
    best = {}          # signature -> smallest deviating case
    n_dev = 0
    for it, m, r in zip(items, metas, res):
        if r is None or len(r) != 8:
            continue
        im, isp, ms, dom, raised, mrej, srej, t2 = (ch == "1" for ch in r)
        case = m["case"]
        n_dom += dom
        n_t2 += t2
        key = cc.key({x: case[x] for x in ("left", "steps", "fin", "data")})
        rec = rec_by_key.get(key)
        desc = describe(case, m["impl"], m["exc"], r)
        if rec is not None:
            desc["pyspark_3.5.9"] = rec
        # judge: PySpark's own recorded answer when this case is in the recording, the Coq Spark spec otherwise
        if rec is not None:
            n_rec_judged += 1
            outside = "error" in rec
            deviates = (not outside) and not same_answer(m["impl"], rec)
        else:
            outside = srej
            deviates = (not outside) and not isp
        if outside:
            n_spec_rejects += 1          # PySpark produces no DataFrame here: outside the property
        elif deviates:
            n_dev += 1
            sig = gen.signature(case, raised)
            if sig not in best or size_of(case) < size_of(best[sig][0]):
                best[sig] = (case, desc, it)
        elif not im:
            model_fail.append(desc)
        elif m["exported"] and not t2:
            t2_fail.append(desc)
        if dom and not ms:
            dom_fail.append(desc)
        # non-trivial: the data has NULL / duplicate keys (every non-empty variant has), the observed or recorded result is
        # non-empty and is not just the left input again
        ans = m["impl"] or ((rec["cols"], [tuple(x) for x in rec["rows"]]) if rec is not None and "error" not in rec else None)
        if ans is not None and ans[1]:
            lcols, lrows = rd.df_frame(case["left"], case["data"])
            if sorted(map(repr, (tuple(x) for x in ans[1]))) != sorted(map(repr, lrows)):
                n_nontriv += 1
        if len(ctx.samples) < 5 and len(case["steps"]) >= 2 and im and isp:
            ctx.sample({"program": rd.case_str(case), "verdict": r})
    for sig, (case, desc, it) in sorted(best.items()):
        desc["coq_case"] = it
        ctx.deviation(sig, "df.columns / collect() of the joined DataFrame differ from PySpark's", desc)
    if model_fail:
        ctx.broken("T3:impl-vs-model", f"{len(model_fail)} cases where the implementation agrees with the Spark spec but not with "
                   f"the model; first: {model_fail[0]['program']}", data=model_fail[:5])
    if t2_fail:
        ctx.broken("T2:tree-vs-model", f"{len(t2_fail)} programs whose exported join tree differs from the model's state; "
                   f"first: {t2_fail[0]['program']}", data=t2_fail[:5])
    if proved and dom_fail:
        ctx.broken("theorem-vs-evaluation", f"{len(dom_fail)} cases inside chain_dom where model and spec evaluate differently; "
                   f"first: {dom_fail[0]['program']}", data=dom_fail[:5])

    # ---- spec conformance: the Coq Spark spec against PySpark 3.5.9's recorded column lists and rows
    n_rec = n_rec_bad = n_rec_err = n_rec_err_spec_accepts = n_rec_abstain = 0
    if recs:
        ritems, rmeta = [], []
        for r in recs:
            case = r["case"]
            res_ = r["result"]
            obs = None if "error" in res_ else (res_["cols"], [tuple(x) for x in res_["rows"]])
            try:
                ritems.append(rd.case_coq(case, rd.dummy_lineage(case), obs, "None", spec_only=True))
                rmeta.append(r)
            except Exception as ex:
                ctx.broken("harness:render-recording", f"{type(ex).__name__}: {ex}")
        ctx.log(f"{len(ritems)} recorded PySpark answers to compare with the Coq Spark spec")
        rres = ctx.cases("c02rec", HEADER, ritems, per_file=160, result_ty="str", fn="check_spec")
        bad, accepts = [], {}
        for r, v in zip(rmeta, rres):
            if v is None or len(v) != 8:
                continue
            n_rec += 1
            if "error" in r["result"]:
                n_rec_err += 1
                if v[7] != "1":
                    n_rec_err_spec_accepts += 1
                    import re as _re
                    k = r["result"]["error"] + ": " + _re.sub(r"[#o]\d+L?", "#", r["result"].get("text", ""))[:60]
                    accepts[k] = accepts.get(k, 0) + 1
            elif v[7] == "1":
                n_rec_abstain += 1       # the spec rejects conservatively (self-join through DataFrame references, hidden columns)
            elif v[2] != "1":
                n_rec_bad += 1
                bad.append({"program": rd.case_str(r["case"]), "pyspark": r["result"], "verdict": v})
        if bad:
            ctx.broken("spec-conformance", f"{len(bad)} recorded PySpark answers differ from the Coq Spark spec; first: "
                       f"{bad[0]['program']}", data=bad[:5])
        if accepts:
            ctx.broken("spec-conformance:accepts-what-pyspark-rejects", f"{n_rec_err_spec_accepts} recorded programs that PySpark "
                       f"rejects are accepted by the Coq Spark spec: {sorted(accepts)[:3]}")
        ctx.coverage["pyspark_rejections_the_spec_does_not_model"] = accepts
    else:
        ctx.broken("spec-conformance", "oracle/c02_pyspark.jsonl is missing")

    ctx.coverage.update({
        "evaluations": len(items), "distinct_nontrivial": n_nontriv,
        "rule": "case = (join program, data variant); programs: every (lineage pair) x 27 spellings (18 documented + 9 case variants) "
                "x 6 on-forms, collision-free pairs, eqNullSafe / non-equi conditions, every kind x on-form followed by 6 select/where "
                "shapes, random left-deep chains of 2..3 joins (+ select/where) over 5 tables; data variants with duplicate keys, "
                "NULL keys, an empty side; non-trivial = the (implementation's, else PySpark's recorded) result is non-empty and is not the "
                "left input's bag of rows again; distinct by (program, data)",
        "programs": len(cases), "in_theorem_domain": n_dom, "t2_tree_equals_model": n_t2,
        "t2_not_exportable": n_unexportable, "t2_not_exportable_reasons": unexport_why,
        "impl_raised": n_raise, "deviations_impl_vs_spec": n_dev, "deviation_signatures": sorted(best),
        "spark_rejects_program(outside property)": n_spec_rejects, "deviations_also_judged_by_recording": n_rec_judged,
        "generated_cases_in_recording": sum(1 for m in metas if cc.key({x: m['case'][x] for x in ('left', 'steps', 'fin', 'data')}) in rec_by_key),
        "histogram_shape": hist["shape"], "histogram_chain_length": hist["chain_length"], "histogram_kind": hist["kind"],
        "histogram_on_form": hist["on_form"], "histogram_final_op": hist["fin"], "histogram_data": hist["data"],
        "histogram_how_spelling": hist["how_spelling"],
        "pyspark_recordings_checked": n_rec, "pyspark_recordings_disagree": n_rec_bad,
        "pyspark_recordings_error": n_rec_err, "pyspark_error_but_spec_accepts": n_rec_err_spec_accepts,
        "pyspark_ok_but_spec_abstains": n_rec_abstain,
    })
    ctx.assumptions += [
        "C02.Join.join is my definition of the SQL join of two bags under a 3-valued ON (validated against DuckDB by T3 and "
        "against PySpark 3.5.9 recordings)",
        "C02.How.parse_join_type / engine_kind: how sqlglot 26.14 reads the join-type words and what DuckDB executes for them",
        "C02.How.spark_kind: Spark 3.5 JoinType.apply (lower-case, drop '_'); C02.Model.sp_join: Dataset.join's output attributes "
        "(USING joins: keys first; right outer takes the right key; full outer coalesces) -- validated against the recordings",
        "lineage ids (branch_id, sequence_id, join_on_uuid membership) are OBSERVED on the implementation's objects and given to the "
        "model; how they propagate through copy()/alias() is not modelled",
        "DuckDB resolves `t.c` on a CTE with two columns named c to the first one (only used outside the theorem's domain)",
        "a reference through a DataFrame (df['c']) means, for PySpark, the column of that DataFrame; cases where PySpark itself "
        "rejects the program (ambiguous self-join) are outside the property",
    ]


def replay(ctx, rp):
    logging.disable(logging.WARNING)
    r = rp.get("replay") or (rp.get("no_longer_checks") or [{}])[0].get("data", [{}])[0]
    case = r["case"]
    from sqlframe.duckdb import DuckDBSession
    import sqlframe.duckdb.functions as F
    session = DuckDBSession()
    print("program:", rd.case_str(case))
    b = cc.Builder(session, F, case["data"])
    try:
        df = b.final(case)
        print("sql:", df.sql(optimize=False, pretty=False))
        cols, rows = cc.observe(df)
        print("columns:", cols)
        for row in sorted(rows, key=repr):
            print("  ", row)
    except Exception as ex:
        print("raised:", type(ex).__name__, str(ex)[:300])
    for k in ("pyspark_3.5.9", "pyspark", "expected"):
        if k in r:
            print(k + ":", json.dumps(r[k])[:2000])
    return 0
