"""C16 / T3 implementation side: the REAL sqlframe calls, one process per engine.

usage:  python -m checks.c16_runner <engine>   < request.json   > answers.json
request = {"names": ["c", ...], "vectors": [{"id": int, "fname": str, "args": [...]}]}

The engine's own session class is made the process-wide session (sqlframe's session is a singleton that every
function reads through `_BaseSession()`).  Standalone and DuckDB sessions are constructed normally.  The other
engines' `__init__` only import a database driver and open a connection, which is irrelevant for building
expressions: a subclass whose `__init__` runs `_BaseSession.__init__` with a stub connection is used, so the
engine's `_is_<engine>` flag, its Builder dialect defaults and everything else are the real class's.
`sqlframe.databricks` needs `databricks.sql.ServerOperationError` at import time: a stub module supplies it.
"""
from __future__ import annotations

import importlib
import json
import logging
import sys
import types
import warnings

from translate import c16_positions as P

SESSION_CLASS = {
    "standalone": "StandaloneSession", "spark": "SparkSession", "duckdb": "DuckDBSession",
    "bigquery": "BigQuerySession", "postgres": "PostgresSession", "redshift": "RedshiftSession",
    "snowflake": "SnowflakeSession", "databricks": "DatabricksSession",
}


class _StubConn:
    def cursor(self):
        raise RuntimeError("C16 stub connection: no statement may be executed")

    def __bool__(self):
        return True


def make_session(engine: str):
    warnings.simplefilter("ignore")
    logging.disable(logging.CRITICAL)
    if engine == "databricks" and "databricks.sql" not in sys.modules:
        try:
            importlib.import_module("databricks.sql")
        except ImportError:
            pkg = types.ModuleType("databricks")
            pkg.__path__ = []
            sql = types.ModuleType("databricks.sql")

            class ServerOperationError(Exception):
                pass

            sql.ServerOperationError = ServerOperationError
            pkg.sql = sql
            sys.modules["databricks"] = pkg
            sys.modules["databricks.sql"] = sql
    from sqlframe.base.session import _BaseSession
    mod = importlib.import_module(f"sqlframe.{engine}.session")
    cls = getattr(mod, SESSION_CLASS[engine])
    if engine in ("standalone", "duckdb"):
        session = cls()
    else:
        class T3Session(cls):  # type: ignore[misc, valid-type]
            def __init__(self, *a, **k):
                if not hasattr(self, "input_dialect"):
                    _BaseSession.__init__(self, conn=_StubConn())

        T3Session.__name__ = cls.__name__
        session = T3Session()
    assert _BaseSession() is session, "session singleton not installed"
    flag = getattr(session, "_is_" + engine)
    assert flag is True, f"_is_{engine} is {flag!r}"
    return session


def fingerprint(expression, args, cname):
    """for the probe name and every other column argument: how often it occurs in the built tree as a column
    reference and as a string literal (the data-flow the model must reproduce)"""
    from sqlglot import exp
    names = [cname] + [a["name"] for a in args if a["t"] in ("col", "name")]
    cols, lits = {}, {}
    for node in expression.walk():
        if isinstance(node, exp.Column) and isinstance(node.this, exp.Identifier) and not node.table:
            cols[node.name] = cols.get(node.name, 0) + 1
        elif isinstance(node, exp.Literal) and node.is_string:
            lits[node.this] = lits.get(node.this, 0) + 1
    return [[n, cols.get(n, 0), lits.get(n, 0)] for n in names]


def one_call(fn, F, args, cname, as_col):
    from sqlframe.base.column import Column
    try:
        vals = P.materialise(args, F, cname, as_col)
    except Exception as ex:  # noqa: BLE001
        return {"k": "setup-raise", "exc": type(ex).__name__ + ": " + str(ex)[:160]}
    try:
        r = fn(*vals)
    except Exception as ex:  # noqa: BLE001
        return {"k": "raise", "exc": type(ex).__name__ + ": " + str(ex).splitlines()[0][:160] if str(ex) else type(ex).__name__}
    if isinstance(r, Column):
        try:
            sql = r.sql()
        except Exception as ex:  # noqa: BLE001
            return {"k": "raise", "exc": "sql(): " + type(ex).__name__ + ": " + str(ex)[:120]}
        return {"k": "ok", "sql": sql, "tree": repr(r.expression), "fp": fingerprint(r.expression, args, cname)}
    return {"k": "ok", "sql": "non-Column result: " + repr(r)[:300], "tree": repr(r)[:300]}


def call_pair(fn, F, args, cname):
    a = one_call(fn, F, args, cname, False)
    b = one_call(fn, F, args, cname, True)
    if b["k"] != "ok":
        verdict = "B"
    elif a["k"] != "ok":
        verdict = "R"
    elif a["sql"] == b["sql"]:
        verdict = "E"
    else:
        verdict = "D"
    return {"name": cname, "verdict": verdict,
            "str_form": a.get("sql", a.get("exc")), "col_form": b.get("sql", b.get("exc")),
            "tree_equal": a.get("tree") == b.get("tree") if a["k"] == b["k"] == "ok" else None,
            "fp_str": a.get("fp"), "fp_col": b.get("fp")}


def main():
    engine = sys.argv[1]
    req = json.load(sys.stdin)
    session = make_session(engine)
    F = importlib.import_module(f"sqlframe.{engine}.functions")
    out, by_id = [], {}
    for v in req["vectors"]:
        fn = getattr(F, v["fname"], None)
        if fn is None:
            out.append({"id": v["id"], "verdict": "absent"})
            continue
        rec = {"id": v["id"], "per_name": [call_pair(fn, F, v["args"], cname) for cname in req["names"]]}
        out.append(rec)
        by_id[v["id"]] = (fn, v, rec)
    # second pass -- the property quantifies over configurations: the SAME session is re-configured to another flavour
    # of its input dialect (identifier normalisation: case-sensitive), as builder.config("sqlframe.input.dialect", ...)
    # does, and a mixed-case name is passed.  Anything memoised per dialect during the first pass is now stale.
    from sqlglot import Dialect
    from sqlframe.base.util import dialect_to_string
    old = session.input_dialect
    reconf = dialect_to_string(old) + ", normalization_strategy=case_sensitive"
    session.input_dialect = Dialect.get_or_raise(reconf)
    try:
        for fn, v, rec in by_id.values():
            rec["reconfigured"] = [call_pair(fn, F, v["args"], cname) for cname in req.get("reconf_names", [])]
    finally:
        session.input_dialect = old
    json.dump({"engine": engine, "reconfigured_input_dialect": reconf,
               "session_class": type(session).__mro__[1].__name__ if engine not in ("standalone", "duckdb")
               else type(session).__name__, "answers": out}, sys.stdout)


if __name__ == "__main__":
    main()
