"""C02 case language, shared by checks/c02.py (sqlframe on DuckDB + Coq terms) and oracle/record_c02.py (PySpark).

A case is JSON-able:
  {"left": DF, "steps": [{"right": DF, "on": ON, "how": str}, ...], "fin": FIN, "data": variant}
  DF  = ["base", T] | ["where", DF, UE] | ["alias", DF, a] | ["proj", DF, [col, ...]] | ["limit", DF, n]  (n >= row count)
        | ["sel", DF, [[UE over bare names, out], ...]]   (select of aliased expressions: the columns get new attribute ids)
  ON  = None | ["names", [k, ...], as_str] | ["exprs", [UE, ...], as_list]
  UE  = ["ref", REF] | ["lit", v] | ["bin", Op, UE, UE] | ["not", UE] | ["isnull", UE]
  REF = ["name", n] | ["df", DF, n] | ["alias", a, n]
  FIN = None | ["where", UE] | ["select", [[UE, out], ...]] | ["rename", old, new]   (withColumnRenamed)
  A ["df", DF, n] reference may also go through an ANCESTOR of a table of the chain (an intermediate frame).
DataFrames are built once per distinct DF description inside a case, so a description denotes ONE object
(that is what makes `df['c']` references and common-ancestor joins meaningful).
"""
from __future__ import annotations

import json

SCHEMAS = {
    "A": [("k", "bigint"), ("v", "bigint"), ("s", "string")],
    "B": [("k", "bigint"), ("v", "bigint"), ("w", "string")],
    "C": [("k", "bigint"), ("u", "bigint")],
    "D": [("k2", "bigint"), ("x", "string")],
}
DATA = {
    "std": {
        "A": [(1, 10, "a"), (2, 20, "b"), (None, 30, "c"), (2, 21, "d")],
        "B": [(2, 100, "x"), (3, 200, "y"), (None, 300, "z"), (2, 101, "w")],
        "C": [(2, 7), (3, 8), (1, 9), (None, 0)],
        "D": [(2, "p"), (5, "q"), (None, "r"), (1, "t")],
    },
    "emptyR": {
        "A": [(1, 10, "a"), (None, 30, "c")],
        "B": [],
        "C": [],
        "D": [],
    },
    "emptyL": {
        "A": [],
        "B": [(2, 100, "x"), (None, 300, "z")],
        "C": [(2, 7), (None, 0)],
        "D": [(2, "p")],
    },
    "nulls": {
        "A": [(None, 20, "a"), (None, 20, "a"), (3, None, None), (3, 20, "b")],
        "B": [(None, 20, "x"), (3, 20, "y"), (3, 20, "y"), (4, None, None)],
        "C": [(3, 1), (3, 2), (None, 3)],
        "D": [(3, "p"), (3, "p"), (None, None)],
    },
}


def key(d) -> str:
    return json.dumps(d, sort_keys=True)


def schema_str(t):
    return ", ".join(f"{c} {ty}" for c, ty in SCHEMAS[t])


def df_cols(d):
    """column names of a DF description"""
    if d[0] == "base":
        return [c for c, _ in SCHEMAS[d[1]]]
    if d[0] in ("where", "alias", "limit"):
        return df_cols(d[1])
    if d[0] == "proj":
        return list(d[2])
    if d[0] == "sel":
        return [o for _, o in d[2]]
    raise ValueError(d)


def df_base(d):
    return d[1] if d[0] == "base" else df_base(d[1])


class Builder:
    """builds the DataFrames of one case with a PySpark-compatible API (sqlframe or pyspark)"""

    def __init__(self, session, F, data, make_df=None, order_seed=None):
        self.session, self.F, self.data = session, F, data
        self.objs = {}
        self.make_df = make_df
        self.order_seed = order_seed      # VERIF_SEED: permutes the rows of the input tables (results are compared as bags)

    def rows(self, t):
        rows = list(DATA[self.data][t])
        if self.order_seed is not None:
            import random
            random.Random(f"{self.order_seed}/{self.data}/{t}").shuffle(rows)
        return rows

    def df(self, d):
        k = key(d)
        if k in self.objs:
            return self.objs[k]
        if d[0] == "base":
            if self.make_df:
                o = self.make_df(d[1], self.rows(d[1]))
            else:
                o = self.session.createDataFrame(self.rows(d[1]), schema_str(d[1]))
        elif d[0] == "where":
            o = self.df(d[1]).where(self.ue(d[2]))
        elif d[0] == "alias":
            o = self.df(d[1]).alias(d[2])
        elif d[0] == "proj":
            o = self.df(d[1]).select(*d[2])
        elif d[0] == "limit":
            o = self.df(d[1]).limit(d[2])
        elif d[0] == "sel":
            o = self.df(d[1]).select(*[self.ue(e).alias(out) for e, out in d[2]])
        else:
            raise ValueError(d)
        self.objs[k] = o
        return o

    def ref(self, r):
        if r[0] == "name":
            return self.F.col(r[1])
        if r[0] == "df":
            return self.df(r[1])[r[2]]
        if r[0] == "alias":
            return self.F.col(f"{r[1]}.{r[2]}")
        raise ValueError(r)

    def ue(self, e):
        k = e[0]
        if k == "ref":
            return self.ref(e[1])
        if k == "lit":
            return self.F.lit(e[1])
        if k == "bin":
            a, b = self.ue(e[2]), self.ue(e[3])
            op = e[1]
            return {"Eq": lambda: a == b, "Neq": lambda: a != b, "Lt": lambda: a < b, "Le": lambda: a <= b,
                    "Gt": lambda: a > b, "Ge": lambda: a >= b, "And": lambda: a & b, "Or": lambda: a | b,
                    "NullSafeEq": lambda: a.eqNullSafe(b), "Add": lambda: a + b, "Sub": lambda: a - b,
                    "Mul": lambda: a * b}[op]()
        if k == "not":
            return ~self.ue(e[1])
        if k == "isnull":
            return self.ue(e[1]).isNull()
        raise ValueError(e)

    def on(self, on):
        if on is None:
            return None
        if on[0] == "names":
            return on[1][0] if on[2] else list(on[1])
        if on[0] == "exprs":
            es = [self.ue(e) for e in on[1]]
            return es if on[2] else es[0]
        raise ValueError(on)

    def chain(self, case, upto=None):
        """the joined DataFrame after `upto` steps (all by default); intermediate results are kept for lineage observation"""
        cur = self.df(case["left"])
        self.stages = [cur]
        for st in case["steps"][:upto]:
            r = self.df(st["right"])
            o = self.on(st["on"])
            cur = cur.join(r, how=st["how"]) if o is None else cur.join(r, on=o, how=st["how"])
            self.stages.append(cur)
        return cur

    def final(self, case):
        cur = self.chain(case)
        fin = case.get("fin")
        if fin is None:
            return cur
        if fin[0] == "where":
            return cur.where(self.ue(fin[1]))
        if fin[0] == "rename":
            return cur.withColumnRenamed(fin[1], fin[2])
        if fin[0] == "select":
            cols = []
            for e, out in fin[1]:
                c = self.ue(e)
                if not (e[0] == "ref" and e[1][-1] == out and e[1][0] in ("name", "df")):
                    c = c.alias(out)
                cols.append(c)
            return cur.select(*cols)
        raise ValueError(fin)


def canon_val(v):
    if isinstance(v, bool) or v is None or isinstance(v, (int, str)):
        return v
    raise ValueError(f"value {v!r}")


def observe(df):
    """(columns, rows) of a DataFrame through the two observation points of the property"""
    cols = list(df.columns)
    rows = [[canon_val(x) for x in r] for r in df.collect()]
    return cols, rows


# ---- shape predicates (shared by the generator, the signatures and the recorder) ---------------------------

def how_norm(how: str) -> str:
    return how.lower().replace("_", "")


KIND = {"inner": "inner", "cross": "cross", "outer": "full", "full": "full", "fullouter": "full",
        "left": "left", "leftouter": "left", "right": "right", "rightouter": "right",
        "semi": "semi", "leftsemi": "semi", "anti": "anti", "leftanti": "anti"}


def kind_of(how: str):
    return KIND.get(how_norm(how))


def refs_of(e, acc=None):
    acc = [] if acc is None else acc
    if e[0] == "ref":
        acc.append(e[1])
    else:
        for x in e[1:]:
            if isinstance(x, list):
                refs_of(x, acc)
    return acc
