"""C19 -- Row and the assertion helpers behave as PySpark's.

T1  translate/c19_py2g.py : Row methods + helper functions of sqlframe (core.REPO) AND of the installed PySpark
                            -> Gen/C19Sf.v, Gen/C19Ps.v  (same Gallina vocabulary, SF.C19.PyVal / Script)
Prf coq/props/C19.v       : row_body_rel / cmp_body_rel on the generated definitions; C19_rows_hold (all scripts, all
                            budgets); C19_helpers_hold (all inputs, all checkRowOrder/rtol/atol); C19_holds : C19_full.
                            (The two deviations found earlier were repaired in /repo; their witnesses stay in CORPUS.)
T3  this file             : generated scripts / near-miss row-list pairs / schema pairs run on BOTH real
                            implementations (sqlframe's and the installed PySpark's pure-Python classes, live, no JVM)
                            and on both generated models inside Coq (vm_compute).
"""
from __future__ import annotations

import copy
import importlib.util
import math
import pickle
import random
import sys
from decimal import Decimal

from vlib import core
from vlib.core import strlit, listlit, boollit

KNOWN_DECIMAL = "C19/decimal-placed-directly-in-Row-becomes-float"
KNOWN_MSG = "C19/too-many-values-message-formats-self-with-noniterable-__fields__"

HEADER = """From Coq Require Import ZArith String List Bool PrimFloat.
From SF Require Import C19.PyVal C19.Script C19.Check.
From Gen Require Import C19Sf C19Ps.
Import ListNotations.
Open Scope string_scope.
Definition mkS := Build_scase.
Definition mkH := Build_hcase.
Definition mkT := Build_schcase.
Definition check_s := check_script row_body_sf row_body_ps.
Definition check_h := check_helper row_body_sf row_body_ps cmp_body_sf cmp_body_ps.
Definition check_t := check_schema row_body_sf row_body_ps cmp_body_sf cmp_body_ps.
"""

EXN = ["EAttr", "EKey", "EIndex", "EValue", "EType", "ERuntime", "ELib", "EArg", "ERowsDiffer", "ESchemaDiffer",
       "ERecursion"]


# ------------------------------------------------------------------------------------------------
# the two real implementations
# ------------------------------------------------------------------------------------------------

class Lib:
    def __init__(self, name):
        self.name = name
        if name == "sf":
            import sqlframe.base.types as T
            import sqlframe.testing.utils as U
        else:
            import pyspark.sql.types as T
            # pyspark.testing's package __init__ pulls pyspark.pandas (broken under numpy 2): load the module file
            # itself, and make the helper's optional `import pyspark.pandas` fail with ImportError as it would
            # without pandas (the translator skips exactly that branch)
            sys.modules.setdefault("pyspark.pandas", None)
            spec = importlib.util.spec_from_file_location(
                "c19_pyspark_testing_utils", T.__file__.replace("sql/types.py", "testing/utils.py"))
            U = importlib.util.module_from_spec(spec)
            spec.loader.exec_module(U)
        # colouring of the diff text probes the terminal through os.popen for every differing line (slow, text only)
        if hasattr(U, "_terminal_color_support"):
            U._terminal_color_support = lambda: False
        self.T, self.U, self.Row = T, U, T.Row


class FakeDF:
    """what the helpers use of a DataFrame: .schema, .collect(), .isStreaming"""
    isStreaming = False

    def __init__(self, schema, rows):
        self.schema, self._rows = schema, rows

    def collect(self):
        return list(self._rows)


def _raised_in_pyspark_errors(e: BaseException) -> bool:
    tb = e.__traceback__
    last = None
    while tb is not None:
        last, tb = tb, tb.tb_next
    return last is not None and "pyspark/errors/" in last.tb_frame.f_code.co_filename.replace("\\", "/")


def exn_tag(e: BaseException, helper: bool) -> str:
    n = type(e).__name__
    if isinstance(e, AssertionError) and _raised_in_pyspark_errors(e):
        # PySparkValueError(None) (e.g. row[None]) trips PySparkException.__init__'s own assertion while the library
        # error is being constructed: the situation is "the library's Row error", the class is an accident of PySpark
        return "ELib"
    if n in ("RowError", "PySparkValueError", "PySparkTypeError"):
        return "ELib"
    if n == "PySparkAssertionError":
        return {"DIFFERENT_ROWS": "ERowsDiffer", "DIFFERENT_SCHEMA": "ESchemaDiffer"}.get(e.getErrorClass(), "EArg")
    if n == "DataFrameDiffError":
        return "ERowsDiffer"
    if n == "SchemaDiffError":
        return "ESchemaDiffer"
    if n == "SQLFrameException":
        return "EArg"
    if helper and n == "RuntimeError":
        return "EArg"          # sqlframe: "actual/expected must be a StructType"
    for cls, tag in ((KeyError, "EKey"), (AttributeError, "EAttr"), (IndexError, "EIndex"),
                     (RecursionError, "ERecursion"), (RuntimeError, "ERuntime"), (TypeError, "EType"),
                     (ValueError, "EValue")):
        if isinstance(e, cls):
            return tag
    return "OTHER:" + n


# ------------------------------------------------------------------------------------------------
# Python value -> Coq pyval term
# ------------------------------------------------------------------------------------------------

class NotEncodable(Exception):
    pass


def flit(f: float) -> str:
    if f != f:
        return "nan"
    if f == math.inf:
        return "infinity"
    if f == -math.inf:
        return "neg_infinity"
    hx = f.hex()
    return f"(-{hx[1:]})%float" if hx.startswith("-") else f"({hx})%float"


def zl(n: int) -> str:
    return f"({n})%Z"


def to_coq(o, Row) -> str:
    if o is None:
        return "VNone"
    if isinstance(o, bool):
        return f"(VBool {boollit(o)})"
    if isinstance(o, int):
        return f"(VInt {zl(o)})"
    if isinstance(o, float):
        return f"(VFloat {flit(o)} {strlit(repr(o))})"
    if isinstance(o, Decimal):
        return f"(VDec {strlit(repr(o))} {flit(float(o))} {strlit(repr(float(o)))})"
    if isinstance(o, str):
        return f"(VStr {strlit(o)})"
    if isinstance(o, Row):
        vals = listlit([to_coq(x, Row) for x in tuple.__iter__(o)])
        if "__fields__" in o.__dict__:
            return f"(VRow (Some {to_coq(o.__dict__['__fields__'], Row)}) {vals})"
        return f"(VRow None {vals})"
    if isinstance(o, list):
        return f"(VList {listlit([to_coq(x, Row) for x in o])})"
    if isinstance(o, tuple):
        if type(o) is not tuple:
            raise NotEncodable(f"tuple subclass {type(o)}")
        return f"(VTuple {listlit([to_coq(x, Row) for x in o])})"
    if isinstance(o, dict):
        return "(VDict " + listlit([f"({to_coq(k, Row)}, {to_coq(v, Row)})" for k, v in o.items()]) + ")"
    if isinstance(o, slice):
        if o.step is not None:
            raise NotEncodable("slice step")
        f = lambda x: "None" if x is None else f"(Some {zl(x)})"
        return f"(VSlice {f(o.start)} {f(o.stop)})"
    if callable(o) and hasattr(o, "__name__"):
        return f"(VFunc {strlit(o.__name__)})"
    raise NotEncodable(repr(type(o)))


def outcome(fn, Row, helper=False) -> str:
    """run fn(); Coq term of type out"""
    try:
        v = fn()
    except RecursionError:
        raise
    except Exception as e:  # noqa: BLE001 - the exception class is the observation
        tag = exn_tag(e, helper)
        if tag not in EXN:
            raise NotEncodable(f"exception {tag}: {e!r}")
        return f"(OExc {tag})"
    if helper:
        return "(OVal VNone)"
    return f"(OVal {to_coq(v, Row)})"


# ------------------------------------------------------------------------------------------------
# values, scripts
# ------------------------------------------------------------------------------------------------

# ordinary names, names of Row/tuple methods, and legal-but-odd names (leading underscore, dunder-like, Spark's
# default column names)
NAMES = ["a", "b", "c", "x", "name", "count", "index", "a b", "A", "_1", "_", "__x", "_c0", "asDict", "_2"]
CLASS_ATTRS = ("count", "index", "asDict")
ATOMS = [None, True, False, 0, 1, 2, -1, 7, 2 ** 40, 0.0, 1.5, -2.25, 0.1, 1e-05, 1e22, float("inf"), "", "a", "b",
         "x", "x'y", 'q"r', "it's \"q\"", "a b", "__d", "back\\slash"]


def gen_atom(r):
    k = r.random()
    if k < 0.06:
        return float("nan")
    if k < 0.12:
        return Decimal(r.choice(["1.5", "0.25", "-2", "10"]))
    return r.choice(ATOMS)


def gen_val(r, depth=2):
    """a Python value without Rows (fresh objects on every call)"""
    k = r.random()
    if depth == 0 or k < 0.55:
        return gen_atom(r)
    if k < 0.75:
        return [gen_val(r, depth - 1) for _ in range(r.randint(0, 3))]
    if k < 0.85:
        return tuple(gen_val(r, depth - 1) for _ in range(r.randint(0, 3)))
    keys = r.sample(["k", "a", "b", 1, 2, "z z"], r.randint(0, 3))
    return {kk: gen_val(r, depth - 1) for kk in keys}


def gen_key(r):
    k = r.random()
    if k < 0.35:
        return r.choice(NAMES + ["zz", "__fields__", "__x"])
    if k < 0.7:
        return r.choice([0, 1, 2, -1, -3, 5, True])
    if k < 0.85:
        return slice(r.choice([None, 0, 1, -2]), r.choice([None, 1, 2, -1, 9]))
    return gen_atom(r)


class SGen:
    """scripts as nested tuples; 'row' expressions evaluate to a Row (usually)"""

    def __init__(self, r):
        self.r = r

    def row(self, d):
        r = self.r
        k = r.random()
        if d <= 0 or k < 0.4:
            names = r.sample(NAMES, r.randint(0, 3))
            return ("new", [], [(n, self.value(d - 1)) for n in names])
        if k < 0.6:
            n = r.randint(0, 3)
            fields = [("lit", r.choice(NAMES + ["a", "a", 1, None])) for _ in range(n)]
            m = r.choice([n, n, n, max(0, n - 1), n + 1])
            return ("call", ("new", fields, []), [self.value(d - 1) for _ in range(m)])
        if k < 0.68:
            return ("new", [self.value(d - 1) for _ in range(r.randint(0, 3))], [])
        if k < 0.76:
            return ("pickle", self.row(d - 1))
        if k < 0.82:
            return ("setattr", self.row(d - 1), r.choice(["__fields__", "__fields__", "a", "zz"]),
                    ("lit", r.choice([["p", "q"], ["a"], ("u", "v", "w"), ["a", "a"], 3])))
        if k < 0.88:
            return ("call", self.row(d - 1), [self.value(d - 1) for _ in range(r.randint(0, 2))])
        if k < 0.92:
            return ("new", [self.value(0)], [("a", self.value(0))])
        return self.row(d - 1)

    def short_row(self):
        """a Row made by a Row class with FEWER values than fields (legal in PySpark), and its field names"""
        r = self.r
        names = r.sample(["a", "b", "c", "x", "name", "_1", "_2", "_"], r.randint(1, 4))
        m = r.randint(0, len(names) - 1)
        return ("call", ("new", [("lit", n) for n in names], []), [("lit", gen_atom(r)) for _ in range(m)]), names

    def nested(self, depth):
        """containers that hold Rows at some depth (what asDict(recursive) / pickling / repr must traverse)"""
        r = self.r
        inner = ("new", [], [(n, ("lit", gen_atom(r))) for n in r.sample(["p", "q"], r.randint(1, 2))]) if depth <= 0 \
            else self.nested(depth - 1)
        k = r.random()
        if k < 0.3:
            return ("dict", [("k", inner)] + ([("z", ("lit", gen_atom(r)))] if r.random() < 0.4 else []))
        if k < 0.6:
            return ("list", [inner] + ([("lit", gen_atom(r))] if r.random() < 0.4 else []))
        if k < 0.8:
            return ("new", [], [("n", inner)])
        return ("call", ("new", [("lit", "u"), ("lit", "v")], []), [inner, ("lit", gen_val(r, 1))])

    def value(self, d):
        r = self.r
        k = r.random()
        if d <= 0 or k < 0.5:
            return ("lit", gen_val(r, 1 if d <= 0 else 2))
        if k < 0.75:
            return self.row(d)
        if k < 0.85:
            return ("list", [self.value(d - 1) for _ in range(r.randint(0, 2))])
        if k < 0.93:
            return ("dict", [(n, self.value(d - 1)) for n in r.sample(["k", "a", "z"], r.randint(0, 2))])
        return self.observe(d - 1)

    def observe(self, d, top=False):
        r = self.r
        k = r.random()
        row = self.row(d)
        if k < 0.14:
            if r.random() < 0.25:
                row = ("new", [], [("w", self.nested(r.randint(0, 2)))])
            return ("repr", row if r.random() < 0.85 else self.value(d))
        if k < 0.30:
            if r.random() < 0.3:
                sr, names = self.short_row()
                return ("getitem", sr, ("lit", r.choice(names)))
            return ("getitem", row, ("lit", gen_key(r)))
        if k < 0.42:
            if r.random() < 0.25:
                sr, names = self.short_row()
                return ("getattr", sr, r.choice([n for n in names if n not in CLASS_ATTRS] or ["a"]))
            if row[0] == "new" and row[2] and r.random() < 0.5:
                own = [n for n, _ in row[2] if top or n not in CLASS_ATTRS]     # read a field the row really has
                if own:
                    return ("getattr", row, r.choice(own))
            pool = [n for n in NAMES if n not in CLASS_ATTRS] + ["zz", "__x", "__fields__", "_zz"]
            return ("getattr", row, r.choice(pool + (["count", "asDict"] if top else [])))
        if k < 0.52:
            if r.random() < 0.5:
                row = ("new", [], [(n, self.nested(r.randint(1, 3))) for n in r.sample(NAMES, r.randint(1, 2))])
            return ("asdict", row, r.random() < 0.7)
        if k < 0.60:
            return ("contains", ("lit", r.choice(NAMES + [1, None, 1.5])), row if r.random() < 0.8 else self.value(d))
        if k < 0.68:
            if r.random() < 0.3:
                row = ("new", [], [("w", self.nested(r.randint(0, 2)))])
            return ("pickle", row)
        if k < 0.76:
            other = row if r.random() < 0.3 else (self.row(d) if r.random() < 0.7 else self.value(d))
            return (r.choice(["eq", "lt"]), row, other)
        if k < 0.81:
            return ("hasheq", row)
        if k < 0.86:
            return (r.choice(["len", "tuple", "fields"]), row)
        if k < 0.92:
            return ("setattr", row, r.choice(NAMES + ["__fields__"]), self.value(0))
        return ("list", [self.observe(d - 1) if d > 0 else ("repr", row), ("repr", row)])


def fresh(v):
    """a structurally equal value made of new objects (so that CPython's identity shortcut in container
    comparison never makes NaN equal to itself across two evaluations)"""
    if isinstance(v, float) and v != v:
        return float("nan")
    if isinstance(v, list):
        return [fresh(x) for x in v]
    if isinstance(v, tuple) and type(v) is tuple:
        return tuple(fresh(x) for x in v)
    if isinstance(v, dict):
        return {k: fresh(x) for k, x in v.items()}
    return copy.deepcopy(v)


def ex(s, Row):
    """execute a script on one implementation (mirrors SF.C19.Script.run)"""
    k = s[0]
    if k == "lit":
        return fresh(s[1])
    if k == "new":
        args = [ex(a, Row) for a in s[1]]
        kw = {n: ex(v, Row) for n, v in s[2]}
        return Row(*args, **kw)
    if k == "call":
        rv = ex(s[1], Row)
        args = [ex(a, Row) for a in s[2]]
        if not isinstance(rv, Row):
            raise TypeError("not a Row")
        return rv(*args)
    if k == "getitem":
        rv, kv = ex(s[1], Row), ex(s[2], Row)
        return rv[kv]
    if k == "getattr":
        rv = ex(s[1], Row)
        if not isinstance(rv, Row):
            raise AttributeError(s[2])
        return getattr(rv, s[2])
    if k == "setattr":
        rv, vv = ex(s[1], Row), ex(s[3], Row)
        if not isinstance(rv, Row):
            raise AttributeError(s[2])
        setattr(rv, s[2], vv)
        return rv
    if k == "contains":
        iv, rv = ex(s[1], Row), ex(s[2], Row)
        if not isinstance(rv, (list, tuple, dict)):
            raise TypeError("not a container")
        return iv in rv
    if k == "asdict":
        rv = ex(s[1], Row)
        if not isinstance(rv, Row):
            raise AttributeError("asDict")
        return rv.asDict(s[2])
    if k == "repr":
        return repr(ex(s[1], Row))
    if k == "pickle":
        return pickle.loads(pickle.dumps(ex(s[1], Row)))
    if k == "eq":
        a, b = ex(s[1], Row), ex(s[2], Row)
        return a == b
    if k == "lt":
        a, b = ex(s[1], Row), ex(s[2], Row)
        return a < b
    if k == "hasheq":
        rv = ex(s[1], Row)
        return hash(rv) == hash(tuple(rv) if isinstance(rv, tuple) else rv)
    if k == "len":
        return len(ex(s[1], Row))
    if k == "tuple":
        return tuple(ex(s[1], Row))
    if k == "fields":
        rv = ex(s[1], Row)
        if not isinstance(rv, Row):
            raise AttributeError("__fields__")
        return rv.__fields__
    if k == "list":
        return [ex(x, Row) for x in s[1]]
    if k == "dict":
        return {n: ex(v, Row) for n, v in s[1]}
    raise ValueError(k)


def s_coq(s) -> str:
    k = s[0]
    if k == "lit":
        return f"(SLit {to_coq(s[1], type(None))})"
    if k == "new":
        return (f"(SNew {listlit([s_coq(a) for a in s[1]])} "
                f"{listlit([f'({strlit(n)}, {s_coq(v)})' for n, v in s[2]])})")
    if k == "call":
        return f"(SCall {s_coq(s[1])} {listlit([s_coq(a) for a in s[2]])})"
    if k == "getitem":
        return f"(SGetItem {s_coq(s[1])} {s_coq(s[2])})"
    if k == "getattr":
        return f"(SGetAttr {s_coq(s[1])} {strlit(s[2])})"
    if k == "setattr":
        return f"(SSetAttr {s_coq(s[1])} {strlit(s[2])} {s_coq(s[3])})"
    if k == "contains":
        return f"(SContains {s_coq(s[1])} {s_coq(s[2])})"
    if k == "asdict":
        return f"(SAsDict {s_coq(s[1])} {boollit(s[2])})"
    one = {"repr": "SRepr", "pickle": "SPickle", "hasheq": "SHashEq", "len": "SLen", "tuple": "STuple",
           "fields": "SFields"}
    if k in one:
        return f"({one[k]} {s_coq(s[1])})"
    if k in ("eq", "lt"):
        return f"({'SEq' if k == 'eq' else 'SLt'} {s_coq(s[1])} {s_coq(s[2])})"
    if k == "list":
        return f"(SList {listlit([s_coq(x) for x in s[1]])})"
    if k == "dict":
        return f"(SDict {listlit([f'({strlit(n)}, {s_coq(v)})' for n, v in s[1]])})"
    raise ValueError(k)


def s_str(s) -> str:
    k = s[0]
    if k == "lit":
        return repr(s[1])
    if k == "new":
        return "Row(" + ", ".join([s_str(a) for a in s[1]] + [f"{n!r}: {s_str(v)}" for n, v in s[2]]) + ")"
    if k == "call":
        return s_str(s[1]) + "(" + ", ".join(s_str(a) for a in s[2]) + ")"
    if k == "getitem":
        return f"{s_str(s[1])}[{s_str(s[2])}]"
    if k == "getattr":
        return f"{s_str(s[1])}.{s[2]}"
    if k == "setattr":
        return f"setattr({s_str(s[1])}, {s[2]!r}, {s_str(s[3])})"
    if k == "contains":
        return f"({s_str(s[1])} in {s_str(s[2])})"
    if k == "asdict":
        return f"{s_str(s[1])}.asDict({s[2]})"
    if k in ("eq", "lt"):
        return f"({s_str(s[1])} {'==' if k == 'eq' else '<'} {s_str(s[2])})"
    if k == "list":
        return "[" + ", ".join(s_str(x) for x in s[1]) + "]"
    if k == "dict":
        return "{" + ", ".join(f"{n!r}: {s_str(v)}" for n, v in s[1]) + "}"
    return f"{k}({s_str(s[1])})"


def s_kinds(s):
    out = [s[0]]
    for c in s_children(s):
        out += s_kinds(c)
    return out


KINDS = {"lit", "new", "call", "getitem", "getattr", "setattr", "contains", "asdict", "repr", "pickle", "eq", "lt",
         "hasheq", "len", "tuple", "fields", "list", "dict"}


def s_children(s):
    out = []
    if s[0] == "lit":
        return out
    for x in s[1:]:
        if isinstance(x, tuple) and x and x[0] in KINDS:
            out.append(x)
        elif isinstance(x, list):
            for y in x:
                if isinstance(y, tuple) and y and y[0] in KINDS:
                    out.append(y)
                elif isinstance(y, tuple) and len(y) == 2 and isinstance(y[1], tuple) and y[1] and y[1][0] in KINDS:
                    out.append(y[1])
    return out


def has_top_decimal(s) -> bool:
    """shape predicate of the known deviation: a Decimal literal is an immediate value of a Row construction"""
    k = s[0]
    if k == "new" and any(v[0] == "lit" and isinstance(v[1], Decimal) for _, v in s[2]):
        return True
    if k == "call" and any(v[0] == "lit" and isinstance(v[1], Decimal) for v in s[2]):
        return True
    return any(has_top_decimal(c) for c in s_children(s))


# ------------------------------------------------------------------------------------------------
# helper cases: pairs of row lists (or DataFrames) x options
# ------------------------------------------------------------------------------------------------

TOLS = [(1e-05, 1e-08), (0.0, 0.0), (0.1, 0.0), (0.0, 0.5), (0.001, 0.001), (1e-05, 1e-08), (0.25, 1.0)]


class RowSpec:
    """lib-independent description of a row: ('kw', [(name, v)]) | ('pos', [v]) | ('cls', [names], [v]) | None"""


def spec_val(r, depth=1):
    k = r.random()
    if depth > 0 and k < 0.12:
        return ("rowkw", [(n, spec_val(r, depth - 1)) for n in r.sample(["p", "q", "r"], r.randint(1, 2))])
    if depth > 0 and k < 0.22:
        return ("list", [spec_val(r, depth - 1) for _ in range(r.randint(0, 3))])
    if depth > 0 and k < 0.30:
        return ("dict", [(kk, spec_val(r, depth - 1)) for kk in r.sample(["k", "l", 1], r.randint(0, 2))])
    if k < 0.55:
        return ("atom", r.choice([0.0, 1.0, 1.5, -2.25, 100.0, 1e-06, 3.0e10, 0.1, float("inf")]))
    if k < 0.6:
        return ("atom", float("nan"))
    if k < 0.64:
        return ("atom", Decimal(r.choice(["1.5", "0.25", "10"])))
    return ("atom", r.choice([None, True, 0, 1, 2, -5, "a", "b", "", "x y", 2 ** 40]))


def spec_row(r, names):
    k = r.random()
    vals = [spec_val(r) for _ in names]
    if k < 0.7:
        return ("kw", list(zip(names, vals)))
    if k < 0.85:
        return ("cls", list(names), vals)
    return ("pos", vals)


def build(spec, Row):
    k = spec[0]
    if k == "atom":
        return fresh(spec[1])
    if k == "list":
        return [build(x, Row) for x in spec[1]]
    if k == "dict":
        return {kk: build(x, Row) for kk, x in spec[1]}
    if k in ("rowkw", "kw"):
        return Row(**{n: build(v, Row) for n, v in spec[1]})
    if k == "cls":
        return Row(*spec[1])(*[build(v, Row) for v in spec[2]])
    if k == "pos":
        return Row(*[build(v, Row) for v in spec[1]])
    if k == "none":
        return None
    raise ValueError(k)


def row_vals(spec):
    return [v for _, v in spec[1]] if spec[0] in ("kw", "rowkw") else spec[2] if spec[0] == "cls" else spec[1]


def with_vals(spec, vals):
    if spec[0] in ("kw", "rowkw"):
        return (spec[0], [(n, v) for (n, _), v in zip(spec[1], vals)])
    if spec[0] == "cls":
        return ("cls", spec[1], vals)
    return ("pos", vals)


def float_paths(spec, path=()):
    """paths to finite float atoms inside a row spec"""
    out = []
    k = spec[0]
    if k == "atom":
        if isinstance(spec[1], float) and math.isfinite(spec[1]):
            out.append(path)
    elif k in ("list",):
        for i, x in enumerate(spec[1]):
            out += float_paths(x, path + (i,))
    elif k == "dict":
        for i, (_, x) in enumerate(spec[1]):
            out += float_paths(x, path + (i,))
    elif k in ("kw", "rowkw", "cls", "pos"):
        for i, x in enumerate(row_vals(spec)):
            out += float_paths(x, path + (i,))
    return out


def subst(spec, path, f):
    if not path:
        return f(spec)
    k, i = spec[0], path[0]
    if k == "list":
        l = list(spec[1])
        l[i] = subst(l[i], path[1:], f)
        return ("list", l)
    if k == "dict":
        l = list(spec[1])
        l[i] = (l[i][0], subst(l[i][1], path[1:], f))
        return ("dict", l)
    vals = list(row_vals(spec))
    vals[i] = subst(vals[i], path[1:], f)
    return with_vals(spec, vals)


def any_paths(spec, path=()):
    out = [path] if path else []
    k = spec[0]
    if k == "list":
        for i, x in enumerate(spec[1]):
            out += any_paths(x, path + (i,))
    elif k == "dict":
        for i, (_, x) in enumerate(spec[1]):
            out += any_paths(x, path + (i,))
    elif k in ("kw", "rowkw", "cls", "pos"):
        for i, x in enumerate(row_vals(spec)):
            out += any_paths(x, path + (i,))
    return out


def gen_helper_case(r):
    """(variant, actual specs, expected specs, checkRowOrder, rtol, atol)"""
    names = r.sample(["a", "b", "c", "d"], r.randint(1, 3))
    if r.random() < 0.1:
        names = names + [names[0]]
    n = r.choice([0, 1, 1, 2, 2, 3, 4])
    rows = [spec_row(r, names) for _ in range(n)]
    if n >= 2 and r.random() < 0.3:
        rows[1] = rows[0]          # duplicate rows
    rtol, atol = r.choice(TOLS)
    order = r.random() < 0.4
    variant = r.choice(["equal", "permuted", "within", "outside", "boundary", "value", "length", "arity", "none-row",
                        "none-value", "int-vs-float", "names", "nested", "kind"])
    exp = list(rows)
    if variant == "permuted" and n >= 2:
        exp = rows[1:] + rows[:1]
    elif variant in ("within", "outside", "boundary"):
        cands = [(i, p) for i, rw in enumerate(rows) for p in float_paths(rw)]
        if cands:
            i, p = r.choice(cands)

            def bump(sp):
                b = sp[1]
                tol = atol + rtol * abs(b)
                if variant == "within":
                    d = tol * r.choice([0.5, 0.9, 0.0])
                elif variant == "outside":
                    d = tol * r.choice([1.5, 2.0, 10.0]) + (0 if tol > 0 else r.choice([1e-9, 1.0]))
                else:
                    d = tol
                return ("atom", b + d if r.random() < 0.5 else b - d)
            # the tolerance is relative to the EXPECTED value: perturb the actual side half of the time
            if r.random() < 0.5:
                exp[i] = subst(rows[i], p, bump)
            else:
                rows = list(rows)
                rows[i] = subst(exp[i], p, bump)
    elif variant == "value" and n:
        i = r.randrange(n)
        ps = any_paths(rows[i])
        if ps:
            exp[i] = subst(rows[i], r.choice(ps), lambda sp: spec_val(r, 0))
    elif variant == "length":
        if n and r.random() < 0.5:
            exp = rows[:-1]
        else:
            exp = rows + [spec_row(r, names)]
    elif variant == "arity" and n:
        i = r.randrange(n)
        vals = row_vals(rows[i])
        exp[i] = ("pos", vals[:-1]) if r.random() < 0.5 else ("pos", vals + [spec_val(r, 0)])
    elif variant == "none-row" and n:
        i = r.randrange(n)
        exp[i] = ("none",)
        if r.random() < 0.3:
            rows = list(rows)
            rows[i] = ("none",)
    elif variant == "none-value" and n:
        i = r.randrange(n)
        ps = any_paths(rows[i])
        if ps:
            exp[i] = subst(rows[i], r.choice(ps), lambda sp: ("atom", None))
    elif variant == "int-vs-float" and n:
        i = r.randrange(n)
        ps = [p for p in any_paths(rows[i])]
        if ps:
            p = r.choice(ps)
            exp[i] = subst(rows[i], p, lambda sp: ("atom", 1))
            rows = list(rows)
            rows[i] = subst(rows[i], p, lambda sp: ("atom", 1.0))
    elif variant == "names" and n:
        i = r.randrange(n)
        vals = row_vals(rows[i])
        exp[i] = ("kw", [("n%d" % j, v) for j, v in enumerate(vals)])
    elif variant == "nested" and n:
        i = r.randrange(n)
        vals = list(row_vals(rows[i]))
        if vals:
            j = r.randrange(len(vals))
            inner = r.choice([("list", [("atom", 1.0), ("atom", 2.0)]), ("rowkw", [("p", ("atom", 1.0))]),
                              ("dict", [("k", ("atom", 1.0)), ("l", ("atom", "s"))])])
            changed = r.choice([
                ("list", [("atom", 1.0), ("atom", 2.0 + r.choice([0, 1e-9, 0.5]))]),
                ("list", [("atom", 1.0)]),
                ("rowkw", [("p", ("atom", 1.0 + r.choice([0, 1e-9, 0.5])))]),
                ("rowkw", [("p", ("atom", 1.0)), ("q", ("atom", 2))]),
                ("dict", [("l", ("atom", "s")), ("k", ("atom", 1.0 + r.choice([0, 1e-9])))]),
                ("dict", [("k", ("atom", 1.0)), ("m", ("atom", "s"))]),
                inner])
            vals2 = list(vals)
            vals[j], vals2[j] = inner, changed
            rows = list(rows)
            rows[i], exp[i] = with_vals(rows[i], vals), with_vals(exp[i] if exp[i][0] != "none" else rows[i], vals2)
    elif variant == "kind" and n:
        i = r.randrange(n)
        vals = list(row_vals(rows[i]))
        if vals:
            j = r.randrange(len(vals))
            vals2 = list(vals)
            vals[j] = ("list", [("atom", 1), ("atom", 2)])
            vals2[j] = r.choice([("atom", (1, 2)), ("pos", [("atom", 1), ("atom", 2)]), ("atom", "[1, 2]")])
            rows = list(rows)
            rows[i], exp[i] = with_vals(rows[i], vals), with_vals(rows[i], vals2)
    return variant, rows, exp, order, rtol, atol


def spec_has_top_decimal(spec) -> bool:
    k = spec[0]
    if k in ("kw", "rowkw", "cls", "pos"):
        vals = row_vals(spec)
        if k != "pos" and any(v[0] == "atom" and isinstance(v[1], Decimal) for v in vals):
            return True
        return any(spec_has_top_decimal(v) for v in vals)
    if k == "list":
        return any(spec_has_top_decimal(v) for v in spec[1])
    if k == "dict":
        return any(spec_has_top_decimal(v) for _, v in spec[1])
    return False


# ------------------------------------------------------------------------------------------------
# schema cases
# ------------------------------------------------------------------------------------------------

ATOM_TYPES = ["LongType", "IntegerType", "StringType", "DoubleType", "BooleanType", "DateType", "FloatType"]


def gen_type(r, depth=2):
    k = r.random()
    if depth == 0 or k < 0.55:
        return ("atom", r.choice(ATOM_TYPES))
    if k < 0.7:
        return ("array", gen_type(r, depth - 1), r.random() < 0.5)
    if k < 0.8:
        return ("map", gen_type(r, 0), gen_type(r, depth - 1))
    if k < 0.86:
        return ("decimal", r.choice([10, 12]), r.choice([0, 2]))
    return gen_struct(r, depth - 1)


def gen_struct(r, depth=2):
    n = r.choice([0, 1, 2, 2, 3])
    return ("struct", [(r.choice(["a", "b", "c", "id", "A"]), gen_type(r, depth), r.random() < 0.5) for _ in range(n)])


def mutate_type(r, t):
    """a near miss of t (some of them must still be accepted: nullable flips, decimal precision, map contents)"""
    k = t[0]
    choice = r.random()
    if k == "struct":
        fs = list(t[1])
        if not fs or choice < 0.15:
            return ("struct", fs + [("z", ("atom", "LongType"), True)]) if choice < 0.6 or not fs else ("struct", fs[:-1])
        i = r.randrange(len(fs))
        n, ft, nl = fs[i]
        if choice < 0.35:
            fs[i] = (n, ft, not nl)
        elif choice < 0.55:
            fs[i] = (n + "x" if r.random() < 0.7 else n.swapcase(), ft, nl)
        elif choice < 0.65 and len(fs) > 1:
            fs[0], fs[-1] = fs[-1], fs[0]
        else:
            fs[i] = (n, mutate_type(r, ft), nl)
        return ("struct", fs)
    if k == "array":
        if choice < 0.3:
            return ("array", t[1], not t[2])
        if choice < 0.8:
            return ("array", mutate_type(r, t[1]), t[2])
        return t[1]
    if k == "map":
        return ("map", t[1], mutate_type(r, t[2])) if choice < 0.7 else ("array", t[2], True)
    if k == "decimal":
        return ("decimal", t[1] + 2, t[2]) if choice < 0.7 else ("atom", "DoubleType")
    return ("atom", r.choice([x for x in ATOM_TYPES if x != t[1]]))


def build_type(t, T):
    k = t[0]
    if k == "atom":
        return getattr(T, t[1])()
    if k == "array":
        return T.ArrayType(build_type(t[1], T), t[2])
    if k == "map":
        return T.MapType(build_type(t[1], T), build_type(t[2], T))
    if k == "decimal":
        return T.DecimalType(t[1], t[2])
    if k == "struct":
        return T.StructType([T.StructField(n, build_type(ft, T), nl) for n, ft, nl in t[1]])
    if k == "notatype":
        return t[1]
    raise ValueError(k)


def type_coq(o, T) -> str:
    """encode the REAL DataType object (its typeName(), elementType, fields)"""
    if isinstance(o, T.StructType):
        return "(VType \"struct\" " + listlit([f"(VField {strlit(f.name)} {type_coq(f.dataType, T)})" for f in o.fields]) + ")"
    if isinstance(o, T.ArrayType):
        return f"(VType \"array\" [{type_coq(o.elementType, T)}])"
    if isinstance(o, T.DataType):
        return f"(VType {strlit(o.typeName())} [])"
    return to_coq(o, T.Row)


# ------------------------------------------------------------------------------------------------
# the check
# ------------------------------------------------------------------------------------------------

CORPUS = [
    ("new", [], [("x", ("lit", Decimal("1.5")))]),                                      # repaired deviation (regression witness)
    ("call", ("setattr", ("new", [], []), "__fields__", ("lit", 3)), [("lit", 1)]),     # repaired deviation (regression witness)
    ("repr", ("call", ("new", [("lit", "a"), ("lit", "b")], []), [("lit", Decimal("0.25")), ("lit", 1)])),
    ("repr", ("new", [], [("a", ("lit", 1)), ("b", ("lit", "x'y"))])),
    ("call", ("new", [("lit", "a")], []), [("lit", 1), ("lit", 2)]),
    ("new", [("lit", 1)], [("a", ("lit", 2))]),
    ("getitem", ("new", [], [("a", ("lit", 1))]), ("lit", "b")),
    ("getitem", ("new", [], [("a", ("lit", 1))]), ("lit", None)),     # PySpark: AssertionError while building its ValueError
    ("getitem", ("new", [("lit", 1), ("lit", 2)], []), ("lit", "a")),
    ("getitem", ("call", ("new", [("lit", "a"), ("lit", "b")], []), [("lit", 1)]), ("lit", "b")),   # KeyError in both
    ("getattr", ("call", ("new", [("lit", "a"), ("lit", "b")], []), [("lit", 1)]), "b"),            # AttributeError
    ("asdict", ("call", ("new", [("lit", "a"), ("lit", "b")], []), [("lit", 1)]), False),
    ("getattr", ("new", [], [("a", ("lit", 1))]), "b"),
    ("getattr", ("new", [], [("_1", ("lit", 5))]), "_1"),                                            # 5 in both
    ("getattr", ("call", ("new", [("lit", "_1"), ("lit", "_2")], []), [("lit", 1), ("lit", 2)]), "_2"),
    ("getattr", ("new", [], [("_", ("lit", 1))]), "_"),
    ("getattr", ("new", [], [("__x", ("lit", 1))]), "__x"),                                          # AttributeError in both
    ("getattr", ("new", [], [("count", ("lit", 1))]), "count"),                                      # the tuple method
    ("getitem", ("new", [], [("count", ("lit", 1)), ("_c0", ("lit", 2))]), ("lit", "count")),
    ("asdict", ("new", [("lit", 1)], []), False),
    # zip consumes the generator of asDict(True) lazily: the unhashable key {2: 7} raises TypeError before conv reaches
    # the field-less Row() (which would raise the library error)
    ("asdict", ("call", ("pickle", ("new", [], [("A", ("lit", {2: 7})), ("index", ("lit", "x"))])),
                [("lit", "x"), ("new", [], [])]), True),
    ("asdict", ("call", ("new", [], [("a", ("lit", [1])), ("b", ("lit", 2))]), [("lit", 0), ("new", [("lit", 1)], [])]), True),
    ("asdict", ("call", ("new", [], [("a", ("lit", 1)), ("b", ("lit", [2]))]), [("new", [("lit", 1)], []), ("lit", 0)]), True),
    ("asdict", ("call", ("new", [("lit", "a"), ("lit", "b"), ("lit", "a")], []), [("lit", 1), ("lit", 2), ("lit", 3)]), False),
    ("asdict", ("new", [], [("k", ("new", [], [("n", ("list", [("new", [], [("d", ("lit", {"z": 1}))])]))]))]), True),
    ("asdict", ("new", [], [("k", ("dict", [("z", ("new", [], [("p", ("lit", 1))]))]))]), True),
    ("asdict", ("new", [], [("k", ("dict", [("z", ("new", [], [("p", ("lit", 1))]))]))]), False),
    ("setattr", ("new", [], [("a", ("lit", 1))]), "a", ("lit", 2)),
    ("repr", ("setattr", ("new", [], [("a", ("lit", 1))]), "__fields__", ("lit", ["z"]))),
    ("pickle", ("call", ("new", [("lit", "x"), ("lit", "y")], []), [("lit", 1), ("lit", [1.5, None])])),
    ("pickle", ("new", [("lit", "x"), ("lit", "y")], [])),
    ("repr", ("call", ("new", [], [("a", ("lit", 1))]), [("lit", 5)])),
    ("contains", ("lit", "a"), ("call", ("new", [], [("a", ("lit", 1))]), [("lit", 5)])),
    ("eq", ("new", [], [("a", ("lit", 1))]), ("new", [], [("b", ("lit", 1.0))])),
    ("lt", ("new", [], [("a", ("lit", 1))]), ("new", [("lit", 1), ("lit", 0)], [])),
    ("hasheq", ("new", [], [("a", ("lit", [1]))])),
    ("getitem", ("new", [], [("a", ("lit", 1)), ("b", ("lit", 2))]), ("lit", slice(0, 1))),
]


def _row_outcomes(s, libs):
    res = []
    for lib in libs:
        res.append(outcome(lambda: ex(s, lib.Row), lib.Row))
    return res


def shrink_script(s, libs, limit=200):
    def bad(c):
        try:
            a, b = _row_outcomes(c, libs)
        except (NotEncodable, RecursionError):
            return False
        return a != b and not has_top_decimal(c)
    n = 0
    changed = True
    while changed and n < limit:
        changed = False
        for c in s_children(s):
            n += 1
            if bad(c):
                s, changed = c, True
                break
    return s


def has_noniterable_fields(s) -> bool:
    if s[0] == "setattr" and s[2] == "__fields__" and s[3][0] == "lit" and not isinstance(s[3][1], (list, tuple, str, dict)):
        return True
    return any(has_noniterable_fields(c) for c in s_children(s))


def script_signature(s, in_dom: bool, outs=None) -> str:
    # the (repaired) Decimal deviation: PySpark's outcome still holds a Decimal that sqlframe's has turned into a float
    if has_top_decimal(s) and not in_dom and (outs is None or ("VDec" in outs[1] and "VDec" not in outs[0])):
        return KNOWN_DECIMAL
    if outs == ["(OExc EType)", "(OExc ELib)"] and has_noniterable_fields(s) and "call" in s_kinds(s):
        return KNOWN_MSG
    return "C19/row-script-differs:" + ">".join(s_kinds(s)[:3])


def build_input(lib, specs, is_actual, kind, sch, sch2):
    """rows (or a DataFrame-like object) of one side, built with that library's constructors"""
    if specs is None:
        return None
    rows = [build(x, lib.Row) for x in specs]
    if (kind.startswith("df-") and is_actual) or (kind in ("df-df", "list-df", "df-df-schema") and not is_actual):
        return FakeDF(build_type(sch if is_actual else sch2, lib.T), rows)
    return rows


def helper_outcomes(libs, a_spec, e_spec, kind, sch, sch2, order, rtol, atol):
    outs = []
    for lib in libs:
        a = build_input(lib, a_spec, True, kind, sch, sch2)
        e = build_input(lib, e_spec, False, kind, sch, sch2)
        outs.append(outcome(helper_call(lib, a, e, order, rtol, atol), lib.Row, helper=True))
    return outs


def shrink_helper(libs, m):
    """drop rows / DataFrame wrappers while the two verdicts still differ"""
    a, e, kind = list(m["actual"] or []), list(m["expected"] or []), m["kind"]
    if m["actual"] is None or m["expected"] is None:
        return m

    def bad(a_, e_, kind_):
        try:
            o = helper_outcomes(libs, a_, e_, kind_, m["sch"], m["sch2"], m["order"], m["rtol"], m["atol"])
        except Exception:  # noqa: BLE001
            return None
        return o if o[0] != o[1] else None
    changed = True
    while changed:
        changed = False
        if kind != "list" and bad(a, e, "list"):
            kind, changed = "list", True
            continue
        for i in range(max(len(a), len(e))):
            a2, e2 = a[:i] + a[i + 1:], e[:i] + e[i + 1:]
            if bad(a2, e2, kind):
                a, e, changed = a2, e2, True
                break
    o = bad(a, e, kind)
    if not o:
        return m
    return dict(m, actual=a, expected=e, kind=kind, o_sf=o[0], o_ps=o[1])


def helper_call(lib, act, exp, order, rtol, atol):
    return lambda: lib.U.assertDataFrameEqual(act, exp, checkRowOrder=order, rtol=rtol, atol=atol)


def run(ctx: core.Ctx):
    from translate import c19_py2g
    # ---- T1
    t1_ok = True
    try:
        texts, facts, skipped = c19_py2g.generate(core.REPO)
        for name, text in texts.items():
            ctx.gen(name, text)
        ctx.t1_facts += facts + [dict(x, kind="not-translated") for x in skipped]
    except Exception as ex_:  # fail-closed translator = broken proof obligation
        ctx.broken("T1:c19_py2g", f"{type(ex_).__name__}: {ex_}")
        t1_ok = False
    # ---- proofs
    proved = False
    gen = lambda n: f"{ctx.build}/gen/{n}.v"
    if t1_ok:
        proved = ctx.prove([gen("C19Sf"), gen("C19Ps"), core.COQ + "/props/C19.v"],
                           dep_theories=["C19/PyVal.v", "C19/Script.v", "C19/Check.v"])
    import os
    if not (os.path.exists(gen("C19Sf") + "o") and os.path.exists(gen("C19Ps") + "o")):
        # the case files need Gen.C19Sf/Ps: fall back to the translation of the pinned sources so the search can run
        for n in ("C19Sf", "C19Ps"):
            ctx.gen(n, open(f"{core.VERIF}/translate/c19_pinned_{n}.v").read())
            ctx.coqc(gen(n))
        ctx.log("using pinned translations for the correspondence run")
    # ---- T3
    libs = [Lib("sf"), Lib("ps")]
    sf, ps = libs
    rnd = random.Random(ctx.seed)
    quick = ctx.tier == "quick"
    hist = {"script_op": {}, "script_size": {}, "script_outcome_ps": {}, "helper_variant": {}, "helper_verdict_ps": {},
            "helper_input_kind": {}, "schema_verdict_ps": {}}

    def bump(h, k):
        hist[h][k] = hist[h].get(k, 0) + 1

    # -------- scripts
    g = SGen(rnd)
    scripts = list(CORPUS)
    for _ in range(1400 if quick else 14000):
        d = rnd.choice([1, 2, 2, 3])
        scripts.append(g.observe(d, top=True) if rnd.random() < 0.8 else g.row(d))
    items, metas, seen, unenc, unenc_why = [], [], set(), 0, []
    for s in scripts:
        try:
            text = s_coq(s)
            if text in seen:
                continue
            sides = []
            for lib in libs:
                try:
                    sides.append(outcome(lambda: ex(s, lib.Row), lib.Row))
                except (NotEncodable, RecursionError, ValueError) as ne:
                    sides.append(ne)
            if any(isinstance(x, Exception) for x in sides):
                # an outcome outside the modelled universe is skipped only when BOTH implementations leave it the same way
                kinds_ = [f"{type(x).__name__}: {str(x)[:120]}" if isinstance(x, Exception) else "encodable" for x in sides]
                if kinds_[0] != kinds_[1]:
                    ctx.deviation("C19/row-script-outcome-outside-model-on-one-side:" + ">".join(s_kinds(s)[:3]),
                                  "one implementation leaves the modelled universe of outcomes, the other does not",
                                  {"kind": "row-script", "script": s_str(s), "script_py": repr(s),
                                   "sqlframe": str(sides[0])[:300], "pyspark": str(sides[1])[:300]})
                unenc += 1
                if len(unenc_why) < 5:
                    unenc_why.append(kinds_[0])
                continue
            o_sf, o_ps = sides
        except (NotEncodable, ValueError) as ne:      # the script itself is not expressible as a Coq term
            unenc += 1
            if len(unenc_why) < 5:
                unenc_why.append(f"{type(ne).__name__}: {str(ne)[:120]}")
            continue
        seen.add(text)
        items.append(f"(mkS {text} {o_sf} {o_ps})")
        kinds = s_kinds(s)
        metas.append({"script": s, "kinds": kinds, "o_sf": o_sf, "o_ps": o_ps})
        for k in set(kinds):
            bump("script_op", k)
        bump("script_size", min(len(kinds), 12))
        bump("script_outcome_ps", o_ps.split()[0].strip("(") + (":" + o_ps.split()[1].strip(")") if o_ps.startswith("(OExc") else ""))
    ctx.log(f"{len(items)} distinct scripts ({unenc} not encodable)")
    res = ctx.cases("c19s", HEADER, items, per_file=120, result_ty="str", fn="check_s")
    n_dom = n_nontriv = 0
    model_fail, thm_fail = [], []
    for it, m, r in zip(items, metas, res):
        if r is None or len(r) != 5:
            continue
        msf, mps, same, dom, mm = (c == "1" for c in r)
        n_dom += dom
        s = m["script"]
        desc = {"kind": "row-script", "script": s_str(s), "script_py": repr(s), "sqlframe": m["o_sf"], "pyspark": m["o_ps"],
                "flags(model_sf=impl_sf,model_ps=impl_ps,impl_sf=impl_ps,in_domain,model_sf=model_ps)": r}
        if not same:
            sig = script_signature(s, dom, [m["o_sf"], m["o_ps"]])
            if sig != KNOWN_DECIMAL:
                s2 = shrink_script(s, libs)
                o2 = _row_outcomes(s2, libs)
                desc.update({"script": s_str(s2), "script_py": repr(s2), "sqlframe": o2[0], "pyspark": o2[1],
                             "shrunk_from": s_str(s)})
                sig = script_signature(s2, True, o2)
            ctx.deviation(sig, "Row operations give a different outcome under sqlframe.base.types.Row and pyspark.sql.types.Row", desc)
        elif not (msf and mps):
            model_fail.append(desc)
        if proved and dom and not mm:
            thm_fail.append(desc)
        if len(m["kinds"]) >= 3 and any(k in m["kinds"] for k in ("new", "call")):
            n_nontriv += 1
        if len(m["kinds"]) >= 5:
            ctx.sample({"script": s_str(s), "pyspark": m["o_ps"][:200], "flags": r})

    # -------- helper cases
    h_items, h_metas, h_seen = [], [], set()
    n_h = 1100 if quick else 10000
    specials = [("none-none", None, None), ("none-left", None, []), ("none-right", [], None)]
    for i in range(n_h + len(specials)):
        sch = sch2 = ("struct", [])
        if i < len(specials):
            variant, a_spec, e_spec = specials[i]
            order, rtol, atol = False, 1e-05, 1e-08
            topdec = False
            kind = "list"
        else:
            variant, a_spec, e_spec, order, rtol, atol = gen_helper_case(rnd)
            topdec = any(spec_has_top_decimal(x) for x in a_spec + e_spec)
            kind = rnd.choice(["list", "list", "list", "df-df", "df-list", "list-df", "df-df-schema"])
            sch = gen_struct(rnd, 1)
            sch2 = mutate_type(rnd, sch) if kind == "df-df-schema" else sch
        enc, outs = [], []
        try:
            for lib in libs:
                a = build_input(lib, a_spec, True, kind, sch, sch2)
                e = build_input(lib, e_spec, False, kind, sch, sch2)

                def encode(x, lib=lib):
                    if isinstance(x, FakeDF):
                        return f"(VDF {type_coq(x.schema, lib.T)} {listlit([to_coq(y, lib.Row) for y in x._rows])})"
                    return to_coq(x, lib.Row)
                enc += [encode(a), encode(e)]
                outs.append(outcome(helper_call(lib, a, e, order, rtol, atol), lib.Row, helper=True))
        except NotEncodable:
            unenc += 1
            continue
        except Exception as be:  # noqa: BLE001 - a constructor raised while building the inputs
            ctx.deviation("C19/row-construction-raises-while-building-helper-input",
                          f"building the rows of a helper case raised {type(be).__name__} under {lib.name}",
                          {"kind": "assertDataFrameEqual", "variant": variant, "input_kind": kind, "actual": repr(a_spec),
                           "expected": repr(e_spec), "schema_actual": repr(sch), "schema_expected": repr(sch2),
                           "checkRowOrder": order, "rtol": rtol, "atol": atol, "raised": f"{lib.name}: {be!r}"})
            continue
        text = (f"(mkH {enc[0]} {enc[1]} {enc[2]} {enc[3]} {boollit(order)} {to_coq(rtol, type(None))} "
                f"{to_coq(atol, type(None))} {outs[0]} {outs[1]})")
        if text in h_seen:
            continue
        h_seen.add(text)
        h_items.append(text)
        h_metas.append({"variant": variant, "kind": kind, "sch": sch, "sch2": sch2, "actual": a_spec, "expected": e_spec, "order": order,
                        "rtol": rtol, "atol": atol, "o_sf": outs[0], "o_ps": outs[1],
                        # shape of the (repaired) Decimal deviation: sqlframe's rows lost Decimals that PySpark's rows hold
                        "topdec": topdec and (enc[0] + enc[1]).count("VDec") < (enc[2] + enc[3]).count("VDec")})
        bump("helper_variant", variant)
        bump("helper_verdict_ps", outs[1])
        bump("helper_input_kind", kind)
    ctx.log(f"{len(h_items)} distinct helper cases")
    h_res = ctx.cases("c19h", HEADER, h_items, per_file=100, result_ty="str", fn="check_h")
    n_shrunk = 0
    for it, m, r in zip(h_items, h_metas, h_res):
        if r is None or len(r) != 5:
            continue
        msf, mps, same, same_in, mm = (c == "1" for c in r)
        def hdesc(m):
            return {"kind": "assertDataFrameEqual", "variant": m["variant"], "input_kind": m["kind"],
                    "schema_actual": repr(m["sch"]), "schema_expected": repr(m["sch2"]),
                    "actual": repr(m["actual"]), "expected": repr(m["expected"]),
                    "checkRowOrder": m["order"], "rtol": m["rtol"], "atol": m["atol"], "sqlframe": m["o_sf"],
                    "pyspark": m["o_ps"],
                    "flags(model_sf=impl_sf,model_ps=impl_ps,impl_sf=impl_ps,same_inputs,model_sf=model_ps)": r}
        desc = hdesc(m)
        if not same:
            sig = KNOWN_DECIMAL if (m["topdec"] and not same_in) else "C19/assertDataFrameEqual-verdict-differs:" + m["variant"]
            if sig != KNOWN_DECIMAL and n_shrunk < 12:
                n_shrunk += 1
                desc = hdesc(shrink_helper(libs, m))
            ctx.deviation(sig, "assertDataFrameEqual accepts/rejects differently from PySpark's helper", desc)
        elif not (msf and mps):
            model_fail.append(desc)
        if proved and same_in and not mm:
            thm_fail.append(desc)
        if m["actual"] and m["expected"] and m["variant"] != "equal":
            n_nontriv += 1
    # -------- schema cases
    t_items, t_metas = [], []
    for i in range(300 if quick else 3000):
        t1 = gen_struct(rnd, 2)
        k = rnd.random()
        if k < 0.2:
            t2 = t1
        elif k < 0.9:
            t2 = mutate_type(rnd, t1)
            if rnd.random() < 0.3:
                t2 = mutate_type(rnd, t2)
        elif k < 0.95:
            t2 = rnd.choice([("notatype", None), ("notatype", [1]), ("array", t1, True), ("atom", "LongType")])
        else:
            t1, t2 = rnd.choice([("notatype", None), ("atom", "StringType")]), t1
        outs, encs = [], []
        for lib in libs:
            a, e = build_type(t1, lib.T), build_type(t2, lib.T)
            encs.append((type_coq(a, lib.T), type_coq(e, lib.T)))
            outs.append(outcome(lambda: lib.U.assertSchemaEqual(a, e), lib.Row, helper=True))
        if encs[0] != encs[1]:
            ctx.broken("T3:datatype-encoding", f"sqlframe and PySpark DataType objects differ in typeName/shape: {encs[0]} vs {encs[1]}")
            continue
        t_items.append(f"(mkT {encs[0][0]} {encs[0][1]} {outs[0]} {outs[1]})")
        t_metas.append({"actual": t1, "expected": t2, "o_sf": outs[0], "o_ps": outs[1]})
        bump("schema_verdict_ps", outs[1])
    t_res = ctx.cases("c19t", HEADER, t_items, per_file=100, result_ty="str", fn="check_t")
    for it, m, r in zip(t_items, t_metas, t_res):
        if r is None or len(r) != 5:
            continue
        msf, mps, same, _, mm = (c == "1" for c in r)
        desc = {"kind": "assertSchemaEqual", "actual": repr(m["actual"]), "expected": repr(m["expected"]),
                "sqlframe": m["o_sf"], "pyspark": m["o_ps"], "flags": r}
        if not same:
            ctx.deviation("C19/assertSchemaEqual-verdict-differs", "assertSchemaEqual accepts/rejects differently from PySpark's helper", desc)
        elif not (msf and mps):
            model_fail.append(desc)
        if proved and not mm:
            thm_fail.append(desc)
        if m["actual"] != m["expected"]:
            n_nontriv += 1
    if os.environ.get("C19_DEBUG"):
        import json
        with open(os.environ["C19_DEBUG"], "w") as f:
            json.dump({"model_fail": model_fail, "thm_fail": thm_fail}, f, indent=1, default=str)
    if model_fail:
        ctx.broken("T3:impl-vs-model", f"{len(model_fail)} cases where both implementations agree but a generated model "
                   f"computes something else; first: {str(model_fail[0])[:600]}", data=model_fail[:5])
    if thm_fail:
        ctx.broken("theorem-vs-evaluation", "in-domain case on which the two generated models evaluate differently: "
                   + str(thm_fail[0])[:600], data=thm_fail[:3])
    total = len(items) + len(h_items) + len(t_items)
    ctx.coverage.update({
        "evaluations": total, "distinct_nontrivial": n_nontriv,
        "rule": "case = Row-operation script | (actual, expected, checkRowOrder, rtol, atol) | (schema, schema); each run on "
                "both real implementations and both generated models; distinct by Coq case text; non-trivial = script with "
                ">= 3 nodes that constructs a Row | helper pair with non-empty sides that is not the 'equal' variant | "
                "schema pair that differs",
        "scripts": len(items), "scripts_in_theorem_domain": n_dom, "helper_cases": len(h_items), "schema_cases": len(t_items),
        "not_encodable_skipped": unenc, "not_encodable_examples": unenc_why,
        "histogram_script_operation": hist["script_op"], "histogram_script_size": hist["script_size"],
        "histogram_script_outcome_pyspark": hist["script_outcome_ps"], "histogram_helper_variant": hist["helper_variant"],
        "histogram_helper_verdict_pyspark": hist["helper_verdict_ps"], "histogram_helper_input_kind": hist["helper_input_kind"],
        "histogram_schema_verdict_pyspark": hist["schema_verdict_ps"],
    })
    ctx.assumptions += [
        "SF.C19.PyVal is my definition of the CPython primitives Row and the helpers call (tuple/list/dict protocol, ==, <, "
        "repr, % formatting, sorted, IEEE double arithmetic via PrimFloat); validated only by T3 on both real implementations",
        "float repr text and Decimal->float conversion are carried in the value (CPython environment), not computed",
        "recursion goes through method records with an explicit budget (a CPython stack frame per call); theorems hold for every budget",
        "PySpark's pandas / pandas-on-Spark / Spark Connect / streaming branches and the text of error messages are not "
        "translated (listed under t1_facts kind=not-translated); inputs are None, lists of rows, or DataFrame-like objects",
        "exception classes are compared by situation: sqlframe RowError ~ PySparkValueError/PySparkTypeError (ELib); "
        "DataFrameDiffError ~ DIFFERENT_ROWS; SchemaDiffError ~ DIFFERENT_SCHEMA; SQLFrameException/RuntimeError('must be a "
        "StructType') ~ INVALID_TYPE_DF_EQUALITY_ARG/UNSUPPORTED_DATA_TYPE (EArg); builtin exceptions by class",
        "dict keys and positional Row-class field names are atoms (str/int/bool/None); strings are ASCII printable",
    ]
    ctx.trusted += ["translate/c19_py2g.py (Python ast -> Gallina, fail-closed); checks/c19.py (generators, encoders)",
                    "PrimFloat/Uint63 primitives appear under Print Assumptions (Coq's, not declared here)"]


def replay(ctx: core.Ctx, rp: dict) -> int:
    """re-run the input of a replay file on both real implementations and print what each returns"""
    r = rp.get("replay") or (rp.get("no_longer_checks") or [{}])[0].get("data", [{}])[0]
    libs = [Lib("sf"), Lib("ps")]
    env = {"Decimal": Decimal, "nan": float("nan"), "inf": float("inf"), "slice": slice}
    kind = r.get("kind")
    if kind == "row-script":
        s = eval(r["script_py"], env)
        print("script:", s_str(s))
        outs = _row_outcomes(s, libs)
    elif kind == "assertDataFrameEqual":
        a_spec, e_spec = eval(r["actual"], env), eval(r["expected"], env)
        ik = r.get("input_kind", "list")
        sch, sch2 = eval(r.get("schema_actual", "('struct', [])"), env), eval(r.get("schema_expected", "('struct', [])"), env)
        print("actual:", a_spec, "\nexpected:", e_spec, "\ninput kind:", ik, sch, sch2,
              "\noptions:", r["checkRowOrder"], r["rtol"], r["atol"])
        outs = helper_outcomes(libs, a_spec, e_spec, ik, sch, sch2, r["checkRowOrder"], r["rtol"], r["atol"])
    elif kind == "assertSchemaEqual":
        t1, t2 = eval(r["actual"], env), eval(r["expected"], env)
        outs = []
        for lib in libs:
            a, e = build_type(t1, lib.T), build_type(t2, lib.T)
            outs.append(outcome(lambda: lib.U.assertSchemaEqual(a, e), lib.Row, helper=True))
    else:
        print("nothing to replay in", list(r))
        return 0
    print("sqlframe:", outs[0])
    print("pyspark :", outs[1])
    print("recorded: sqlframe", r.get("sqlframe"), "| pyspark", r.get("pyspark"))
    print("DEVIATES" if outs[0] != outs[1] else "agree")
    return 1 if outs[0] != outs[1] else 0
