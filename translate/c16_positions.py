"""C16: PySpark signatures -> call vectors (which positional slot is tested, what the other arguments are).

Shared by the recorder (oracle/record_c16.py, live PySpark), by the implementation runner
(checks/c16_runner.py, real sqlframe calls) and by the check (Coq encoding of the same vectors), so the three
sides are guaranteed to talk about the same calls.

Nothing of PySpark is imported here: signatures are read from the installed source with `ast` and only the
annotation TEXT is used.  Fail-closed: an annotation that is not in the table below makes the vector unusable
(`unsampled`), it is never given a guessed value.
"""
from __future__ import annotations

import ast
import os
import re

NAME_ANNS = {
    "'ColumnOrName'": "name",
    "Optional['ColumnOrName']": "name",
    "Union['ColumnOrName', int]": "name",
    "Union['ColumnOrName', float]": "name",
    "Union['ColumnOrName', Union[List['ColumnOrName_'], Tuple['ColumnOrName_', ...]]]": "name",
}

# per (function, parameter) overrides of the sample value of a NON-tested argument (validated values that the
# function itself inspects)
OVERRIDES = {
    ("sha2", "numBits"): {"t": "int", "v": 256},
    ("regexp_extract", "idx"): {"t": "int", "v": 1},
    ("approx_count_distinct", "rsd"): {"t": "float", "v": "0.05"},
    ("approxCountDistinct", "rsd"): {"t": "float", "v": "0.05"},
}
STR_BY_PARAM = {
    "format": "yyyy-MM-dd", "schema": "a INT", "dayOfWeek": "Mon", "charset": "UTF-8", "pattern": "a",
    "path": "$.a", "funcName": "f", "unit": "year", "field": "year", "delim": ",", "delimiter": ",",
    "sep": "-", "substr": "b", "matching": "a", "replace": "b", "pad": "x", "fmt": "yyyy", "tz": "UTC",
    "windowDuration": "1 minute", "slideDuration": "1 minute", "startTime": "0 seconds", "gapDuration": "1 minute",
}


def probe_names():
    """single source of the probe names: Definition probe_names in coq/theories/C16/Known.v"""
    here = os.path.dirname(os.path.dirname(os.path.abspath(__file__)))
    with open(os.path.join(here, "coq", "theories", "C16", "Known.v")) as f:
        txt = f.read()
    m = re.search(r"Definition probe_names : list string := \[(.*?)\]\.", txt, re.S)
    return re.findall(r'"([^"]*)"', m.group(1))


def pyspark_functions_path():
    import importlib.util
    spec = importlib.util.find_spec("pyspark")
    if spec is None or not spec.submodule_search_locations:
        return None
    return os.path.join(list(spec.submodule_search_locations)[0], "sql", "functions.py")


def read_pyspark_signatures(path=None):
    """{name: {"params": [{"kind": pos|var|kwonly, "name", "ann", "has_default"}]}} for every public,
    non-overload def of pyspark/sql/functions.py"""
    path = path or pyspark_functions_path()
    with open(path) as f:
        tree = ast.parse(f.read())
    out = {}
    for fn in tree.body:
        if not isinstance(fn, ast.FunctionDef) or fn.name.startswith("_"):
            continue
        if any("overload" in ast.unparse(d) for d in fn.decorator_list):
            continue
        a = fn.args
        pos = a.posonlyargs + a.args
        nd = len(a.defaults)
        params = []
        for i, x in enumerate(pos):
            params.append({"kind": "pos", "name": x.arg,
                           "ann": ast.unparse(x.annotation) if x.annotation else None,
                           "has_default": i >= len(pos) - nd})
        if a.vararg:
            params.append({"kind": "var", "name": a.vararg.arg,
                           "ann": ast.unparse(a.vararg.annotation) if a.vararg.annotation else None,
                           "has_default": True})
        for x, d in zip(a.kwonlyargs, a.kw_defaults):
            params.append({"kind": "kwonly", "name": x.arg,
                           "ann": ast.unparse(x.annotation) if x.annotation else None,
                           "has_default": d is not None})
        out[fn.name] = {"params": params}
    return out


def accepts_name(ann) -> bool:
    return ann in NAME_ANNS


def lambda_arity(ann: str):
    m = re.search(r"Callable\[\[([^\]]*)\]", ann)
    if not m:
        return None
    return len([x for x in m.group(1).split(",") if x.strip()])


def sample(fname: str, p: dict, idx: int, var_len: int = 0):
    """sample value for a NON-tested argument, or None when the annotation is outside the table"""
    ann, pname = p["ann"], p["name"]
    if (fname, pname) in (("format_string", "format"), ("printf", "format")) and not accepts_name(ann):
        return {"t": "str", "v": "%s-" * var_len}        # as many placeholders as *cols
    if (fname, pname) in OVERRIDES:
        return dict(OVERRIDES[(fname, pname)])
    if ann is None:
        return None
    if accepts_name(ann):
        return {"t": "col", "name": f"a{idx}"}
    a = ann
    m = re.fullmatch(r"Optional\[(.*)\]", a)
    if m:
        a = m.group(1)
    if a in ("Column", "'Column'", "Union[Column, str]", "Union[str, Column]", "Union[Column, int]",
             "Union[Column, float]", "Union[int, Column]", "Union[bool, Column]",
             "Union[Column, float, List[float], Tuple[float]]", "Union[ArrayType, StructType, Column, str]"):
        if a in ("Union[Column, float, List[float], Tuple[float]]",):
            return {"t": "float", "v": "0.5"}
        if a in ("Union[Column, int]", "Union[int, Column]"):
            return {"t": "int", "v": 2}
        if a in ("Union[Column, float]",):
            return {"t": "int", "v": 100}
        if a in ("Union[bool, Column]",):
            return {"t": "bool", "v": True}
        if a in ("Union[Column, str]", "Union[str, Column]", "Union[ArrayType, StructType, Column, str]"):
            return {"t": "str", "v": STR_BY_PARAM.get(pname, "s")}
        return {"t": "col", "name": f"a{idx}"}
    if a == "str":
        return {"t": "str", "v": STR_BY_PARAM.get(pname, "s")}
    if a == "int":
        return {"t": "int", "v": 2}
    if a == "float":
        return {"t": "float", "v": "0.5"}
    if a == "bool":
        return {"t": "bool", "v": True}
    if a == "Any":
        return {"t": "int", "v": 1}
    if a.startswith("Callable") or a.startswith("Union[Callable"):
        n = lambda_arity(a)
        if n in (1, 2, 3):
            return {"t": "lambda", "n": n}
        return None
    return None     # Dict options, DataFrame, DataTypeOrString, Type ...: not sampled


def call_vectors(fname: str, sig: dict):
    """All call vectors for one function: list of {"pos": p, "param": name, "args": [...], "variant": str}.
    args[p] == {"t": "test"}.  Two variants per tested positional parameter: `min` (required parameters plus
    everything up to p) and `full` (all positional parameters); for *varargs one and two elements."""
    params = sig["params"]
    pos = [p for p in params if p["kind"] == "pos"]
    var = [p for p in params if p["kind"] == "var"]
    nreq = len([p for p in pos if not p["has_default"]])
    out, seen = [], set()

    def emit(p_index, pname, n_pos, var_len, variant, others_as_names=False):
        args = []
        for i in range(n_pos):
            if i == p_index:
                args.append({"t": "test"})
                continue
            s = sample(fname, pos[i], i, var_len)
            if s is None:
                if pos[i]["has_default"] and i > p_index and variant == "full":
                    # cannot sample an optional parameter behind the tested one: stop the vector there
                    break
                return
            args.append(s)
        else:
            for j in range(var_len):
                k = len(pos) + j
                if k == p_index:
                    args.append({"t": "test"})
                else:
                    s = sample(fname, var[0], k)
                    if s is None:
                        return
                    args.append(s)
        if p_index >= len(args):
            return
        if others_as_names:
            # the everyday PySpark style: every other column argument is given by NAME as well
            args = [{"t": "name", "name": a["name"]} if a["t"] == "col" else a for a in args]
        key = repr(args)
        if key in seen:
            return
        seen.add(key)
        out.append({"pos": p_index, "param": pname, "args": args, "variant": variant})

    for i, p in enumerate(pos):
        if not accepts_name(p["ann"]):
            continue
        emit(i, p["name"], max(nreq, i + 1), 0, "min")
        emit(i, p["name"], max(nreq, i + 1), 0, "min-names", others_as_names=True)
        emit(i, p["name"], len(pos), 0, "full")
        if var:
            emit(i, p["name"], len(pos), 1, "var1")
    if var and accepts_name(var[0]["ann"]):
        for k in (1, 2, 3):
            for j in range(k):
                emit(len(pos) + j, var[0]["name"], len(pos), k, f"var{k}")
        for j in range(2):
            emit(len(pos) + j, var[0]["name"], len(pos), 2, "var2-names", others_as_names=True)
    return out


def materialise(args, F, cname: str, as_col: bool):
    """python values for one vector against a functions module F (pyspark's or an engine's of sqlframe)"""
    vals = []
    for a in args:
        t = a["t"]
        if t == "test":
            vals.append(F.col(cname) if as_col else cname)
        elif t == "col":
            vals.append(F.col(a["name"]))
        elif t == "name":
            vals.append(a["name"])
        elif t == "int":
            vals.append(int(a["v"]))
        elif t == "float":
            vals.append(float(a["v"]))
        elif t == "bool":
            vals.append(bool(a["v"]))
        elif t == "str":
            vals.append(a["v"])
        elif t == "lambda":
            n = a["n"]
            vals.append({1: (lambda x: x), 2: (lambda x, y: x), 3: (lambda x, y, z: x)}[n])
        else:
            raise ValueError(a)
    return vals


def coq_arg(a, cname: str, as_col: bool) -> str:
    """the same vector as a Coq `sarg` term (C16/Fexp.v)"""
    from vlib.core import strlit, zlit
    t = a["t"]
    if t == "test":
        return f"({'SCol' if as_col else 'SStr'} {strlit(cname)})"
    if t == "col":
        return f"(SCol {strlit(a['name'])})"
    if t == "name":
        return f"(SStr {strlit(a['name'])})"
    if t == "int":
        return f"(SInt {zlit(a['v'])})"
    if t == "float":
        return f"(SFloat {strlit(str(a['v']))})"
    if t == "bool":
        return f"(SBool {'true' if a['v'] else 'false'})"
    if t == "str":
        return f"(SStr {strlit(a['v'])})"
    if t == "lambda":
        return f"(SLam {int(a['n'])})"
    raise ValueError(a)
