(* GENERATED from /repo on every run by translate/c11_facts.py -- do not edit *)
From SF Require Import C11.Actions.
Open Scope Z_scope.
Definition head_arg (n : option Z) : Z := (match n with None => (1)%Z | Some n => n end).
Definition head_scalar (n : option Z) : bool := (match n with None => true | Some _ => false end).
Definition head_index : Z := (0)%Z.
Definition first_arg : option Z := None.
Definition count_wraps : bool := true.
Definition count_append : bool := false.
Definition count_star : bool := true.
Definition count_pick : nat * nat := (0%nat, 0%nat).
Definition isempty_item : expr * string := (ELit (VBool true), "lit"%string).
Definition isempty_head_arg : option Z := None.
Definition isempty_negates : bool := true.
Definition show_default : Z := (20)%Z.
Definition show_wraps : bool := false.
Definition show_arg (n : Z) : Z := n.
Definition show_header_needs_row : bool := false.
Definition gen_rename (fields : list string) (i : nat) (field : string) : string := (while_fresh (fun unique => (mem unique fields)) (fun n => ((field ++ "_"%string)%string ++ (str_of_nat n))%string) field i (S (List.length fields))).
Definition gen_afacts : afacts := mkA head_arg head_scalar head_index first_arg count_wraps count_append count_star count_pick isempty_item isempty_head_arg isempty_negates show_default show_wraps show_arg show_header_needs_row gen_rename.
Definition unique_field_names : list string -> list string := ufn gen_rename.
Definition path_of (k : action) : spath := match k with ACollect => mkPath false true false | AToPandas => mkPath false true false | AToArrow => mkPath false true false end.
Definition arrow_executes_before_reading : bool := true.
Definition action_writes : list (string * list string) := [("collect"%string, []); ("_collect"%string, []); ("head"%string, []); ("first"%string, []); ("show"%string, []); ("toPandas"%string, []); ("count"%string, []); ("isEmpty"%string, []); ("toArrow"%string, [])].

