"""T1 for C18: regenerate from /repo (fail-closed) the facts the session model rests on

  * every access to a session registry in sqlframe/base and sqlframe/duckdb: (function, registry, kind of access)
    -- the Coq side decides whether the table is one the model covers (C18.Facts.accesses_ok)
  * normalize.py: the alias lookup is intersected with the sequence ids of the expression's own CTEs
  * catalog.add_table: add-if-absent (early return when the table is already cached) or update
  * TypedColumnsFromTempViewMixin._typed_columns: temporary view named by a random id; dropped again or not
  * the hash-name formula and that hashing happens over rendered text; the uuid literal of _add_ctes_to_expression
  * Operation enum, the wrapper's "start a new CTE" predicate, the decorator class of select/where/alias/join
  * singleton __new__, guarded __init__, the start value of the counter, the shape of the three id properties
"""
from __future__ import annotations

import ast
import os

from vlib import py2v
from vlib.py2v import Untranslatable, dotted

REGISTRIES = {"known_ids", "known_branch_ids", "known_sequence_ids", "name_to_sequence_id_mapping", "incrementing_id",
              "temp_views"}
PROPS = {"_random_id", "_random_branch_id", "_random_sequence_id", "_auto_incrementing_name"}
CALLS = {"_add_alias_to_mapping"}
SCAN_DIRS = ["sqlframe/base", "sqlframe/base/mixins", "sqlframe/duckdb"]


def _parents(tree):
    par = {}
    for n in ast.walk(tree):
        for c in ast.iter_child_nodes(n):
            par[c] = n
    return par


def _qualname(node, par, modname):
    fn, cls = None, None
    cur = node
    while cur in par:
        cur = par[cur]
        if isinstance(cur, (ast.FunctionDef, ast.AsyncFunctionDef)):
            fn = cur.name if fn is None or isinstance(par.get(cur), ast.ClassDef) else fn
            if isinstance(par.get(cur), ast.ClassDef):
                fn = cur.name
        if isinstance(cur, ast.ClassDef) and cls is None:
            cls = cur.name
    if fn is None:
        return (cls or modname) + ".<body>"
    return f"{cls}.{fn}" if cls else f"{modname}.{fn}"


def _kind(node, par, where):
    """how the attribute `X.<registry>` is used"""
    p = par[node]
    name = node.attr
    if name in PROPS:
        if isinstance(node.ctx, ast.Load):
            return "draw"
        raise Untranslatable(f"{where}: {name} is assigned to")
    if name in CALLS:
        if isinstance(p, ast.Call) and p.func is node:
            return "call"
        raise Untranslatable(f"{where}: {name} used without being called")
    if isinstance(p, ast.Attribute) and p.value is node:
        gp = par.get(p)
        if isinstance(gp, ast.Call) and gp.func is p and p.attr in ("add", "get", "keys", "append", "pop", "clear", "update",
                                                                      "remove", "discard", "items", "values", "setdefault"):
            return p.attr
        raise Untranslatable(f"{where}: unknown use .{p.attr} of {name}")
    if isinstance(p, ast.Subscript) and p.value is node:
        if isinstance(p.ctx, ast.Store):
            return "store"
        if isinstance(p.ctx, ast.Del):
            return "delete"
        gp = par.get(p)
        if isinstance(gp, ast.Attribute) and gp.value is p:
            ggp = par.get(gp)
            if isinstance(ggp, ast.Call) and ggp.func is gp and gp.attr == "append":
                return "append"
            raise Untranslatable(f"{where}: unknown use [..].{gp.attr} of {name}")
        return "index"
    if isinstance(p, ast.Compare) and node in p.comparators and all(isinstance(o, (ast.In, ast.NotIn)) for o in p.ops):
        return "member"
    if isinstance(p, (ast.Assign, ast.AnnAssign)) and isinstance(node.ctx, ast.Store):
        return "init"
    if isinstance(p, ast.AugAssign) and p.target is node:
        return "incr"
    if isinstance(p, (ast.If, ast.While)) and p.test is node:
        return "truth"
    if isinstance(p, ast.FormattedValue):
        return "read"
    if isinstance(p, ast.For) and p.iter is node:
        return "iter"
    if isinstance(p, ast.comprehension) and p.iter is node:
        return "iter"
    raise Untranslatable(f"{where}: cannot classify the use of {name} ({type(p).__name__})")


def registry_accesses(repo):
    out = []
    for d in SCAN_DIRS:
        full = os.path.join(repo, d)
        for fn in sorted(os.listdir(full)):
            if not fn.endswith(".py"):
                continue
            path = os.path.join(full, fn)
            tree, src = py2v.load(path)
            par = _parents(tree)
            mod = fn[:-3]
            for n in ast.walk(tree):
                if isinstance(n, ast.Attribute) and n.attr in REGISTRIES | PROPS | CALLS:
                    q = _qualname(n, par, mod)
                    where = f"{d}/{fn}:{n.lineno}"
                    k = _kind(n, par, where)
                    recv = dotted(n.value) or "?"
                    # BaseDataFrame has an unrelated list attribute of the same name
                    if n.attr == "temp_views" and recv == "self" and q.startswith("BaseDataFrame."):
                        k = "df_attr"
                    out.append((q, n.attr, k, where))
    return out


# ---------------------------------------------------------------------------------------------------

# ---------------------------------------------------------------------------------------------------
# tolerant matching: everything below looks at NORMALISED functions (py2v.normalize_func: no docstrings, comments,
# annotations, typing.cast, logging, `pass`).  `same_func` compares a whole function with pinned reference texts up to
# alpha-renaming of locals; `has` looks for statements/expressions in which names _L1, _L2, ... stand for any local name
# (bound consistently).  What is pinned is unchanged: the data flow and the calls, not the spelling.

def _body(fn):
    return py2v.norm_body(fn, rename_locals=False)


def _ref(src: str) -> ast.FunctionDef:
    import textwrap
    return ast.parse(textwrap.dedent(src)).body[0]


def same_func(fn, refs: dict):
    """refs: {value: reference source}; returns the value whose reference equals fn up to normalisation, else None"""
    d = py2v.norm_dump(fn)
    for val, src in refs.items():
        if py2v.norm_dump(_ref(src)) == d:
            return val
    return None


def _m(p, n, b) -> bool:
    if isinstance(p, ast.Name) and p.id.startswith("_L"):
        if not isinstance(n, ast.Name):
            return False
        if p.id in b:
            return b[p.id] == n.id
        if n.id in b.values():
            return False
        b[p.id] = n.id
        return True
    if type(p) is not type(n):
        return False
    for f in p._fields:
        if f in ("ctx", "type_comment", "kind"):
            continue
        pv, nv = getattr(p, f, None), getattr(n, f, None)
        if isinstance(pv, list):
            if not isinstance(nv, list) or len(pv) != len(nv):
                return False
            for x, y in zip(pv, nv):
                if isinstance(x, ast.AST):
                    if not _m(x, y, b):
                        return False
                elif x != y:
                    return False
        elif isinstance(pv, ast.AST):
            if not isinstance(nv, ast.AST) or not _m(pv, nv, b):
                return False
        elif pv != nv:
            return False
    return True


def has(fn, patterns, what: str):
    """every pattern (a statement or an expression; If/For/While patterns are matched on their header only) occurs in the
    normalised function, with one consistent binding of the _L names; raises Untranslatable otherwise"""
    nf = py2v.normalize_func(fn, rename_locals=False)
    nodes = list(ast.walk(nf))

    def parse(pt):
        st = ast.parse(pt).body[0]
        return st.value if isinstance(st, ast.Expr) else st

    pats = [parse(x) for x in patterns]

    def go(i, b):
        if i == len(pats):
            return True
        for n in nodes:
            b2 = dict(b)
            if _m(pats[i], n, b2) and go(i + 1, b2):
                return True
        return False
    # report the first pattern that cannot be matched on its own prefix
    for k in range(1, len(pats) + 1):
        saved = pats
        pats = saved[:k]
        ok = go(0, {})
        pats = saved
        if not ok:
            raise Untranslatable(f"{what}: `{patterns[k - 1]}` not found")
    return True


ALIAS_SCOPED = """
def replace_alias_name_with_cte_name(session, expression_context, id):
    normalized_id = session._normalize_string(id.alias_or_name)
    if normalized_id in session.name_to_sequence_id_mapping:
        for cte in reversed(expression_context.ctes):
            if cte.args["sequence_id"] in session.name_to_sequence_id_mapping[normalized_id]:
                _set_alias_name(id, cte.alias_or_name)
                break
"""
ALIAS_UNSCOPED = """
def replace_alias_name_with_cte_name(session, expression_context, id):
    normalized_id = session._normalize_string(id.alias_or_name)
    if normalized_id in session.name_to_sequence_id_mapping:
        for cte in reversed(expression_context.ctes):
            _set_alias_name(id, cte.alias_or_name)
            break
"""
ID_RESOLUTION = """
def replace_branch_and_sequence_ids_with_cte_name(session, expression_context, id):
    normalized_id = session._normalize_string(id.alias_or_name)
    if normalized_id in session.known_ids:
        if expression_context.args.get("joins") and normalized_id in session.known_branch_ids:
            join_table_aliases = [x.alias_or_name for x in get_tables_from_expression_with_join(expression_context)]
            ctes_in_join = [cte for cte in expression_context.ctes if cte.alias_or_name in join_table_aliases]
            if ctes_in_join[0].args["branch_id"] == ctes_in_join[1].args["branch_id"]:
                assert len(ctes_in_join) == 2
                _set_alias_name(id, ctes_in_join[0].alias_or_name)
                return
        for cte in reversed(expression_context.ctes):
            if normalized_id in (cte.args["branch_id"], cte.args["sequence_id"]):
                _set_alias_name(id, cte.alias_or_name)
                return
"""
NORMALIZE = """
def normalize(session, expression_context, expr):
    expr = ensure_list(expr)
    expressions = _ensure_expressions(expr)
    for expression in expressions:
        identifiers = expression.find_all(exp.Identifier)
        for identifier in identifiers:
            identifier.transform(session.input_dialect.normalize_identifier)
            replace_alias_name_with_cte_name(session, expression_context, identifier)
            replace_branch_and_sequence_ids_with_cte_name(session, expression_context, identifier)
"""


def alias_scoping(norm_tree):
    f = py2v.find_func(norm_tree, "replace_alias_name_with_cte_name")
    r = same_func(f, {True: ALIAS_SCOPED, False: ALIAS_UNSCOPED})
    if r is None:
        raise Untranslatable("replace_alias_name_with_cte_name: neither the scoped lookup nor a shape I can read")
    return r


def id_resolution_shape(norm_tree):
    if same_func(py2v.find_func(norm_tree, "replace_branch_and_sequence_ids_with_cte_name"), {True: ID_RESOLUTION}) is None:
        raise Untranslatable("replace_branch_and_sequence_ids_with_cte_name: shape changed")
    if same_func(py2v.find_func(norm_tree, "normalize"), {True: NORMALIZE}) is None:
        raise Untranslatable("normalize: order/shape of the two replacement calls changed")
    return True


def schema_cache_policy(cat_tree):
    f = py2v.find_method(cat_tree, "_BaseCatalog", "add_table")
    b = _body(f)
    tparam = f.args.args[1].arg
    if not b or ast.unparse(b[0]) != f"{tparam} = self.ensure_table({tparam})":
        raise Untranslatable("add_table: first statement changed")
    src_last = ast.unparse(b[-1])
    if not src_last.startswith(f"self._schema.add_table({tparam}, column_mapping"):
        raise Untranslatable("add_table: does not end in self._schema.add_table(table, column_mapping, ...)")
    guards = [s for s in b if isinstance(s, ast.If) and f"self._schema.find({tparam})" in ast.unparse(s.test)]
    if not guards:
        # no early return when a column mapping is supplied: sqlglot's MappingSchema.add_table overwrites the entry
        # (nested_set).  Returns are accepted only inside the `if column_mapping is None:` branch (nothing to refresh from).
        inside = set()
        for st in b:
            if isinstance(st, ast.If) and ast.unparse(st.test) == "column_mapping is None":
                inside |= {id(n) for n in ast.walk(st) if isinstance(n, ast.Return)}
        for st in b:
            for n in ast.walk(st):
                if isinstance(n, ast.Return) and id(n) not in inside:
                    raise Untranslatable("add_table: a return outside the `column_mapping is None` branch")
        # the mapping handed to sqlglot must be the caller's: nothing may be merged in from the cached entry
        names = {n.id for st in b for n in ast.walk(st) if isinstance(n, ast.Name)}
        for st in b:
            if isinstance(st, ast.Assign) and ast.unparse(st.targets[0]) == "column_mapping" \
                    and not (isinstance(st.value, ast.Call) and dotted(st.value.func) == "ensure_column_mapping"):
                raise Untranslatable("add_table: column_mapping is rebuilt before it is stored")
        return False
    if len(guards) == 1 and ast.unparse(guards[0].test) == f"self._schema.find({tparam})" \
            and [ast.unparse(s) for s in guards[0].body] == ["return"] and not guards[0].orelse:
        return True
    raise Untranslatable("add_table: the guard on self._schema.find(table) has an unknown shape")


def schema_lookup(mix_tree):
    f = py2v.find_method(mix_tree, "TypedColumnsFromTempViewMixin", "_typed_columns")
    has(f, ["_L1 = exp.to_table(self.session._random_id)",
            "self.session._collect(exp.Create(this=_L1, kind='VIEW', replace=True, "
            "properties=exp.Properties(expressions=[exp.TemporaryProperty()]), expression=self.expression))",
            "self.session.catalog.listColumns(_L1.sql(dialect=self.session.input_dialect), include_temp=True)"],
        "_typed_columns")
    nf = py2v.normalize_func(f, rename_locals=False)
    drop_calls = [n for n in ast.walk(nf) if isinstance(n, ast.Call) and dotted(n.func) == "exp.Drop"]
    if not drop_calls and "DROP" not in ast.unparse(nf).upper():
        return False
    # accepted only if the drop is unconditional: in a finally block around the lookup
    for n in ast.walk(nf):
        if isinstance(n, ast.Try) and n.finalbody and not n.handlers:
            fin = ast.unparse(ast.Module(body=n.finalbody, type_ignores=[]))
            if "exp.Drop(" in fin and "kind='VIEW'" in fin and "self.session._collect(" in fin \
                    and any("listColumns" in ast.unparse(x) for x in n.body):
                return True
    raise Untranslatable("_typed_columns: a DROP exists but not as `finally` around the column lookup")


def hash_formula(df_tree):
    f = py2v.find_method(df_tree, "BaseDataFrame", "_create_hash_from_expression")
    b = [s for s in py2v.norm_body(f) if not isinstance(s, (ast.Import, ast.ImportFrom))]
    if len(b) != 3 or not isinstance(b[0], ast.Assign) or not isinstance(b[1], ast.Assign) or not isinstance(b[2], ast.Return):
        raise Untranslatable("_create_hash_from_expression: body shape changed")
    v0, v1 = ast.unparse(b[0].targets[0]), ast.unparse(b[1].targets[0])
    if ast.unparse(b[0].value) != "expression.sql(dialect=_BaseSession().input_dialect).encode('utf-8')":
        raise Untranslatable("_create_hash_from_expression: the hashed value is not the rendered SQL text")
    a1 = b[1]
    if not (isinstance(a1.value, ast.Subscript) and isinstance(a1.value.value, ast.JoinedStr)):
        raise Untranslatable("_create_hash_from_expression: hash is not an f-string slice")
    js = a1.value.value
    if not (len(js.values) == 2 and isinstance(js.values[0], ast.Constant) and isinstance(js.values[1], ast.FormattedValue)):
        raise Untranslatable("_create_hash_from_expression: f-string shape changed")
    prefix = js.values[0].value
    fn = ast.unparse(js.values[1].value)
    if fn != f"zlib.crc32({v0})":
        raise Untranslatable(f"_create_hash_from_expression: hashes with {fn}")
    sl = a1.value.slice
    if not (isinstance(sl, ast.Slice) and sl.lower is None and isinstance(sl.upper, ast.Constant) and sl.step is None):
        raise Untranslatable("_create_hash_from_expression: slice shape changed")
    if ast.unparse(b[2]) != f"return self.session._normalize_string({v1})":
        raise Untranslatable("_create_hash_from_expression: return changed")
    # names come from the hash wherever a CTE is named
    has(py2v.find_method(df_tree, "BaseDataFrame", "_create_cte_from_expression"),
        ["name = name or self._create_hash_from_expression(expression)"], "_create_cte_from_expression")
    has(py2v.find_method(df_tree, "BaseDataFrame", "_add_ctes_to_expression"),
        ["_L1 = {_L9.alias_or_name for _L9 in _L2}",                    # names of the CTEs that are already there
         "_L3.alias_or_name in _L1",                                     # the duplicate test
         "_L3 = _L3.transform(replace_id_value, _L4, copy=False)",       # earlier renames reach later CTEs, in place
         "self.session._auto_incrementing_name",                         # a new alias for the copy's inline VALUES
         "_L5 = exp.Literal.string(self.session._auto_incrementing_name)",   # the disambiguating literal: a counter draw
         "exp.EQ(this=_L5, expression=_L5)",
         "_L6 = self._create_hash_from_expression(_L3.this)",
         "_L1.add(_L6)",
         "_L2.append(_L3)"], "_add_ctes_to_expression")
    has(py2v.find_method(df_tree, "BaseDataFrame", "_replace_cte_names_with_hashes"),
        ["self._create_hash_from_expression(_L1.this)"], "_replace_cte_names_with_hashes")
    return prefix, int(sl.upper.value)


def _inline(expr, helpers):
    """f(a, b) with f a module-level helper whose normalised body is `return e` -> e[params := args] (fail-closed)"""
    if isinstance(expr, ast.Call) and isinstance(expr.func, ast.Name) and expr.func.id in helpers and not expr.keywords:
        h = helpers[expr.func.id]
        hb = py2v.norm_body(h, rename_locals=False)
        params = [a.arg for a in h.args.args]
        if len(hb) == 1 and isinstance(hb[0], ast.Return) and hb[0].value is not None and len(params) == len(expr.args) \
                and not h.args.vararg and not h.args.kwarg and not h.args.kwonlyargs \
                and all(isinstance(a, (ast.Name, ast.Attribute)) for a in expr.args):
            m = dict(zip(params, expr.args))
            import copy as _copy

            class S(ast.NodeTransformer):
                def visit_Name(self, node):
                    return _copy.deepcopy(m[node.id]) if node.id in m else node
            return _inline(S().visit(_copy.deepcopy(hb[0].value)), helpers)
        raise Untranslatable(f"helper {expr.func.id}: not a single-return pure function of its arguments")
    return expr


def operation_facts(op_tree, df_tree):
    cls = py2v.find_class(op_tree, "Operation")
    vals = {}
    for st in cls.body:
        if isinstance(st, ast.Assign) and len(st.targets) == 1 and isinstance(st.targets[0], ast.Name):
            vals[st.targets[0].id] = py2v.const_eval(st.value, {})
    for k in ("INIT", "NO_OP", "FROM", "WHERE", "SELECT"):
        if k not in vals:
            raise Untranslatable(f"Operation.{k} missing")
    helpers = py2v.module_helpers(op_tree)
    deco = py2v.find_func(op_tree, "operation")
    wrapper = py2v.find_func(deco, "wrapper")
    b = _body(wrapper)
    if len(b) != 7:
        raise Untranslatable("operation.wrapper: statement count changed")
    if ast.unparse(b[0]) != ("if self.last_op == Operation.INIT:\n    self = self._convert_leaf_to_cte()\n"
                             "    self.last_op = Operation.NO_OP"):
        raise Untranslatable("operation.wrapper: INIT branch changed")
    s1, s2, s3 = b[1], b[2], b[3]
    if not (isinstance(s1, ast.Assign) and isinstance(s1.targets[0], ast.Name) and ast.unparse(s1.value) == "self.last_op"):
        raise Untranslatable("operation.wrapper: last_op assignment changed")
    last = s1.targets[0].id
    if not (isinstance(s2, ast.Assign) and isinstance(s2.targets[0], ast.Name)):
        raise Untranslatable("operation.wrapper: new_op assignment changed")
    new = s2.targets[0].id
    if ast.unparse(_inline(s2.value, helpers)) != f"op if op != Operation.NO_OP else {last}":
        raise Untranslatable("operation.wrapper: new_op computed differently")
    if not (isinstance(s3, ast.If) and not s3.orelse and [ast.unparse(x) for x in s3.body] == ["self = self._convert_leaf_to_cte()"]):
        raise Untranslatable("operation.wrapper: wrap statement changed")
    if not (isinstance(b[4], ast.Assign) and isinstance(b[4].targets[0], ast.Name)
            and ast.unparse(b[4].value) == "func(self, *args, **kwargs)"):
        raise Untranslatable("operation.wrapper: call of the method changed")
    res = b[4].targets[0].id
    if [ast.unparse(x) for x in b[5:]] != [f"{res}.last_op = {new}", f"return {res}"]:
        raise Untranslatable("operation.wrapper: tail changed")
    test = _inline(s3.test, helpers)

    class R(ast.NodeTransformer):
        def visit_Name(self, node):
            return ast.Name(id={new: "new_op", last: "last_op"}.get(node.id, node.id), ctx=node.ctx)
    import copy as _copy
    pred = bool_expr(R().visit(_copy.deepcopy(test)), vals)
    # decorator class of the four methods the model covers
    decos = {}
    dfc = py2v.find_class(df_tree, "BaseDataFrame")
    for st in dfc.body:
        if isinstance(st, ast.FunctionDef) and st.name in ("select", "where", "alias", "join"):
            ds = [d for d in st.decorator_list if isinstance(d, ast.Call) and dotted(d.func) == "operation"]
            if len(ds) != 1 or len(ds[0].args) != 1 or not (dotted(ds[0].args[0]) or "").startswith("Operation."):
                raise Untranslatable(f"BaseDataFrame.{st.name}: not decorated by operation(Operation.X)")
            decos[st.name] = dotted(ds[0].args[0]).split(".")[1]
    if sorted(decos) != ["alias", "join", "select", "where"]:
        raise Untranslatable("decorators of select/where/alias/join not all found")
    return vals, pred, decos


def bool_expr(n, vals):
    """the wrapper test over new_op / last_op / Operation.X -> Coq bool over Z"""
    def atom(x):
        d = dotted(x)
        if d in ("new_op", "last_op"):
            return d
        if d and d.startswith("Operation.") and d.split(".")[1] in vals:
            return f"({vals[d.split('.')[1]]})"
        raise Untranslatable("wrapper test: unknown operand " + ast.unparse(x))
    if isinstance(n, ast.BoolOp):
        op = "||" if isinstance(n.op, ast.Or) else "&&"
        parts = [bool_expr(v, vals) for v in n.values]
        out = parts[0]
        for p in parts[1:]:
            out = f"({out} {op} {p})"
        return out
    if isinstance(n, ast.UnaryOp) and isinstance(n.op, ast.Not):
        return f"(negb {bool_expr(n.operand, vals)})"
    if isinstance(n, ast.Compare):
        terms = [n.left] + list(n.comparators)
        cs = []
        for a, o, b in zip(terms, n.ops, terms[1:]):
            f = {ast.Lt: "Z.ltb", ast.LtE: "Z.leb", ast.Gt: "Z.gtb", ast.GtE: "Z.geb", ast.Eq: "Z.eqb"}.get(type(o))
            if f is None:
                if isinstance(o, ast.NotEq):
                    cs.append(f"(negb (Z.eqb {atom(a)} {atom(b)}))")
                    continue
                raise Untranslatable("wrapper test: comparison " + type(o).__name__)
            cs.append(f"({f} {atom(a)} {atom(b)})")
        out = cs[0]
        for c in cs[1:]:
            out = f"({out} && {c})"
        return out
    raise Untranslatable("wrapper test: " + ast.unparse(n))


def session_shape(ses_tree, duck_tree):
    new = py2v.find_method(ses_tree, "_BaseSession", "__new__")
    if same_func(new, {1: """
def __new__(cls, *args, **kwargs):
    if _BaseSession._instance is None:
        _BaseSession._instance = super().__new__(cls)
    return _BaseSession._instance
""", 2: """
def __new__(cls, *args, **kwargs):
    if _BaseSession._instance is None or not isinstance(_BaseSession._instance, cls):
        _BaseSession._instance = super().__new__(cls)
    return _BaseSession._instance
"""}) is None:
        raise Untranslatable("_BaseSession.__new__ is no longer the singleton constructor")
    init = py2v.find_method(ses_tree, "_BaseSession", "__init__")
    ib = _body(init)
    guard = [s for s in ib if isinstance(s, ast.If) and ast.unparse(s.test) == "not hasattr(self, 'input_dialect')"]
    if len(guard) != 1:
        raise Untranslatable("_BaseSession.__init__: the hasattr guard is gone")
    inits = {}
    for s in guard[0].body:
        if isinstance(s, (ast.AnnAssign, ast.Assign)):
            tg = s.target if isinstance(s, ast.AnnAssign) else s.targets[0]
            if dotted(tg) and dotted(tg).startswith("self.") and s.value is not None:
                inits[dotted(tg)[5:]] = ast.unparse(s.value)
    want = {"known_ids": "set()", "known_branch_ids": "set()", "known_sequence_ids": "set()",
            "name_to_sequence_id_mapping": "defaultdict(list)", "temp_views": "{}"}
    for k, v in want.items():
        if inits.get(k) != v:
            raise Untranslatable(f"_BaseSession.__init__: {k} initialised as {inits.get(k)}")
    try:
        counter0 = int(inits.get("incrementing_id"))
    except (TypeError, ValueError):
        raise Untranslatable("_BaseSession.__init__: incrementing_id start value")
    # any registry initialisation outside the guard would reset the session on a second DuckDBSession()
    for s in ib:
        if s is guard[0]:
            continue
        for n in ast.walk(s):
            if isinstance(n, ast.Attribute) and n.attr in REGISTRIES and isinstance(n.ctx, ast.Store):
                raise Untranslatable("_BaseSession.__init__: registry assigned outside the guard")
    dinit = py2v.find_method(duck_tree, "DuckDBSession", "__init__")
    dg = [s for s in _body(dinit) if isinstance(s, ast.If) and ast.unparse(s.test) == "not hasattr(self, '_conn')"]
    if len(dg) != 1 or "super().__init__(conn, *args, **kwargs)" not in ast.unparse(dg[0]):
        raise Untranslatable("DuckDBSession.__init__: guard changed")
    refs = {
        "_random_branch_id": "def f(self):\n    id = self._random_id\n    self.known_branch_ids.add(id)\n    return id\n",
        "_random_sequence_id": "def f(self):\n    id = self._random_id\n    self.known_sequence_ids.add(id)\n    return id\n",
        "_random_id": "def f(self):\n    id = 'r' + uuid.uuid4().hex\n    normalized_id = self._normalize_string(id)\n"
                      "    self.known_ids.add(normalized_id)\n    return normalized_id\n",
        "_auto_incrementing_name": "def f(self):\n    name = f'a{self.incrementing_id}'\n    self.incrementing_id += 1\n    return name\n",
        "_add_alias_to_mapping": "def f(self, name, sequence_id):\n"
                                 "    self.name_to_sequence_id_mapping[self._normalize_string(name)].append(sequence_id)\n",
    }
    for name, src in refs.items():
        if same_func(py2v.find_method(ses_tree, "_BaseSession", name), {True: src}) is None:
            raise Untranslatable(f"{name}: body changed")
    return counter0


def dataframe_shape(df_tree):
    has(py2v.find_method(df_tree, "BaseDataFrame", "__init__"),
        ["self.branch_id = branch_id or self.session._random_branch_id",
         "self.sequence_id = sequence_id or self.session._random_sequence_id",
         "self.join_on_uuid = join_on_uuid or str(uuid4())", "self.known_uuids.add(self.join_on_uuid)"], "BaseDataFrame.__init__")
    has(py2v.find_method(df_tree, "BaseDataFrame", "alias"),
        ["_L1 = self.session._random_sequence_id", "_L2 = self.copy()", "_L2.session._add_alias_to_mapping(name, _L1)",
         "return _L2._convert_leaf_to_cte(sequence_id=_L1)"], "BaseDataFrame.alias")
    tv = py2v.find_method(df_tree, "BaseDataFrame", "createOrReplaceTempView")
    has(tv, ["_L1 = self.copy()._convert_leaf_to_cte()", "self.session.temp_views[name] = _L1",
             "self.session.catalog.add_table(name, [_L2.alias_or_name for _L2 in self._get_outer_select_columns(_L1.expression)])"],
        "createOrReplaceTempView")
    has(py2v.find_method(df_tree, "BaseDataFrame", "_convert_leaf_to_cte"),
        ["_L1 = self._resolve_pending_hints()", "sequence_id = sequence_id or _L1.sequence_id", "_L2 = _L1.expression.copy()",
         "_L1._create_cte_from_expression(expression=_L2, branch_id=self.branch_id, sequence_id=sequence_id, name=name)",
         "_L1._add_ctes_to_expression(exp.Select(), _L2.ctes + [_L3])"], "_convert_leaf_to_cte")
    has(py2v.find_method(df_tree, "BaseDataFrame", "_collect"), ["self._get_expressions(optimize=False)"], "_collect")
    has(py2v.find_method(df_tree, "BaseDataFrame", "_handle_self_join"),
        ["self.branch_id == other_df.branch_id", "_L1 = other_df.known_uuids - self.known_uuids",
         "_L2.meta['join_on_uuid'] in _L1 or _L2.meta['join_on_uuid'] == other_uuid",
         "_L2.set('table', exp.to_identifier(other_df.latest_cte_name))"], "_handle_self_join")
    has(py2v.find_method(df_tree, "BaseDataFrame", "join"),
        ["_L1 = other._convert_leaf_to_cte()", "self._handle_self_join(_L1, _L2, other.join_on_uuid)"], "join")
    return True


# ---------------------------------------------------------------------------------------------------
# classes of slips that make a result depend on something other than the program: iteration over a set (order depends on
# the per-process string hash seed), session accessors that cache a stateful builder, builders applied in place to an
# expression tree that another frame / a registered view shares

def _setlike(n, names):
    if isinstance(n, (ast.Set, ast.SetComp)):
        return True
    if isinstance(n, ast.Call) and isinstance(n.func, ast.Name) and n.func.id in ("set", "frozenset"):
        return True
    if isinstance(n, ast.BinOp) and isinstance(n.op, (ast.Sub, ast.BitOr, ast.BitAnd, ast.BitXor)) \
            and (_setlike(n.left, names) or _setlike(n.right, names)):
        return True
    if isinstance(n, ast.Name) and n.id in names:
        return True
    if isinstance(n, ast.Call) and isinstance(n.func, ast.Attribute) \
            and n.func.attr in ("union", "difference", "intersection", "symmetric_difference", "copy") and _setlike(n.func.value, names):
        return True
    return False


def set_iterations(repo):
    """sites where an ordered thing (loop, list/tuple/sorted-less comprehension, join, extend) is built from a set"""
    out = []
    for d in SCAN_DIRS:
        full = os.path.join(repo, d)
        for fn in sorted(os.listdir(full)):
            if not fn.endswith(".py"):
                continue
            tree, _ = py2v.load(os.path.join(full, fn))
            for f in ast.walk(tree):
                if not isinstance(f, (ast.FunctionDef, ast.AsyncFunctionDef)):
                    continue
                names = set()
                for _ in range(2):
                    for n in ast.walk(f):
                        if isinstance(n, ast.Assign) and len(n.targets) == 1 and isinstance(n.targets[0], ast.Name) \
                                and _setlike(n.value, names):
                            names.add(n.targets[0].id)
                        if isinstance(n, ast.AnnAssign) and isinstance(n.target, ast.Name) and n.value is not None \
                                and _setlike(n.value, names):
                            names.add(n.target.id)
                for n in ast.walk(f):
                    its = []
                    if isinstance(n, ast.For):
                        its.append(n.iter)
                    if isinstance(n, (ast.ListComp, ast.GeneratorExp, ast.DictComp)):
                        its += [g.iter for g in n.generators]
                    if isinstance(n, ast.Call) and isinstance(n.func, ast.Name) and n.func.id in ("list", "tuple", "enumerate", "zip"):
                        its += n.args
                    if isinstance(n, ast.Call) and isinstance(n.func, ast.Attribute) and n.func.attr in ("join", "extend"):
                        its += n.args
                    if isinstance(n, ast.Starred):
                        its.append(n.value)
                    for it in its:
                        if _setlike(it, names):
                            out.append(f"{fn[:-3]}.{f.name}:{ast.unparse(it)[:60]}")
    return sorted(set(out))


def accessor_kinds(ses_tree, duck_tree):
    """(class.accessor, property | cached_property) for the session classes"""
    out = []
    for tree, cname in ((ses_tree, "_BaseSession"), (duck_tree, "DuckDBSession")):
        cls = py2v.find_class(tree, cname)
        for st in cls.body:
            if not isinstance(st, ast.FunctionDef):
                continue
            for dd in st.decorator_list:
                k = dotted(dd)
                if k in ("property", "cached_property", "functools.cached_property"):
                    out.append((f"{cname}.{st.name}", k.split(".")[-1]))
    return out


def inplace_builders(repo):
    """calls with copy=False whose receiver is (part of) a frame's expression tree"""
    out = []
    for d in SCAN_DIRS:
        full = os.path.join(repo, d)
        for fn in sorted(os.listdir(full)):
            if not fn.endswith(".py"):
                continue
            tree, _ = py2v.load(os.path.join(full, fn))
            par = _parents(tree)
            for n in ast.walk(tree):
                if isinstance(n, ast.Call) and isinstance(n.func, ast.Attribute) and any(
                        k.arg == "copy" and isinstance(k.value, ast.Constant) and k.value.value is False for k in n.keywords):
                    recv = n.func.value
                    mentions = any(isinstance(x, ast.Attribute) and x.attr in ("expression", "ctes") for x in ast.walk(recv)) \
                        and not any(isinstance(x, ast.Call) and isinstance(x.func, ast.Attribute) and x.func.attr == "copy"
                                    for x in ast.walk(recv))
                    if mentions:
                        out.append(f"{_qualname(n, par, fn[:-3])}:{ast.unparse(n.func)[:60]}")
    return sorted(set(out))


FRESH_CALLS = ("generate_random_identifier", "uuid4", "uuid.uuid4", "_random_id", "_random_branch_id", "_random_sequence_id",
               "_auto_incrementing_name")


def temp_object_names(repo):
    """for every engine reader/writer (sqlframe/*/readwriter.py, base/readerwriter.py, base/mixins/readwriter_mixins.py): the local
    names under which a temporary view / table is created (the name after CREATE ... VIEW|TABLE in an f-string, `this=` of an
    exp.Create, and every local called *tmp* / *temp* that is not the statement text itself), and whether the name is FRESH per call
    (its definition, followed through local assignments and `.get(key, default)`, draws a random identifier / uuid / session
    counter) or only DERIVED from the arguments"""
    import glob
    files = sorted(glob.glob(os.path.join(repo, "sqlframe", "*", "readwriter.py"))) + \
        [os.path.join(repo, "sqlframe/base/mixins/readwriter_mixins.py")]
    out = []
    for path in files:
        tree, _ = py2v.load(path)
        rel = os.path.relpath(path, os.path.join(repo, "sqlframe"))[:-3]
        par = _parents(tree)
        for f in ast.walk(tree):
            if not isinstance(f, (ast.FunctionDef, ast.AsyncFunctionDef)):
                continue
            assigns = {}
            for n in ast.walk(f):
                if isinstance(n, ast.Assign) and len(n.targets) == 1 and isinstance(n.targets[0], ast.Name):
                    assigns.setdefault(n.targets[0].id, []).append(n.value)
                elif isinstance(n, ast.AnnAssign) and isinstance(n.target, ast.Name) and n.value is not None:
                    assigns.setdefault(n.target.id, []).append(n.value)

            def is_stmt_text(v):
                return isinstance(v, (ast.JoinedStr, ast.BinOp)) and "CREATE" in ast.unparse(v).upper()
            cands = set()
            for n in ast.walk(f):
                if isinstance(n, ast.JoinedStr):
                    for a, b in zip(n.values, n.values[1:]):
                        if isinstance(a, ast.Constant) and isinstance(a.value, str) and isinstance(b, ast.FormattedValue) \
                                and "CREATE" in "".join(x.value for x in n.values if isinstance(x, ast.Constant) and isinstance(x.value, str)).upper() \
                                and a.value.upper().rstrip().endswith(("VIEW", "TABLE")) and isinstance(b.value, ast.Name):
                            cands.add(b.value.id)
                if isinstance(n, ast.Call) and dotted(n.func) == "exp.Create":
                    for k in n.keywords:
                        if k.arg == "this":
                            for x in ast.walk(k.value):
                                if isinstance(x, ast.Name) and x.id in assigns:
                                    cands.add(x.id)
            for name, vals in assigns.items():
                if ("tmp" in name.lower() or "temp" in name.lower()) and not all(is_stmt_text(v) for v in vals):
                    cands.add(name)

            def fresh(v, depth=0, seen=()):
                for x in ast.walk(v):
                    d = dotted(x.func) if isinstance(x, ast.Call) else dotted(x) if isinstance(x, ast.Attribute) else None
                    if d and d.split(".")[-1] in [c.split(".")[-1] for c in FRESH_CALLS]:
                        return True
                if depth < 4:
                    for x in ast.walk(v):
                        if isinstance(x, ast.Name) and x.id in assigns and x.id not in seen:
                            if any(fresh(w, depth + 1, seen + (x.id,)) for w in assigns[x.id]):
                                return True
                return False
            cls = None
            cur = f
            while cur in par:
                cur = par[cur]
                if isinstance(cur, ast.ClassDef):
                    cls = cur.name
                    break
            for name in sorted(cands):
                vals = [v for v in assigns.get(name, []) if not is_stmt_text(v)]
                if not vals:
                    continue
                # a parameter / table object that only re-wraps a caller-given name is not a temporary the reader invents
                if all(isinstance(v, ast.Call) and dotted(v.func) in ("exp.to_table", "normalize_string", "exp.to_identifier")
                       and not fresh(v) and not any("tmp" in n2.lower() or "temp" in n2.lower() for n2 in [name]) for v in vals):
                    continue
                kind = "fresh" if all(fresh(v) for v in vals) else "derived"
                out.append((f"{rel}.{cls + '.' if cls else ''}{f.name}:{name}", kind))
    return sorted(set(out))


def generate(repo: str):
    P = lambda p: py2v.load(os.path.join(repo, p))  # noqa
    norm_tree, norm_src = P("sqlframe/base/normalize.py")
    ses_tree, ses_src = P("sqlframe/base/session.py")
    df_tree, df_src = P("sqlframe/base/dataframe.py")
    cat_tree, _ = P("sqlframe/base/catalog.py")
    mix_tree, _ = P("sqlframe/base/mixins/dataframe_mixins.py")
    op_tree, _ = P("sqlframe/base/operations.py")
    duck_tree, _ = P("sqlframe/duckdb/session.py")

    acc = registry_accesses(repo)
    scoped = alias_scoping(norm_tree)
    id_resolution_shape(norm_tree)
    aia = schema_cache_policy(cat_tree)
    drops = schema_lookup(mix_tree)
    prefix, hlen = hash_formula(df_tree)
    vals, pred, decos = operation_facts(op_tree, df_tree)
    counter0 = session_shape(ses_tree, duck_tree)
    dataframe_shape(df_tree)
    set_its = set_iterations(repo)
    accs = accessor_kinds(ses_tree, duck_tree)
    inplace = inplace_builders(repo)
    temps = temp_object_names(repo)

    def b(x):
        return "true" if x else "false"

    def s(x):
        return '"' + x + '"'
    triples = sorted({(q, r, k) for q, r, k, _ in acc})
    L = ["(* GENERATED from /repo on every run by translate/c18_facts.py -- do not edit *)",
         "From Coq Require Import List String ZArith Bool.",
         "From SF Require Import C18.Session C18.Compile C18.Facts.",
         "Import ListNotations.", "Local Open Scope string_scope.", "Local Open Scope Z_scope.",
         f"Definition alias_scoped_f : bool := {b(scoped)}.",
         f"Definition schema_aia_f : bool := {b(aia)}.",
         f"Definition schema_drops_view_f : bool := {b(drops)}.",
         f"Definition wrap_needed_f (new_op last_op : Z) : bool := {pred}.",
         "Definition gen_cfg : cfg := mkCfg alias_scoped_f schema_aia_f schema_drops_view_f "
         f"({vals['INIT']}) ({vals[decos['alias']]}) ({vals[decos['join']]}) ({vals[decos['where']]}) ({vals[decos['select']]}) "
         "wrap_needed_f.",
         f"Definition op_noop_value : Z := ({vals['NO_OP']}).",
         f"Definition hash_prefix : string := {s(prefix)}.",
         f"Definition hash_len : nat := {hlen}%nat.",
         "Definition hash_over_rendered_text : bool := true.",
         f"Definition counter_start : nat := {counter0}%nat.",
         "Definition singleton_session : bool := true.",
         "Definition registry_accesses : list (string * string * string) := ["]
    L.append(";\n".join(f"  ({s(q)}, {s(r)}, {s(k)})" for q, r, k in triples))
    L.append("].")
    L.append("Definition set_iterations : list string := [" + "; ".join(s(x.replace('"', "'")) for x in set_its) + "].")
    L.append("Definition session_accessors : list (string * string) := [" + "; ".join(f"({s(a)}, {s(k)})" for a, k in accs) + "].")
    L.append("Definition inplace_builder_calls : list string := [" + "; ".join(s(x.replace('"', "'")) for x in inplace) + "].")
    L.append("Definition temp_object_names : list (string * string) := [" + "; ".join(f"({s(a)}, {s(k)})" for a, k in temps) + "].")
    facts = [
        {"name": "names of temporary views/tables created by the engines' readers and writers: fresh per call | derived from the arguments",
         "from": "sqlframe/*/readwriter.py, base/mixins/readwriter_mixins.py", "value": [list(x) for x in temps]},
        {"name": "ordered output built from a set (order depends on PYTHONHASHSEED)", "from": ", ".join(SCAN_DIRS), "value": set_its},
        {"name": "session accessors: property | cached_property", "from": "session.py, duckdb/session.py", "value": [list(x) for x in accs]},
        {"name": "builders applied in place (copy=False) to a frame's expression", "from": ", ".join(SCAN_DIRS), "value": inplace},
        {"name": "registry accesses", "from": ", ".join(SCAN_DIRS), "value": [list(t) for t in triples],
         "sites": [w for _, _, _, w in acc]},
        {"name": "alias lookup scoped to the expression's CTE sequence ids", "from": "normalize.py: replace_alias_name_with_cte_name",
         "value": scoped, "hash": py2v.src_hash(py2v.find_func(norm_tree, "replace_alias_name_with_cte_name"), norm_src)},
        {"name": "id resolution shape", "from": "normalize.py: replace_branch_and_sequence_ids_with_cte_name", "value": True,
         "hash": py2v.src_hash(py2v.find_func(norm_tree, "replace_branch_and_sequence_ids_with_cte_name"), norm_src)},
        {"name": "schema cache add-if-absent", "from": "catalog.py: _BaseCatalog.add_table", "value": aia},
        {"name": "schema lookup drops its temporary view", "from": "mixins/dataframe_mixins.py: _typed_columns", "value": drops},
        {"name": "hash name", "from": "dataframe.py: _create_hash_from_expression", "value": {"prefix": prefix, "len": hlen,
                                                                                             "function": "zlib.crc32", "over": "expression.sql(...)"}},
        {"name": "Operation values / wrapper test / decorators", "from": "operations.py, dataframe.py",
         "value": {"values": vals, "wrap_needed": pred, "decorators": decos}},
        {"name": "session singleton, guarded __init__, id properties, counter start", "from": "session.py, duckdb/session.py",
         "value": {"counter_start": counter0}},
        {"name": "BaseDataFrame.__init__/alias/createOrReplaceTempView/_convert_leaf_to_cte/_collect shapes", "from": "dataframe.py",
         "value": True},
    ]
    return "\n".join(L) + "\n", facts
