"""T1 for C18: regenerate from /repo (fail-closed) the facts the session model rests on

  * every access to a session registry in sqlframe/base and sqlframe/duckdb: (function, registry, kind of access)
    -- the Coq side decides whether the table is one the model covers (C18.Facts.accesses_ok)
  * normalize.py: the alias lookup is intersected with the sequence ids of the expression's own CTEs
  * catalog.add_table: add-if-absent (early return when the table is already cached) or update
  * TypedColumnsFromTempViewMixin._typed_columns: temporary view named by a random id; dropped again or not
  * the hash-name formula and that hashing happens over rendered text; the uuid literal of _add_ctes_to_expression
  * Operation enum, the wrapper's "start a new CTE" predicate, the decorator class of select/where/alias/join
  * singleton __new__, guarded __init__, the start value of the counter, the shape of the three id properties
"""
from __future__ import annotations

import ast
import os

from vlib import py2v
from vlib.py2v import Untranslatable, dotted

REGISTRIES = {"known_ids", "known_branch_ids", "known_sequence_ids", "name_to_sequence_id_mapping", "incrementing_id",
              "temp_views"}
PROPS = {"_random_id", "_random_branch_id", "_random_sequence_id", "_auto_incrementing_name"}
CALLS = {"_add_alias_to_mapping"}
SCAN_DIRS = ["sqlframe/base", "sqlframe/base/mixins", "sqlframe/duckdb"]


def _parents(tree):
    par = {}
    for n in ast.walk(tree):
        for c in ast.iter_child_nodes(n):
            par[c] = n
    return par


def _qualname(node, par, modname):
    fn, cls = None, None
    cur = node
    while cur in par:
        cur = par[cur]
        if isinstance(cur, (ast.FunctionDef, ast.AsyncFunctionDef)):
            fn = cur.name if fn is None or isinstance(par.get(cur), ast.ClassDef) else fn
            if isinstance(par.get(cur), ast.ClassDef):
                fn = cur.name
        if isinstance(cur, ast.ClassDef) and cls is None:
            cls = cur.name
    if fn is None:
        return (cls or modname) + ".<body>"
    return f"{cls}.{fn}" if cls else f"{modname}.{fn}"


def _kind(node, par, where):
    """how the attribute `X.<registry>` is used"""
    p = par[node]
    name = node.attr
    if name in PROPS:
        if isinstance(node.ctx, ast.Load):
            return "draw"
        raise Untranslatable(f"{where}: {name} is assigned to")
    if name in CALLS:
        if isinstance(p, ast.Call) and p.func is node:
            return "call"
        raise Untranslatable(f"{where}: {name} used without being called")
    if isinstance(p, ast.Attribute) and p.value is node:
        gp = par.get(p)
        if isinstance(gp, ast.Call) and gp.func is p and p.attr in ("add", "get", "keys", "append", "pop", "clear", "update",
                                                                      "remove", "discard", "items", "values", "setdefault"):
            return p.attr
        raise Untranslatable(f"{where}: unknown use .{p.attr} of {name}")
    if isinstance(p, ast.Subscript) and p.value is node:
        if isinstance(p.ctx, ast.Store):
            return "store"
        if isinstance(p.ctx, ast.Del):
            return "delete"
        gp = par.get(p)
        if isinstance(gp, ast.Attribute) and gp.value is p:
            ggp = par.get(gp)
            if isinstance(ggp, ast.Call) and ggp.func is gp and gp.attr == "append":
                return "append"
            raise Untranslatable(f"{where}: unknown use [..].{gp.attr} of {name}")
        return "index"
    if isinstance(p, ast.Compare) and node in p.comparators and all(isinstance(o, (ast.In, ast.NotIn)) for o in p.ops):
        return "member"
    if isinstance(p, (ast.Assign, ast.AnnAssign)) and isinstance(node.ctx, ast.Store):
        return "init"
    if isinstance(p, ast.AugAssign) and p.target is node:
        return "incr"
    if isinstance(p, (ast.If, ast.While)) and p.test is node:
        return "truth"
    if isinstance(p, ast.FormattedValue):
        return "read"
    if isinstance(p, ast.For) and p.iter is node:
        return "iter"
    if isinstance(p, ast.comprehension) and p.iter is node:
        return "iter"
    raise Untranslatable(f"{where}: cannot classify the use of {name} ({type(p).__name__})")


def registry_accesses(repo):
    out = []
    for d in SCAN_DIRS:
        full = os.path.join(repo, d)
        for fn in sorted(os.listdir(full)):
            if not fn.endswith(".py"):
                continue
            path = os.path.join(full, fn)
            tree, src = py2v.load(path)
            par = _parents(tree)
            mod = fn[:-3]
            for n in ast.walk(tree):
                if isinstance(n, ast.Attribute) and n.attr in REGISTRIES | PROPS | CALLS:
                    q = _qualname(n, par, mod)
                    where = f"{d}/{fn}:{n.lineno}"
                    k = _kind(n, par, where)
                    recv = dotted(n.value) or "?"
                    # BaseDataFrame has an unrelated list attribute of the same name
                    if n.attr == "temp_views" and recv == "self" and q.startswith("BaseDataFrame."):
                        k = "df_attr"
                    out.append((q, n.attr, k, where))
    return out


# ---------------------------------------------------------------------------------------------------

def _body(fn):
    return [s for s in fn.body if not (isinstance(s, ast.Expr) and isinstance(s.value, ast.Constant))]


def alias_scoping(norm_tree):
    f = py2v.find_func(norm_tree, "replace_alias_name_with_cte_name")
    args = [a.arg for a in f.args.args]
    if args != ["session", "expression_context", "id"]:
        raise Untranslatable("replace_alias_name_with_cte_name: signature changed")
    b = _body(f)
    if len(b) != 2 or not isinstance(b[0], ast.Assign) or not isinstance(b[1], ast.If) or b[1].orelse:
        raise Untranslatable("replace_alias_name_with_cte_name: body shape changed")
    if ast.unparse(b[0]) != "normalized_id = session._normalize_string(id.alias_or_name)":
        raise Untranslatable("replace_alias_name_with_cte_name: normalized_id is computed differently")
    if ast.unparse(b[1].test) != "normalized_id in session.name_to_sequence_id_mapping":
        raise Untranslatable("replace_alias_name_with_cte_name: guard changed")
    inner = b[1].body
    if len(inner) != 1 or not isinstance(inner[0], ast.For) or inner[0].orelse:
        raise Untranslatable("replace_alias_name_with_cte_name: no single for-loop under the guard")
    loop = inner[0]
    if ast.unparse(loop.target) != "cte" or ast.unparse(loop.iter) != "reversed(expression_context.ctes)":
        raise Untranslatable("replace_alias_name_with_cte_name: does not iterate reversed(expression_context.ctes)")
    lb = loop.body
    set_call = "_set_alias_name(id, cte.alias_or_name)"
    if len(lb) == 1 and isinstance(lb[0], ast.If) and not lb[0].orelse:
        test = ast.unparse(lb[0].test)
        body = [ast.unparse(s) for s in lb[0].body]
        if test == "cte.args['sequence_id'] in session.name_to_sequence_id_mapping[normalized_id]" \
                and body == [set_call, "break"]:
            return True
        raise Untranslatable(f"replace_alias_name_with_cte_name: loop test/body changed: {test} / {body}")
    if [ast.unparse(s) for s in lb] == [set_call, "break"]:
        # takes the last CTE whatever its sequence id: the lookup is no longer scoped by the alias' sequence ids
        return False
    raise Untranslatable("replace_alias_name_with_cte_name: loop body shape changed")


def id_resolution_shape(norm_tree):
    f = py2v.find_func(norm_tree, "replace_branch_and_sequence_ids_with_cte_name")
    src = ast.unparse(f)
    need = ["normalized_id = session._normalize_string(id.alias_or_name)",
            "if normalized_id in session.known_ids:",
            "expression_context.args.get('joins') and normalized_id in session.known_branch_ids",
            "get_tables_from_expression_with_join(expression_context)",
            "[cte for cte in expression_context.ctes if cte.alias_or_name in join_table_aliases]",
            "ctes_in_join[0].args['branch_id'] == ctes_in_join[1].args['branch_id']",
            "assert len(ctes_in_join) == 2",
            "_set_alias_name(id, ctes_in_join[0].alias_or_name)",
            "for cte in reversed(expression_context.ctes):",
            "if normalized_id in (cte.args['branch_id'], cte.args['sequence_id']):",
            "_set_alias_name(id, cte.alias_or_name)"]
    for n in need:
        if n not in src:
            raise Untranslatable(f"replace_branch_and_sequence_ids_with_cte_name: `{n}` not found")
    # the normalize driver applies both functions to every identifier, alias first
    g = py2v.find_func(norm_tree, "normalize")
    gs = ast.unparse(g)
    a = gs.find("replace_alias_name_with_cte_name(session, expression_context, identifier)")
    b = gs.find("replace_branch_and_sequence_ids_with_cte_name(session, expression_context, identifier)")
    if a < 0 or b < 0 or not a < b or "expression.find_all(exp.Identifier)" not in gs:
        raise Untranslatable("normalize: order/shape of the two replacement calls changed")
    return True


def schema_cache_policy(cat_tree):
    f = py2v.find_method(cat_tree, "_BaseCatalog", "add_table")
    b = _body(f)
    if not b or ast.unparse(b[0]) != "table = self.ensure_table(table)":
        raise Untranslatable("add_table: first statement changed")
    src_last = ast.unparse(b[-1])
    if not src_last.startswith("self._schema.add_table(table, column_mapping"):
        raise Untranslatable("add_table: does not end in self._schema.add_table(table, column_mapping, ...)")
    guards = [s for s in b if isinstance(s, ast.If) and "self._schema.find(table)" in ast.unparse(s.test)]
    if not guards:
        # no early return when a column mapping is supplied: sqlglot's MappingSchema.add_table overwrites the entry
        # (nested_set).  Returns are accepted only inside the `if column_mapping is None:` branch (nothing to refresh from).
        inside = set()
        for st in b:
            if isinstance(st, ast.If) and ast.unparse(st.test) == "column_mapping is None":
                inside |= {id(n) for n in ast.walk(st) if isinstance(n, ast.Return)}
        for n in ast.walk(f):
            if isinstance(n, ast.Return) and id(n) not in inside:
                raise Untranslatable("add_table: a return outside the `column_mapping is None` branch")
        return False
    if len(guards) == 1 and ast.unparse(guards[0].test) == "self._schema.find(table)" \
            and [ast.unparse(s) for s in guards[0].body] == ["return"] and not guards[0].orelse:
        return True
    raise Untranslatable("add_table: the guard on self._schema.find(table) has an unknown shape")


def schema_lookup(mix_tree):
    f = py2v.find_method(mix_tree, "TypedColumnsFromTempViewMixin", "_typed_columns")
    src = ast.unparse(f)
    if "table = exp.to_table(self.session._random_id)" not in src:
        raise Untranslatable("_typed_columns: the view is not named by session._random_id")
    if "kind='VIEW'" not in src or "exp.TemporaryProperty()" not in src or "self.session._collect(" not in src:
        raise Untranslatable("_typed_columns: does not create a temporary view through session._collect")
    if "listColumns(" not in src:
        raise Untranslatable("_typed_columns: does not read the columns through catalog.listColumns")
    drops = any(isinstance(n, ast.Call) and dotted(n.func) == "exp.Drop" for n in ast.walk(f)) or "DROP VIEW" in src.upper()
    if drops:
        # accepted only if the drop is unconditional: in a finally block or straight-line after the lookup
        ok = any(isinstance(n, ast.Try) and n.finalbody and "Drop" in ast.unparse(ast.Module(body=n.finalbody, type_ignores=[]))
                 for n in ast.walk(f))
        straight = any(isinstance(s, (ast.Expr, ast.Assign)) and "Drop" in ast.unparse(s) for s in f.body)
        if not (ok or straight):
            raise Untranslatable("_typed_columns: a DROP exists but is conditional")
    return drops


def hash_formula(df_tree):
    f = py2v.find_method(df_tree, "BaseDataFrame", "_create_hash_from_expression")
    b = [s for s in _body(f) if not isinstance(s, (ast.Import, ast.ImportFrom))]
    if len(b) != 3:
        raise Untranslatable("_create_hash_from_expression: body shape changed")
    if ast.unparse(b[0]) != "value = expression.sql(dialect=_BaseSession().input_dialect).encode('utf-8')":
        raise Untranslatable("_create_hash_from_expression: the hashed value is not the rendered SQL text")
    a1 = b[1]
    if not (isinstance(a1, ast.Assign) and isinstance(a1.value, ast.Subscript) and isinstance(a1.value.value, ast.JoinedStr)):
        raise Untranslatable("_create_hash_from_expression: hash is not an f-string slice")
    js = a1.value.value
    if not (len(js.values) == 2 and isinstance(js.values[0], ast.Constant) and isinstance(js.values[1], ast.FormattedValue)):
        raise Untranslatable("_create_hash_from_expression: f-string shape changed")
    prefix = js.values[0].value
    fn = ast.unparse(js.values[1].value)
    if fn != "zlib.crc32(value)":
        raise Untranslatable(f"_create_hash_from_expression: hashes with {fn}")
    sl = a1.value.slice
    if not (isinstance(sl, ast.Slice) and sl.lower is None and isinstance(sl.upper, ast.Constant) and sl.step is None):
        raise Untranslatable("_create_hash_from_expression: slice shape changed")
    if ast.unparse(b[2]) != "return self.session._normalize_string(hash)":
        raise Untranslatable("_create_hash_from_expression: return changed")
    # names come from the hash wherever a CTE is named
    c = ast.unparse(py2v.find_method(df_tree, "BaseDataFrame", "_create_cte_from_expression"))
    if "name = name or self._create_hash_from_expression(expression)" not in c:
        raise Untranslatable("_create_cte_from_expression: name is not the content hash")
    a = ast.unparse(py2v.find_method(df_tree, "BaseDataFrame", "_add_ctes_to_expression"))
    for n in ["if cte.alias_or_name in existing_cte_names:", "random_filter = exp.Literal.string(uuid.uuid4().hex)",
              "exp.EQ(this=random_filter, expression=random_filter)", "new_cte_alias = self._create_hash_from_expression(cte.this)",
              "existing_cte_names.add(new_cte_alias)", "existing_ctes.append(cte)",
              "cte = cte.transform(replace_id_value, replaced_cte_names)"]:
        if n not in a:
            raise Untranslatable(f"_add_ctes_to_expression: `{n}` not found")
    r = ast.unparse(py2v.find_method(df_tree, "BaseDataFrame", "_replace_cte_names_with_hashes"))
    if "self._create_hash_from_expression(cte.this)" not in r or "for cte in expression.ctes:" not in r:
        raise Untranslatable("_replace_cte_names_with_hashes: shape changed")
    return prefix, int(sl.upper.value)


def operation_facts(op_tree, df_tree):
    cls = py2v.find_class(op_tree, "Operation")
    vals = {}
    for st in cls.body:
        if isinstance(st, ast.Assign) and len(st.targets) == 1 and isinstance(st.targets[0], ast.Name):
            vals[st.targets[0].id] = py2v.const_eval(st.value, {})
    for k in ("INIT", "NO_OP", "FROM", "WHERE", "SELECT"):
        if k not in vals:
            raise Untranslatable(f"Operation.{k} missing")
    deco = py2v.find_func(op_tree, "operation")
    wrapper = py2v.find_func(deco, "wrapper")
    b = _body(wrapper)
    if len(b) != 7:
        raise Untranslatable("operation.wrapper: statement count changed")
    if ast.unparse(b[0]) != ("if self.last_op == Operation.INIT:\n    self = self._convert_leaf_to_cte()\n"
                             "    self.last_op = Operation.NO_OP"):
        raise Untranslatable("operation.wrapper: INIT branch changed")
    if ast.unparse(b[1]) != "last_op = self.last_op":
        raise Untranslatable("operation.wrapper: last_op assignment changed")
    if ast.unparse(b[2]) != "new_op = op if op != Operation.NO_OP else last_op":
        raise Untranslatable("operation.wrapper: new_op computed differently")
    s3 = b[3]
    if not (isinstance(s3, ast.If) and not s3.orelse and [ast.unparse(x) for x in s3.body] == ["self = self._convert_leaf_to_cte()"]):
        raise Untranslatable("operation.wrapper: wrap statement changed")
    if [ast.unparse(x) for x in b[4:]] != ["df = func(self, *args, **kwargs)", "df.last_op = new_op", "return df"]:
        raise Untranslatable("operation.wrapper: tail changed")
    pred = bool_expr(s3.test, vals)
    # decorator class of the four methods the model covers
    decos = {}
    dfc = py2v.find_class(df_tree, "BaseDataFrame")
    for st in dfc.body:
        if isinstance(st, ast.FunctionDef) and st.name in ("select", "where", "alias", "join"):
            ds = [d for d in st.decorator_list if isinstance(d, ast.Call) and dotted(d.func) == "operation"]
            if len(ds) != 1 or len(ds[0].args) != 1 or not (dotted(ds[0].args[0]) or "").startswith("Operation."):
                raise Untranslatable(f"BaseDataFrame.{st.name}: not decorated by operation(Operation.X)")
            decos[st.name] = dotted(ds[0].args[0]).split(".")[1]
    if sorted(decos) != ["alias", "join", "select", "where"]:
        raise Untranslatable("decorators of select/where/alias/join not all found")
    return vals, pred, decos


def bool_expr(n, vals):
    """the wrapper test over new_op / last_op / Operation.X -> Coq bool over Z"""
    def atom(x):
        d = dotted(x)
        if d in ("new_op", "last_op"):
            return d
        if d and d.startswith("Operation.") and d.split(".")[1] in vals:
            return f"({vals[d.split('.')[1]]})"
        raise Untranslatable("wrapper test: unknown operand " + ast.unparse(x))
    if isinstance(n, ast.BoolOp):
        op = "||" if isinstance(n.op, ast.Or) else "&&"
        parts = [bool_expr(v, vals) for v in n.values]
        out = parts[0]
        for p in parts[1:]:
            out = f"({out} {op} {p})"
        return out
    if isinstance(n, ast.UnaryOp) and isinstance(n.op, ast.Not):
        return f"(negb {bool_expr(n.operand, vals)})"
    if isinstance(n, ast.Compare):
        terms = [n.left] + list(n.comparators)
        cs = []
        for a, o, b in zip(terms, n.ops, terms[1:]):
            f = {ast.Lt: "Z.ltb", ast.LtE: "Z.leb", ast.Gt: "Z.gtb", ast.GtE: "Z.geb", ast.Eq: "Z.eqb"}.get(type(o))
            if f is None:
                if isinstance(o, ast.NotEq):
                    cs.append(f"(negb (Z.eqb {atom(a)} {atom(b)}))")
                    continue
                raise Untranslatable("wrapper test: comparison " + type(o).__name__)
            cs.append(f"({f} {atom(a)} {atom(b)})")
        out = cs[0]
        for c in cs[1:]:
            out = f"({out} && {c})"
        return out
    raise Untranslatable("wrapper test: " + ast.unparse(n))


def session_shape(ses_tree, duck_tree):
    cls = py2v.find_class(ses_tree, "_BaseSession")
    new = py2v.find_method(ses_tree, "_BaseSession", "__new__")
    nb = _body(new)
    tests = ("_BaseSession._instance is None",
             # one instance per engine class: a session of another engine class is replaced, the same class is reused
             "_BaseSession._instance is None or not isinstance(_BaseSession._instance, cls)")
    if not (len(nb) == 2 and isinstance(nb[0], ast.If) and not nb[0].orelse and ast.unparse(nb[0].test) in tests
            and [ast.unparse(x) for x in nb[0].body] == ["_BaseSession._instance = super().__new__(cls)"]
            and ast.unparse(nb[1]) == "return _BaseSession._instance"):
        raise Untranslatable("_BaseSession.__new__ is no longer the singleton constructor")
    init = py2v.find_method(ses_tree, "_BaseSession", "__init__")
    guard = [s for s in _body(init) if isinstance(s, ast.If) and ast.unparse(s.test) == "not hasattr(self, 'input_dialect')"]
    if len(guard) != 1:
        raise Untranslatable("_BaseSession.__init__: the hasattr guard is gone")
    inits = {}
    for s in guard[0].body:
        if isinstance(s, ast.AnnAssign) and dotted(s.target) and dotted(s.target).startswith("self."):
            inits[dotted(s.target)[5:]] = ast.unparse(s.value)
    want = {"known_ids": "set()", "known_branch_ids": "set()", "known_sequence_ids": "set()",
            "name_to_sequence_id_mapping": "defaultdict(list)", "temp_views": "{}"}
    for k, v in want.items():
        if inits.get(k) != v:
            raise Untranslatable(f"_BaseSession.__init__: {k} initialised as {inits.get(k)}")
    try:
        counter0 = int(inits.get("incrementing_id"))
    except (TypeError, ValueError):
        raise Untranslatable("_BaseSession.__init__: incrementing_id start value")
    # any registry initialisation outside the guard would reset the session on a second DuckDBSession()
    for s in _body(init):
        if s is guard[0]:
            continue
        for n in ast.walk(s):
            if isinstance(n, ast.Attribute) and n.attr in REGISTRIES and isinstance(n.ctx, ast.Store):
                raise Untranslatable("_BaseSession.__init__: registry assigned outside the guard")
    dinit = py2v.find_method(duck_tree, "DuckDBSession", "__init__")
    dg = [s for s in _body(dinit) if isinstance(s, ast.If) and ast.unparse(s.test) == "not hasattr(self, '_conn')"]
    if len(dg) != 1 or "super().__init__(conn, *args, **kwargs)" not in ast.unparse(dg[0]):
        raise Untranslatable("DuckDBSession.__init__: guard changed")
    props = {}
    for name, reg in (("_random_branch_id", "known_branch_ids"), ("_random_sequence_id", "known_sequence_ids")):
        f = py2v.find_method(ses_tree, "_BaseSession", name)
        if [ast.unparse(s) for s in _body(f)] != ["id = self._random_id", f"self.{reg}.add(id)", "return id"]:
            raise Untranslatable(f"{name}: body changed")
    f = py2v.find_method(ses_tree, "_BaseSession", "_random_id")
    if [ast.unparse(s) for s in _body(f)] != ["id = 'r' + uuid.uuid4().hex", "normalized_id = self._normalize_string(id)",
                                              "self.known_ids.add(normalized_id)", "return normalized_id"]:
        raise Untranslatable("_random_id: body changed")
    f = py2v.find_method(ses_tree, "_BaseSession", "_auto_incrementing_name")
    if [ast.unparse(s) for s in _body(f)] != ["name = f'a{self.incrementing_id}'", "self.incrementing_id += 1", "return name"]:
        raise Untranslatable("_auto_incrementing_name: body changed")
    f = py2v.find_method(ses_tree, "_BaseSession", "_add_alias_to_mapping")
    if [ast.unparse(s) for s in _body(f)] != ["self.name_to_sequence_id_mapping[self._normalize_string(name)].append(sequence_id)"]:
        raise Untranslatable("_add_alias_to_mapping: body changed")
    return counter0


def dataframe_shape(df_tree):
    init = ast.unparse(py2v.find_method(df_tree, "BaseDataFrame", "__init__"))
    for n in ["self.branch_id = branch_id or self.session._random_branch_id",
              "self.sequence_id = sequence_id or self.session._random_sequence_id",
              "self.join_on_uuid = join_on_uuid or str(uuid4())", "self.known_uuids.add(self.join_on_uuid)"]:
        if n not in init:
            raise Untranslatable(f"BaseDataFrame.__init__: `{n}` not found")
    al = py2v.find_method(df_tree, "BaseDataFrame", "alias")
    s = [ast.unparse(x) for x in _body(al) if not isinstance(x, (ast.Import, ast.ImportFrom))]
    if s[0] != "new_sequence_id = self.session._random_sequence_id" or s[1] != "df = self.copy()" \
            or s[-2] != "df.session._add_alias_to_mapping(name, new_sequence_id)" \
            or s[-1] != "return df._convert_leaf_to_cte(sequence_id=new_sequence_id)":
        raise Untranslatable("BaseDataFrame.alias: body changed")
    tv = py2v.find_method(df_tree, "BaseDataFrame", "createOrReplaceTempView")
    s = [ast.unparse(x) for x in _body(tv)]
    if s[1:3] != ["df = self.copy()._convert_leaf_to_cte()", "self.session.temp_views[name] = df"] \
            or not s[3].startswith("self.session.catalog.add_table(name, "):
        raise Untranslatable("createOrReplaceTempView: body changed")
    cv = ast.unparse(py2v.find_method(df_tree, "BaseDataFrame", "_convert_leaf_to_cte"))
    for n in ["sequence_id = sequence_id or df.sequence_id", "branch_id=self.branch_id, sequence_id=sequence_id",
              "df._add_ctes_to_expression(exp.Select(), expression.ctes + [cte_expression])"]:
        if n not in cv:
            raise Untranslatable(f"_convert_leaf_to_cte: `{n}` not found")
    co = ast.unparse(py2v.find_method(df_tree, "BaseDataFrame", "_collect"))
    if "self._get_expressions(optimize=False)" not in co:
        raise Untranslatable("_collect no longer executes the unoptimised expressions")
    return True


# ---------------------------------------------------------------------------------------------------
# classes of slips that make a result depend on something other than the program: iteration over a set (order depends on
# the per-process string hash seed), session accessors that cache a stateful builder, builders applied in place to an
# expression tree that another frame / a registered view shares

def _setlike(n, names):
    if isinstance(n, (ast.Set, ast.SetComp)):
        return True
    if isinstance(n, ast.Call) and isinstance(n.func, ast.Name) and n.func.id in ("set", "frozenset"):
        return True
    if isinstance(n, ast.BinOp) and isinstance(n.op, (ast.Sub, ast.BitOr, ast.BitAnd, ast.BitXor)) \
            and (_setlike(n.left, names) or _setlike(n.right, names)):
        return True
    if isinstance(n, ast.Name) and n.id in names:
        return True
    if isinstance(n, ast.Call) and isinstance(n.func, ast.Attribute) \
            and n.func.attr in ("union", "difference", "intersection", "symmetric_difference", "copy") and _setlike(n.func.value, names):
        return True
    return False


def set_iterations(repo):
    """sites where an ordered thing (loop, list/tuple/sorted-less comprehension, join, extend) is built from a set"""
    out = []
    for d in SCAN_DIRS:
        full = os.path.join(repo, d)
        for fn in sorted(os.listdir(full)):
            if not fn.endswith(".py"):
                continue
            tree, _ = py2v.load(os.path.join(full, fn))
            for f in ast.walk(tree):
                if not isinstance(f, (ast.FunctionDef, ast.AsyncFunctionDef)):
                    continue
                names = set()
                for _ in range(2):
                    for n in ast.walk(f):
                        if isinstance(n, ast.Assign) and len(n.targets) == 1 and isinstance(n.targets[0], ast.Name) \
                                and _setlike(n.value, names):
                            names.add(n.targets[0].id)
                        if isinstance(n, ast.AnnAssign) and isinstance(n.target, ast.Name) and n.value is not None \
                                and _setlike(n.value, names):
                            names.add(n.target.id)
                for n in ast.walk(f):
                    its = []
                    if isinstance(n, ast.For):
                        its.append(n.iter)
                    if isinstance(n, (ast.ListComp, ast.GeneratorExp, ast.DictComp)):
                        its += [g.iter for g in n.generators]
                    if isinstance(n, ast.Call) and isinstance(n.func, ast.Name) and n.func.id in ("list", "tuple", "enumerate", "zip"):
                        its += n.args
                    if isinstance(n, ast.Call) and isinstance(n.func, ast.Attribute) and n.func.attr in ("join", "extend"):
                        its += n.args
                    if isinstance(n, ast.Starred):
                        its.append(n.value)
                    for it in its:
                        if _setlike(it, names):
                            out.append(f"{fn[:-3]}.{f.name}:{ast.unparse(it)[:60]}")
    return sorted(set(out))


def accessor_kinds(ses_tree, duck_tree):
    """(class.accessor, property | cached_property) for the session classes"""
    out = []
    for tree, cname in ((ses_tree, "_BaseSession"), (duck_tree, "DuckDBSession")):
        cls = py2v.find_class(tree, cname)
        for st in cls.body:
            if not isinstance(st, ast.FunctionDef):
                continue
            for dd in st.decorator_list:
                k = dotted(dd)
                if k in ("property", "cached_property", "functools.cached_property"):
                    out.append((f"{cname}.{st.name}", k.split(".")[-1]))
    return out


def inplace_builders(repo):
    """calls with copy=False whose receiver is (part of) a frame's expression tree"""
    out = []
    for d in SCAN_DIRS:
        full = os.path.join(repo, d)
        for fn in sorted(os.listdir(full)):
            if not fn.endswith(".py"):
                continue
            tree, _ = py2v.load(os.path.join(full, fn))
            par = _parents(tree)
            for n in ast.walk(tree):
                if isinstance(n, ast.Call) and isinstance(n.func, ast.Attribute) and any(
                        k.arg == "copy" and isinstance(k.value, ast.Constant) and k.value.value is False for k in n.keywords):
                    recv = n.func.value
                    mentions = any(isinstance(x, ast.Attribute) and x.attr in ("expression", "ctes") for x in ast.walk(recv)) \
                        and not any(isinstance(x, ast.Call) and isinstance(x.func, ast.Attribute) and x.func.attr == "copy"
                                    for x in ast.walk(recv))
                    if mentions:
                        out.append(f"{_qualname(n, par, fn[:-3])}:{ast.unparse(n.func)[:60]}")
    return sorted(set(out))


def generate(repo: str):
    P = lambda p: py2v.load(os.path.join(repo, p))  # noqa
    norm_tree, norm_src = P("sqlframe/base/normalize.py")
    ses_tree, ses_src = P("sqlframe/base/session.py")
    df_tree, df_src = P("sqlframe/base/dataframe.py")
    cat_tree, _ = P("sqlframe/base/catalog.py")
    mix_tree, _ = P("sqlframe/base/mixins/dataframe_mixins.py")
    op_tree, _ = P("sqlframe/base/operations.py")
    duck_tree, _ = P("sqlframe/duckdb/session.py")

    acc = registry_accesses(repo)
    scoped = alias_scoping(norm_tree)
    id_resolution_shape(norm_tree)
    aia = schema_cache_policy(cat_tree)
    drops = schema_lookup(mix_tree)
    prefix, hlen = hash_formula(df_tree)
    vals, pred, decos = operation_facts(op_tree, df_tree)
    counter0 = session_shape(ses_tree, duck_tree)
    dataframe_shape(df_tree)
    set_its = set_iterations(repo)
    accs = accessor_kinds(ses_tree, duck_tree)
    inplace = inplace_builders(repo)

    def b(x):
        return "true" if x else "false"

    def s(x):
        return '"' + x + '"'
    triples = sorted({(q, r, k) for q, r, k, _ in acc})
    L = ["(* GENERATED from /repo on every run by translate/c18_facts.py -- do not edit *)",
         "From Coq Require Import List String ZArith Bool.",
         "From SF Require Import C18.Session C18.Compile C18.Facts.",
         "Import ListNotations.", "Local Open Scope string_scope.", "Local Open Scope Z_scope.",
         f"Definition alias_scoped_f : bool := {b(scoped)}.",
         f"Definition schema_aia_f : bool := {b(aia)}.",
         f"Definition schema_drops_view_f : bool := {b(drops)}.",
         f"Definition wrap_needed_f (new_op last_op : Z) : bool := {pred}.",
         "Definition gen_cfg : cfg := mkCfg alias_scoped_f schema_aia_f schema_drops_view_f "
         f"({vals['INIT']}) ({vals[decos['alias']]}) ({vals[decos['join']]}) ({vals[decos['where']]}) ({vals[decos['select']]}) "
         "wrap_needed_f.",
         f"Definition op_noop_value : Z := ({vals['NO_OP']}).",
         f"Definition hash_prefix : string := {s(prefix)}.",
         f"Definition hash_len : nat := {hlen}%nat.",
         "Definition hash_over_rendered_text : bool := true.",
         f"Definition counter_start : nat := {counter0}%nat.",
         "Definition singleton_session : bool := true.",
         "Definition registry_accesses : list (string * string * string) := ["]
    L.append(";\n".join(f"  ({s(q)}, {s(r)}, {s(k)})" for q, r, k in triples))
    L.append("].")
    L.append("Definition set_iterations : list string := [" + "; ".join(s(x.replace('"', "'")) for x in set_its) + "].")
    L.append("Definition session_accessors : list (string * string) := [" + "; ".join(f"({s(a)}, {s(k)})" for a, k in accs) + "].")
    L.append("Definition inplace_builder_calls : list string := [" + "; ".join(s(x.replace('"', "'")) for x in inplace) + "].")
    facts = [
        {"name": "ordered output built from a set (order depends on PYTHONHASHSEED)", "from": ", ".join(SCAN_DIRS), "value": set_its},
        {"name": "session accessors: property | cached_property", "from": "session.py, duckdb/session.py", "value": [list(x) for x in accs]},
        {"name": "builders applied in place (copy=False) to a frame's expression", "from": ", ".join(SCAN_DIRS), "value": inplace},
        {"name": "registry accesses", "from": ", ".join(SCAN_DIRS), "value": [list(t) for t in triples],
         "sites": [w for _, _, _, w in acc]},
        {"name": "alias lookup scoped to the expression's CTE sequence ids", "from": "normalize.py: replace_alias_name_with_cte_name",
         "value": scoped, "hash": py2v.src_hash(py2v.find_func(norm_tree, "replace_alias_name_with_cte_name"), norm_src)},
        {"name": "id resolution shape", "from": "normalize.py: replace_branch_and_sequence_ids_with_cte_name", "value": True,
         "hash": py2v.src_hash(py2v.find_func(norm_tree, "replace_branch_and_sequence_ids_with_cte_name"), norm_src)},
        {"name": "schema cache add-if-absent", "from": "catalog.py: _BaseCatalog.add_table", "value": aia},
        {"name": "schema lookup drops its temporary view", "from": "mixins/dataframe_mixins.py: _typed_columns", "value": drops},
        {"name": "hash name", "from": "dataframe.py: _create_hash_from_expression", "value": {"prefix": prefix, "len": hlen,
                                                                                             "function": "zlib.crc32", "over": "expression.sql(...)"}},
        {"name": "Operation values / wrapper test / decorators", "from": "operations.py, dataframe.py",
         "value": {"values": vals, "wrap_needed": pred, "decorators": decos}},
        {"name": "session singleton, guarded __init__, id properties, counter start", "from": "session.py, duckdb/session.py",
         "value": {"counter_start": counter0}},
        {"name": "BaseDataFrame.__init__/alias/createOrReplaceTempView/_convert_leaf_to_cte/_collect shapes", "from": "dataframe.py",
         "value": True},
    ]
    return "\n".join(L) + "\n", facts
