"""T1 for C11: regenerate, from /repo's current source, the facts the action theorems are parametric in.

Reads (python `ast`, FAIL-CLOSED: any shape not listed here raises py2v.Untranslatable)
  sqlframe/base/dataframe.py   head, first, count, isEmpty, show, collect, _collect, toPandas
  sqlframe/duckdb/dataframe.py toArrow
  sqlframe/duckdb/session.py   _execute (does it record the last result?)
  sqlframe/base/session.py     _collect, _fetchdf (how the statement text is produced)
  sqlframe/base/types.py       Row._unique_field_names (the renaming loop)
and emits Gen/C11Facts.v:
  head_arg / head_scalar / head_index      `n or 1`, `n is None`, seq_get(collected, 0)      (py2v expressions)
  first_arg, isempty_item/head_arg/negates what first/isEmpty delegate to and select
  count_wraps/append/star/pick             what count() selects, after which wrap, which cell it returns
  show_default/wraps/arg/header_needs_row  which rows and names show() prints (truncate must be unused)
  gen_rename                               body of the _unique_field_names loop (py2v statements)
  path_of, arrow_executes_before_reading   arguments on the way to the connection for collect/toPandas/toArrow
  action_writes                            attributes of self each action method assigns (write summary)
"""
from __future__ import annotations

import ast
import os

from vlib import py2v
from vlib.core import strlit
from vlib.py2v import Untranslatable, dotted


# ---- helpers -------------------------------------------------------------------------------------------

def impl_method(tree, cls: str, name: str) -> ast.FunctionDef:
    """the implementation (not a typing overload stub) of cls.name"""
    c = py2v.find_class(tree, cls)
    found = [n for n in c.body if isinstance(n, ast.FunctionDef) and n.name == name
             and not any((dotted(d) or "").endswith("overload") for d in n.decorator_list)]
    if len(found) != 1:
        raise Untranslatable(f"{cls}.{name}: expected exactly one implementation, found {len(found)}")
    return found[0]


def stmts(f) -> list:
    """normalised body (py2v.norm_body: no docstrings / annotations / typing.cast / pass / logging statements; local names kept)
    without local imports, and with single-use temporaries of call-free expressions inlined"""
    body = [s for s in py2v.norm_body(f, rename_locals=False)
            if not (isinstance(s, ast.Expr) and isinstance(s.value, ast.Constant))
            and not isinstance(s, (ast.Import, ast.ImportFrom))]
    # `if <name>: pass` is what remains of a branch that only logged: testing a plain name has no effect
    body = [s for s in body if not (isinstance(s, ast.If) and isinstance(s.test, ast.Name)
                                    and all(isinstance(x, ast.Pass) for x in list(s.body) + list(s.orelse)))]
    return inline_temps(body)


def _binds(node, name: str) -> int:
    """number of places where `name` is (re)bound under node"""
    n = 0
    for x in ast.walk(node):
        if isinstance(x, ast.Name) and x.id == name and isinstance(x.ctx, (ast.Store, ast.Del)):
            n += 1
    return n


def inline_temps(body: list) -> list:
    """`x = e` at the top level, e built only from names/constants/operators/conditionals (no call, no attribute, so nothing
    that could observe or change state), x bound once and read exactly once afterwards: substitute e for x.  A readability
    temporary such as `limit = 1 if n is None else n; df = self.limit(limit)` then matches like the one-liner."""
    import copy
    body = list(body)
    changed = True
    while changed:
        changed = False
        for i, st in enumerate(body):
            if not (isinstance(st, ast.Assign) and len(st.targets) == 1 and isinstance(st.targets[0], ast.Name)):
                continue
            x = st.targets[0].id
            if any(isinstance(n, (ast.Call, ast.Attribute, ast.Subscript, ast.NamedExpr, ast.Lambda, ast.Await, ast.Yield,
                                  ast.ListComp, ast.SetComp, ast.DictComp, ast.GeneratorExp)) for n in ast.walk(st.value)):
                continue
            if sum(_binds(b, x) for b in body) != 1:
                continue
            free = {n.id for n in ast.walk(st.value) if isinstance(n, ast.Name)}
            rest = body[i + 1:]
            reads = [n for b in rest for n in ast.walk(b) if isinstance(n, ast.Name) and n.id == x and isinstance(n.ctx, ast.Load)]
            if len(reads) != 1:
                continue
            # the single read must be in the very next statement, outside any loop/closure, and nothing e mentions is rebound there
            nxt = rest[0]
            if reads[0] not in list(ast.walk(nxt)) or isinstance(nxt, (ast.For, ast.While, ast.FunctionDef, ast.With, ast.Try)):
                continue
            if any(_binds(nxt, v) for v in free):
                continue

            class Sub(ast.NodeTransformer):
                def visit_Name(self, node):
                    if node.id == x and isinstance(node.ctx, ast.Load):
                        return copy.deepcopy(st.value)
                    return node
            body[i + 1] = ast.fix_missing_locations(Sub().visit(nxt))
            del body[i]
            changed = True
            break
    return body


def param_defaults(f: ast.FunctionDef) -> dict:
    """name -> default ast node (or None when the parameter has no default); positional + kw-only"""
    a = f.args
    pos = list(a.posonlyargs) + list(a.args)
    out = {p.arg: None for p in pos}
    for p, d in zip(pos[len(pos) - len(a.defaults):], a.defaults):
        out[p.arg] = d
    for p, d in zip(a.kwonlyargs, a.kw_defaults):
        out[p.arg] = d
    if a.vararg is not None:
        raise Untranslatable(f"{f.name}: *args parameter")
    return out


def const_of(node, what):
    if isinstance(node, ast.Constant) and isinstance(node.value, (int, bool, str, type(None))):
        return node.value
    raise Untranslatable(f"{what}: not a literal ({ast.dump(node)[:60]})")


def is_call(node, func_dotted: str, nargs=None, kws=None) -> bool:
    if not (isinstance(node, ast.Call) and dotted(node.func) == func_dotted):
        return False
    if nargs is not None and len(node.args) != nargs:
        return False
    if kws is not None and sorted(k.arg or "**" for k in node.keywords) != sorted(kws):
        return False
    return True


def names_used(nodes) -> set:
    out = set()
    for n in nodes:
        for x in ast.walk(n):
            if isinstance(x, ast.Name):
                out.add(x.id)
    return out


class Tr11(py2v.Tr):
    """py2v expressions plus what the C11 bodies need: `x or y` on ints/Optional[int], `X if n is None else Y`
    with the Optional unwrapped in the non-None branch, `s in list`, string `+`, `str(i)`."""

    def e(self, n):
        if isinstance(n, ast.BoolOp) and isinstance(n.op, ast.Or) and len(n.values) == 2:
            a, ta = self.e(n.values[0])
            b, tb = self.e(n.values[1])
            if ta == "optZ" and tb == "Z":       # Python: falsy for None and for 0
                return (f"(match {a} with Some v__ => if Z.eqb v__ 0 then {b} else v__ | None => {b} end)"), "Z"
            if ta == "Z" and tb == "Z":
                return f"(if Z.eqb {a} 0 then {b} else {a})", "Z"
            if ta == "bool" and tb == "bool":
                return f"(orb {a} {b})", "bool"
            raise Untranslatable(f"`or` on {ta}, {tb}")
        if isinstance(n, ast.IfExp) and isinstance(n.test, ast.Compare) and len(n.test.ops) == 1 \
                and isinstance(n.test.ops[0], (ast.Is, ast.IsNot)) \
                and isinstance(n.test.comparators[0], ast.Constant) and n.test.comparators[0].value is None \
                and isinstance(n.test.left, ast.Name) and self.types.get(n.test.left.id) == "optZ":
            x = n.test.left.id
            none_branch, some_branch = (n.body, n.orelse) if isinstance(n.test.ops[0], ast.Is) else (n.orelse, n.body)
            a, ta = self.e(none_branch)
            saved = dict(self.types)
            self.types[x] = "Z"                  # unwrapped inside the Some branch (bound by the match)
            try:
                b, tb = self.e(some_branch)
            finally:
                self.types = saved
            if ta != tb:
                raise Untranslatable(f"branches of conditional have types {ta} / {tb}")
            return f"(match {x} with None => {a} | Some {x} => {b} end)", ta
        if isinstance(n, ast.Compare) and len(n.ops) == 1 and isinstance(n.ops[0], (ast.In, ast.NotIn)):
            a, ta = self.e(n.left)
            b, tb = self.e(n.comparators[0])
            if ta == "string" and tb == "liststring":
                t = f"(mem {a} {b})"
                return (t if isinstance(n.ops[0], ast.In) else f"(negb {t})"), "bool"
            raise Untranslatable(f"`in` on {ta}, {tb}")
        if isinstance(n, ast.BinOp) and isinstance(n.op, ast.Add):
            a, ta = self.e(n.left)
            b, tb = self.e(n.right)
            if ta == tb == "string":
                return f"({a} ++ {b})%string", "string"
            if ta == tb == "Z":
                return f"({a} + {b})%Z", "Z"
            raise Untranslatable(f"+ on {ta}, {tb}")
        if isinstance(n, ast.Call) and dotted(n.func) == "str" and len(n.args) == 1 and not n.keywords:
            a, ta = self.e(n.args[0])
            if ta == "nat":
                return f"(str_of_nat {a})", "string"
            raise Untranslatable(f"str() of {ta}")
        return super().e(n)


# ---- head / first ------------------------------------------------------------------------------------

def head_facts(tree, src):
    f = impl_method(tree, "BaseDataFrame", "head")
    defaults = param_defaults(f)
    if list(defaults) != ["self", "n"] or defaults["n"] is None or const_of(defaults["n"], "head: default of n") is not None:
        raise Untranslatable("head: signature is not (self, n=None)")
    body = stmts(f)
    if len(body) != 4:
        raise Untranslatable(f"head: expected 4 statements, found {len(body)}")
    s0, s1, s2, s3 = body
    # X = self.limit(<E>)
    if not (isinstance(s0, ast.Assign) and isinstance(s0.targets[0], ast.Name) and is_call(s0.value, "self.limit", 1, [])):
        raise Untranslatable("head: `df = self.limit(...)` not found")
    xv = s0.targets[0].id
    tr = Tr11(types={"n": "optZ"}, env={}, calls={})
    arg, targ = tr.e(s0.value.args[0])
    if targ != "Z":
        raise Untranslatable(f"head: limit argument has type {targ}")
    # Y = X.collect()
    if not (isinstance(s1, ast.Assign) and isinstance(s1.targets[0], ast.Name) and is_call(s1.value, xv + ".collect", 0, [])):
        raise Untranslatable("head: `collected = df.collect()` not found")
    yv = s1.targets[0].id
    if len({xv, yv, "n", "self"}) != 4:
        raise Untranslatable("head: local names shadow each other")
    # if <test over n>: return seq_get(Y, K)
    if not (isinstance(s2, ast.If) and not s2.orelse and len(s2.body) == 1 and isinstance(s2.body[0], ast.Return)
            and is_call(s2.body[0].value, "seq_get", 2, []) and dotted(s2.body[0].value.args[0]) == yv):
        raise Untranslatable("head: `if ...: return seq_get(collected, k)` not found")
    test, tt = Tr11(types={"n": "optZ"}, env={}, calls={}).e(s2.test)
    if tt != "bool":
        raise Untranslatable("head: test is not boolean")
    idx = const_of(s2.body[0].value.args[1], "head: seq_get index")
    if not isinstance(idx, int) or isinstance(idx, bool) or idx < 0:
        raise Untranslatable("head: seq_get index is not a non-negative int")
    if not (isinstance(s3, ast.Return) and dotted(s3.value) == yv):
        raise Untranslatable("head: `return collected` not found")
    return {"arg": arg, "scalar": test, "index": idx, "hash": py2v.norm_hash(f)}


def opt_int_arg(call: ast.Call, what: str):
    """argument list of a call to head(): () -> None, (k) -> k"""
    if call.keywords or len(call.args) > 1:
        raise Untranslatable(f"{what}: unexpected arguments to head")
    if not call.args:
        return None
    v = const_of(call.args[0], what)
    if v is None:
        return None
    if isinstance(v, bool) or not isinstance(v, int):
        raise Untranslatable(f"{what}: head argument is not an int")
    return v


def first_facts(tree, src):
    f = impl_method(tree, "BaseDataFrame", "first")
    body = stmts(f)
    if not (len(body) == 1 and isinstance(body[0], ast.Return) and isinstance(body[0].value, ast.Call)
            and dotted(body[0].value.func) == "self.head"):
        raise Untranslatable("first: body is not `return self.head(...)`")
    return {"arg": opt_int_arg(body[0].value, "first"), "hash": py2v.norm_hash(f)}


# ---- count / isEmpty / show: straight-line programs over a DataFrame variable -----------------------------

def track_wrapped(assign: ast.Assign, env: dict) -> bool:
    """`x = <recv>._convert_leaf_to_cte()` with recv a tracked DataFrame name: record x as wrapped"""
    v = assign.value
    if isinstance(v, ast.Call) and not v.args and not v.keywords and isinstance(v.func, ast.Attribute) \
            and v.func.attr == "_convert_leaf_to_cte" and dotted(v.func.value) in env:
        env[dotted(assign.targets[0])] = True
        return True
    return False


def skip_guards(body: list, what: str) -> list:
    """leading `if <cond>: raise ...` statements do not change any result that is returned"""
    out = list(body)
    while out and isinstance(out[0], ast.If) and not out[0].orelse and len(out[0].body) == 1 \
            and isinstance(out[0].body[0], ast.Raise):
        out.pop(0)
    return out


def count_facts(tree, src):
    f = impl_method(tree, "BaseDataFrame", "count")
    if list(param_defaults(f)) != ["self"]:
        raise Untranslatable("count: takes parameters")
    body = skip_guards(stmts(f), "count")
    env = {"self": False}      # DataFrame name -> has the open block been frozen into a CTE?
    state = None               # (wrapped, append, text) once the select list has been replaced
    for s in body[:-1]:
        if not (isinstance(s, ast.Assign) and len(s.targets) == 1 and isinstance(s.targets[0], ast.Name)):
            raise Untranslatable("count: statement is not `name = ...`")
        if track_wrapped(s, env):
            continue
        v = s.value
        # name = self.copy(expression=<recv>.expression.select("<text>", append=<bool>))
        if is_call(v, "self.copy", 0, ["expression"]):
            inner = v.keywords[0].value
            if isinstance(inner, ast.Call) and isinstance(inner.func, ast.Attribute) and inner.func.attr == "select" \
                    and isinstance(inner.func.value, ast.Attribute) and inner.func.value.attr == "expression" \
                    and dotted(inner.func.value.value) in env and len(inner.args) == 1:
                append = True   # sqlglot's default
                for kw in inner.keywords:
                    if kw.arg == "append":
                        append = const_of(kw.value, "count: append=")
                    else:
                        raise Untranslatable(f"count: select(..., {kw.arg}=)")
                text = const_of(inner.args[0], "count: selected text")
                state = (env[dotted(inner.func.value.value)], bool(append), str(text))
                env[s.targets[0].id] = "count"
                continue
        raise Untranslatable("count: unrecognised statement " + ast.dump(s)[:80])
    ret = body[-1]
    # return <name>.collect()[i][j]
    ok = isinstance(ret, ast.Return) and isinstance(ret.value, ast.Subscript) and isinstance(ret.value.value, ast.Subscript) \
        and isinstance(ret.value.value.value, ast.Call) and not ret.value.value.value.args \
        and isinstance(ret.value.value.value.func, ast.Attribute) and ret.value.value.value.func.attr == "collect" \
        and env.get(dotted(ret.value.value.value.func.value)) == "count"
    if not ok or state is None:
        raise Untranslatable("count: `return <df with replaced select list>.collect()[i][j]` not found")
    i = const_of(ret.value.value.slice, "count: row index")
    j = const_of(ret.value.slice, "count: column index")
    if not all(isinstance(x, int) and not isinstance(x, bool) and x >= 0 for x in (i, j)):
        raise Untranslatable("count: indices are not non-negative ints")
    star = state[2].replace(" ", "").lower() == "count(*)"
    return {"wraps": state[0], "append": state[1], "star": star, "text": state[2], "pick": (i, j),
            "hash": py2v.norm_hash(f)}


def lit_item(node) -> str:
    """F.lit(<bool|int literal>) -> Coq (expr * string)"""
    if is_call(node, "F.lit", 1, []) or is_call(node, "lit", 1, []):
        v = const_of(node.args[0], "isEmpty: literal")
        if isinstance(v, bool):
            return f'(ELit (VBool {"true" if v else "false"}), "lit"%string)'
        if isinstance(v, int):
            return f'(ELit (VInt ({v})%Z), "lit"%string)'
    raise Untranslatable("isEmpty: selected item is not F.lit(<bool|int>)")


def isempty_facts(tree, src):
    f = impl_method(tree, "BaseDataFrame", "isEmpty")
    if list(param_defaults(f)) != ["self"]:
        raise Untranslatable("isEmpty: takes parameters")
    body = stmts(f)
    if not (len(body) == 1 and isinstance(body[0], ast.Return)):
        raise Untranslatable("isEmpty: body is not a single return")
    v = body[0].value
    negates = False
    if isinstance(v, ast.UnaryOp) and isinstance(v.op, ast.Not):
        negates, v = True, v.operand
    if is_call(v, "bool", 1, []):
        v = v.args[0]
    elif not negates:
        raise Untranslatable("isEmpty: result is neither `not ...` nor `bool(...)`")
    # self.select(<item>).head(<k>)
    if not (isinstance(v, ast.Call) and isinstance(v.func, ast.Attribute) and v.func.attr == "head"
            and is_call(v.func.value, "self.select", 1, [])):
        raise Untranslatable("isEmpty: `self.select(<item>).head(...)` not found")
    return {"item": lit_item(v.func.value.args[0]), "head_arg": opt_int_arg(v, "isEmpty"), "negates": negates,
            "hash": py2v.norm_hash(f)}


def show_facts(tree, src):
    f = impl_method(tree, "BaseDataFrame", "show")
    defaults = param_defaults(f)
    if list(defaults) != ["self", "n", "truncate", "vertical"]:
        raise Untranslatable(f"show: parameters are {list(defaults)}")
    n_default = const_of(defaults["n"], "show: default of n")
    if isinstance(n_default, bool) or not isinstance(n_default, int) or n_default < 0:
        raise Untranslatable("show: default n is not a non-negative int")
    body = stmts(f)
    # leading: if vertical: raise ... ; if truncate: <logger call>   (neither may influence rows or names)
    rest = []
    vertical_raises = truncate_only_logs = False
    for s in body:
        if not rest and isinstance(s, ast.If) and dotted(s.test) == "vertical" and not s.orelse \
                and len(s.body) == 1 and isinstance(s.body[0], ast.Raise):
            vertical_raises = True
            continue
        if not rest and isinstance(s, ast.If) and dotted(s.test) == "truncate" and not s.orelse \
                and all(isinstance(x, ast.Expr) and isinstance(x.value, ast.Call)
                        and (dotted(x.value.func) or "").startswith("logger.") for x in s.body):
            truncate_only_logs = True
            continue
        rest.append(s)
    used = names_used(rest)
    truncate_only_logs = truncate_only_logs or "truncate" not in used
    if "truncate" in used or "vertical" in used:
        raise Untranslatable("show: truncate/vertical influence the printed table")
    env = {"self": False}
    i = 0
    while i < len(rest) and isinstance(rest[i], ast.Assign) and track_wrapped(rest[i], env):
        i += 1
    if len(rest) - i < 2:
        raise Untranslatable("show: statements after the wrap not found")
    s_res, tail = rest[i], rest[i + 1:]
    # result = <recv>.limit(<E>).collect()
    v = s_res.value if isinstance(s_res, ast.Assign) else None
    ok = v is not None and isinstance(s_res.targets[0], ast.Name) and isinstance(v, ast.Call) and not v.args and not v.keywords \
        and isinstance(v.func, ast.Attribute) and v.func.attr == "collect" and isinstance(v.func.value, ast.Call) \
        and isinstance(v.func.value.func, ast.Attribute) and v.func.value.func.attr == "limit" \
        and dotted(v.func.value.func.value) in env and len(v.func.value.args) == 1 and not v.func.value.keywords
    if not ok:
        raise Untranslatable("show: `result = <df>.limit(<n>).collect()` not found")
    wraps = env[dotted(v.func.value.func.value)]
    rv = s_res.targets[0].id            # the collected rows; the table variable is whatever PrettyTable() is bound to
    arg, targ = Tr11(types={"n": "Z"}, env={}, calls={}).e(v.func.value.args[0])
    if targ != "Z":
        raise Untranslatable("show: limit argument is not an int")
    tabs = [st.targets[0].id for st in tail if isinstance(st, ast.Assign) and isinstance(st.targets[0], ast.Name)
            and is_call(st.value, "PrettyTable", 0, [])]
    if len(tabs) != 1 or tabs[0] in (rv, "self", "n") or rv in ("self", "n"):
        raise Untranslatable("show: exactly one `<table> = PrettyTable()` expected")
    tv = tabs[0]

    def is_table(st):
        return isinstance(st, ast.Assign) and dotted(st.targets[0]) == tv and is_call(st.value, "PrettyTable", 0, [])

    def is_rows(st):
        return isinstance(st, ast.For) and not st.orelse and dotted(st.iter) == rv and isinstance(st.target, ast.Name) \
            and len(st.body) == 1 and isinstance(st.body[0], ast.Expr) and is_call(st.body[0].value, tv + ".add_row", 1, []) \
            and is_call(st.body[0].value.args[0], "list", 1, []) and dotted(st.body[0].value.args[0].args[0]) == st.target.id

    def is_print(st):
        return isinstance(st, ast.Expr) and is_call(st.value, "print", 1, []) and dotted(st.value.args[0]) == tv

    if len(tail) == 3:
        # table = PrettyTable(); if row := seq_get(result, 0): <header from that row>; <rows>; print(table)
        s_tab, s_if, s_print = tail
        t = s_if.test if isinstance(s_if, ast.If) else None
        ok = is_table(s_tab) and is_print(s_print) and t is not None and not s_if.orelse and isinstance(t, ast.NamedExpr) \
            and is_call(t.value, "seq_get", 2, []) and dotted(t.value.args[0]) == rv \
            and const_of(t.value.args[1], "show: seq_get index") == 0 and len(s_if.body) == 2
        if not ok:
            raise Untranslatable("show: `table = PrettyTable(); if row := seq_get(result, 0): ...; print(table)` not found")
        s_names, s_for = s_if.body
        if not (isinstance(s_names, ast.Assign) and dotted(s_names.targets[0]) == tv + ".field_names"
                and dotted(s_names.value) == t.target.id + "._unique_field_names"):
            raise Untranslatable("show: header is not row._unique_field_names")
        if not is_rows(s_for):
            raise Untranslatable("show: rows are not added as `for row in result: table.add_row(list(row))`")
        header_needs_row = True
    elif len(tail) == 5:
        # header = seq_get(result, 0) or _create_row(self.columns, [None] * len(self.columns))   (names without any row)
        # table = PrettyTable(); table.field_names = header._unique_field_names; <rows>; print(table)
        s_hdr, s_tab, s_names, s_for, s_print = tail
        if is_table(s_hdr):
            s_hdr, s_tab = s_tab, s_hdr
        h = s_hdr.value if isinstance(s_hdr, ast.Assign) and isinstance(s_hdr.targets[0], ast.Name) else None
        ok = h is not None and isinstance(h, ast.BoolOp) and isinstance(h.op, ast.Or) and len(h.values) == 2 \
            and is_call(h.values[0], "seq_get", 2, []) and dotted(h.values[0].args[0]) == rv \
            and const_of(h.values[0].args[1], "show: seq_get index") == 0 \
            and is_call(h.values[1], "_create_row", 2, []) and dotted(h.values[1].args[0]) == "self.columns"
        if not ok:
            raise Untranslatable("show: `header = seq_get(result, 0) or _create_row(self.columns, ...)` not found")
        fill = h.values[1].args[1]     # [None] * len(self.columns): one value per column
        ok = isinstance(fill, ast.BinOp) and isinstance(fill.op, ast.Mult) and isinstance(fill.left, ast.List) \
            and len(fill.left.elts) == 1 and is_call(fill.right, "len", 1, []) and dotted(fill.right.args[0]) == "self.columns"
        if not ok:
            raise Untranslatable("show: placeholder row is not `[x] * len(self.columns)`")
        hv = s_hdr.targets[0].id
        if not (is_table(s_tab) and isinstance(s_names, ast.Assign) and dotted(s_names.targets[0]) == tv + ".field_names"
                and dotted(s_names.value) == hv + "._unique_field_names"):
            raise Untranslatable("show: header is not <header>._unique_field_names")
        if not is_rows(s_for):
            raise Untranslatable("show: rows are not added as `for row in result: table.add_row(list(row))`")
        if not is_print(s_print):
            raise Untranslatable("show: `print(table)` not found")
        header_needs_row = False
    else:
        raise Untranslatable(f"show: {len(tail)} statements after `result = ...`")
    return {"default": n_default, "wraps": wraps, "arg": arg, "header_needs_row": header_needs_row,
            "vertical_raises": vertical_raises, "truncate_only_logs": truncate_only_logs, "hash": py2v.norm_hash(f)}


# ---- Row._unique_field_names ---------------------------------------------------------------------------------

def rename_facts(tree, src):
    f = py2v.find_method(tree, "Row", "_unique_field_names")
    body = stmts(f)
    if len(body) != 3:
        raise Untranslatable(f"_unique_field_names: expected 3 statements, found {len(body)}")
    s0, s1, s2 = body
    tgt0 = s0.targets[0] if isinstance(s0, ast.Assign) else s0.target if isinstance(s0, ast.AnnAssign) else None
    if not (isinstance(tgt0, ast.Name) and isinstance(s0.value, ast.List) and not s0.value.elts):
        raise Untranslatable("_unique_field_names: accumulator is not initialised with []")
    acc = tgt0.id
    ok = isinstance(s1, ast.For) and not s1.orelse and isinstance(s1.target, ast.Tuple) and len(s1.target.elts) == 2 \
        and all(isinstance(x, ast.Name) for x in s1.target.elts) \
        and is_call(s1.iter, "enumerate", 1, []) and dotted(s1.iter.args[0]) == "self.__fields__"
    if not ok:
        raise Untranslatable("_unique_field_names: loop is not `for i, field in enumerate(self.__fields__)`")
    iv, fv = s1.target.elts[0].id, s1.target.elts[1].id
    last = s1.body[-1]
    if not (isinstance(last, ast.Expr) and is_call(last.value, acc + ".append", 1, [])):
        raise Untranslatable("_unique_field_names: loop body does not end in <acc>.append(...)")
    for st in s1.body[:-1]:
        for x in ast.walk(st):
            if isinstance(x, ast.Call) and (dotted(x.func) or "").startswith(acc + "."):
                raise Untranslatable("_unique_field_names: accumulator is modified inside the body")
            if isinstance(x, (ast.Assign, ast.AugAssign)) and acc in names_used(getattr(x, "targets", [getattr(x, "target", None)])):
                raise Untranslatable("_unique_field_names: accumulator is re-assigned inside the body")
    types0 = {acc: "liststring", iv: "nat", fv: "string"}
    inner = list(s1.body[:-1])
    if len(inner) == 2 and isinstance(inner[1], ast.While):
        # cand, ctr = <start>, <index>;  while <bad(cand)>: cand = <mk(ctr)>; ctr += 1;  acc.append(cand)
        s_init, s_while = inner
        ok = isinstance(s_init, ast.Assign) and isinstance(s_init.targets[0], ast.Tuple) and len(s_init.targets[0].elts) == 2 \
            and all(isinstance(x, ast.Name) for x in s_init.targets[0].elts) and isinstance(s_init.value, ast.Tuple) \
            and len(s_init.value.elts) == 2
        if not ok:
            raise Untranslatable("_unique_field_names: `cand, ctr = start, index` not found before the while loop")
        cand, ctr = (x.id for x in s_init.targets[0].elts)
        if len({cand, ctr, acc, iv, fv}) != 5:
            raise Untranslatable("_unique_field_names: loop variables shadow each other")
        start, t_start = Tr11(types=types0, env={}, calls={}).e(s_init.value.elts[0])
        idx, t_idx = Tr11(types=types0, env={}, calls={}).e(s_init.value.elts[1])
        if (t_start, t_idx) != ("string", "nat"):
            raise Untranslatable(f"_unique_field_names: start/index have types {t_start}/{t_idx}")
        wb = s_while.body
        ok = not s_while.orelse and len(wb) == 2 and isinstance(wb[0], ast.Assign) and dotted(wb[0].targets[0]) == cand \
            and isinstance(wb[1], ast.AugAssign) and dotted(wb[1].target) == ctr and isinstance(wb[1].op, ast.Add) \
            and isinstance(wb[1].value, ast.Constant) and wb[1].value.value == 1
        if not ok:
            raise Untranslatable("_unique_field_names: while body is not `cand = <expr>; ctr += 1`")
        bad, t_bad = Tr11(types={**types0, cand: "string"}, env={}, calls={}).e(s_while.test)
        if t_bad != "bool" or ctr in names_used([s_while.test]):
            raise Untranslatable("_unique_field_names: while condition is not a bool over the candidate")
        mk, t_mk = Tr11(types={**types0, ctr: "nat"}, env={}, calls={}).e(wb[0].value)
        if t_mk != "string" or cand in names_used([wb[0].value]):
            raise Untranslatable("_unique_field_names: candidate expression is not a string over the counter")
        if dotted(last.value.args[0]) != cand:
            raise Untranslatable("_unique_field_names: the appended value is not the loop's candidate")
        term = (f"(while_fresh (fun {cand} => {bad}) (fun {ctr} => {mk}) {start} {idx} (S (List.length {acc})))")
        ty = "string"
    else:
        tr = Tr11(types=types0, env={}, calls={})
        # the appended value is the body's result
        term, ty = tr.body(inner + [ast.Return(value=last.value.args[0])])
    if ty != "string":
        raise Untranslatable(f"_unique_field_names: appended value has type {ty}")
    if not (isinstance(s2, ast.Return) and dotted(s2.value) == acc):
        raise Untranslatable("_unique_field_names: does not return the accumulator")
    return {"params": (acc, iv, fv), "term": term, "hash": py2v.norm_hash(f)}


# ---- statement paths of collect / toPandas / toArrow -------------------------------------------------------

def kw_bool(call: ast.Call, name: str, default):
    for kw in call.keywords:
        if kw.arg == name:
            v = const_of(kw.value, f"{name}=")
            if not isinstance(v, bool):
                raise Untranslatable(f"{name}= is not a bool literal")
            return v
        if kw.arg is None:
            return default   # **kwargs: the callers below pass none (checked separately)
    return default


def get_expr_call(node, what):
    """self._get_expressions(optimize=<b>) -> b"""
    if not (isinstance(node, ast.Call) and dotted(node.func) == "self._get_expressions" and not node.args):
        raise Untranslatable(f"{what}: statement source is not self._get_expressions(...)")
    for kw in node.keywords:
        if kw.arg not in ("optimize",):
            raise Untranslatable(f"{what}: _get_expressions({kw.arg}=)")
    return node


def path_facts(df_tree, df_src, sess_tree, sess_src, ddf_tree, ddf_src, dsess_tree, dsess_src):
    ge = impl_method(df_tree, "BaseDataFrame", "_get_expressions")
    ge_defaults = param_defaults(ge)
    opt_default = const_of(ge_defaults["optimize"], "_get_expressions: default of optimize")
    # collect -> self._collect() ; _collect -> self.session._collect(self._get_expressions(optimize=..), **kwargs)
    c = impl_method(df_tree, "BaseDataFrame", "collect")
    b = stmts(c)
    if not (len(b) == 1 and isinstance(b[0], ast.Return) and is_call(b[0].value, "self._collect", 0, [])):
        raise Untranslatable("collect: body is not `return self._collect()`")
    c2 = impl_method(df_tree, "BaseDataFrame", "_collect")
    b = stmts(c2)
    if not (len(b) == 1 and isinstance(b[0], ast.Return) and is_call(b[0].value, "self.session._collect", 1, ["**"])):
        raise Untranslatable("_collect: body is not `return self.session._collect(<exprs>, **kwargs)`")
    collect_opt = kw_bool(get_expr_call(b[0].value.args[0], "_collect"), "optimize", opt_default)
    # toPandas -> self.session._fetchdf(self._get_expressions(optimize=..))
    p = impl_method(df_tree, "BaseDataFrame", "toPandas")
    b = stmts(p)
    if not (len(b) == 1 and isinstance(b[0], ast.Return) and is_call(b[0].value, "self.session._fetchdf", 1, [])):
        raise Untranslatable("toPandas: body is not `return self.session._fetchdf(<exprs>)`")
    pandas_opt = kw_bool(get_expr_call(b[0].value.args[0], "toPandas"), "optimize", opt_default)
    # session._collect: sql = expression.sql(...) if skip_normalization else self._to_sql(expression, quote_identifiers=quote_identifiers)
    sc = impl_method(sess_tree, "_BaseSession", "_collect")
    sc_def = param_defaults(sc)
    q_collect = const_of(sc_def["quote_identifiers"], "_collect: quote_identifiers default")
    skipn_collect = const_of(sc_def["skip_normalization"], "_collect: skip_normalization default")
    skiprows_default = const_of(sc_def["skip_rows"], "_collect: skip_rows default")
    ifexps = [n for n in ast.walk(sc) if isinstance(n, ast.IfExp) and dotted(n.test) == "skip_normalization"]
    if len(ifexps) != 1:
        raise Untranslatable("session._collect: `... if skip_normalization else ...` not found exactly once")
    tosql = ifexps[0].orelse
    if not (is_call(tosql, "self._to_sql", 1, ["quote_identifiers"]) and dotted(tosql.keywords[0].value) == "quote_identifiers"):
        raise Untranslatable("session._collect: normal branch is not self._to_sql(expression, quote_identifiers=quote_identifiers)")
    execs = [n for n in ast.walk(sc) if is_call(n, "self._execute", 1, [])]
    if len(execs) != 1 or dotted(execs[0].args[0]) != "sql":
        raise Untranslatable("session._collect: self._execute(sql) not found exactly once")
    # session._fetchdf: every statement goes through self._to_sql(x, quote_identifiers=quote_identifiers)
    sf = impl_method(sess_tree, "_BaseSession", "_fetchdf")
    q_fetch = const_of(param_defaults(sf)["quote_identifiers"], "_fetchdf: quote_identifiers default")
    tosqls = [n for n in ast.walk(sf) if isinstance(n, ast.Call) and dotted(n.func) == "self._to_sql"]
    if not tosqls or not all(len(n.args) == 1 and [k.arg for k in n.keywords] == ["quote_identifiers"]
                             and dotted(n.keywords[0].value) == "quote_identifiers" for n in tosqls):
        raise Untranslatable("session._fetchdf: statements are not rendered by self._to_sql(x, quote_identifiers=quote_identifiers)")

    def rendered(node):
        """node is a self._to_sql(...) call, or a local bound exactly once in _fetchdf, to such a call"""
        if node in tosqls:
            return True
        if isinstance(node, ast.Name):
            binds = [st for st in ast.walk(sf) if isinstance(st, ast.Assign) and any(
                isinstance(x, ast.Name) and x.id == node.id for tg in st.targets for x in ast.walk(tg))]
            return _binds(sf, node.id) == 1 and len(binds) == 1 and len(binds[0].targets) == 1 \
                and isinstance(binds[0].targets[0], ast.Name) and binds[0].value in tosqls
        return False
    reads = [n for n in ast.walk(sf) if is_call(n, "read_sql_query")]
    if len(reads) != 1 or len(reads[0].args) < 1 or not rendered(reads[0].args[0]):
        raise Untranslatable("session._fetchdf: read_sql_query(<text rendered by self._to_sql>, conn) not found")
    for ex_call in [n for n in ast.walk(sf) if is_call(n, "self._execute")]:
        if len(ex_call.args) != 1 or not rendered(ex_call.args[0]):
            raise Untranslatable("session._fetchdf: self._execute(<text rendered by self._to_sql>) expected")
    # toArrow: self._collect(skip_rows=True) ... self.session._last_result.arrow() / fetch_record_batch
    ta = impl_method(ddf_tree, "DuckDBDataFrame", "toArrow")
    b = stmts(ta)
    first_exec = None
    first_read = None
    arrow_kwargs = {}
    for i, s in enumerate(b):
        for n in ast.walk(s):
            if isinstance(n, ast.Call) and dotted(n.func) == "self._collect":
                if n.args:
                    raise Untranslatable("toArrow: positional arguments to _collect")
                for kw in n.keywords:
                    if kw.arg is None:
                        raise Untranslatable("toArrow: **kwargs to _collect")
                    arrow_kwargs[kw.arg] = const_of(kw.value, "toArrow: _collect kwarg")
                first_exec = i if first_exec is None else first_exec
            if dotted(n) == "self.session._last_result" and first_read is None:
                first_read = i
    if first_exec is None or first_read is None:
        raise Untranslatable("toArrow: does not execute through self._collect and read session._last_result")
    if set(arrow_kwargs) - {"skip_rows", "quote_identifiers", "skip_normalization"}:
        raise Untranslatable(f"toArrow: unknown _collect kwargs {sorted(arrow_kwargs)}")
    # DuckDBSession._execute records the result the arrow conversion reads
    ex = impl_method(dsess_tree, "DuckDBSession", "_execute")
    b = stmts(ex)
    sets_last = (len(b) == 1 and isinstance(b[0], ast.Assign) and dotted(b[0].targets[0]) == "self._last_result"
                 and is_call(b[0].value, "self._cur.execute", 1, []) and dotted(b[0].value.args[0]) == "sql")
    if not sets_last:
        raise Untranslatable("DuckDBSession._execute: is not `self._last_result = self._cur.execute(sql)`")
    paths = {
        "ACollect": (collect_opt, q_collect, skipn_collect),
        "AToPandas": (pandas_opt, q_fetch, False),
        "AToArrow": (collect_opt, arrow_kwargs.get("quote_identifiers", q_collect),
                     arrow_kwargs.get("skip_normalization", skipn_collect)),
    }
    return {"paths": paths, "arrow_exec_before_read": first_exec < first_read,
            "arrow_skip_rows": arrow_kwargs.get("skip_rows", skiprows_default),
            "hash": py2v.norm_hash(ta)}


# ---- receiver-write summary ------------------------------------------------------------------------------------

MUTATORS = {"append", "extend", "update", "add", "pop", "remove", "clear", "insert", "setdefault", "popitem", "discard"}


def self_writes(f: ast.FunctionDef) -> list:
    """attributes of `self` the method assigns, deletes, or mutates through a container method"""
    out = []

    def root_attr(t):
        while isinstance(t, (ast.Subscript, ast.Attribute)):
            if isinstance(t, ast.Attribute) and isinstance(t.value, ast.Name) and t.value.id == "self":
                return t.attr
            t = t.value
        return None

    for n in ast.walk(f):
        targets = []
        if isinstance(n, ast.Assign):
            targets = n.targets
        elif isinstance(n, (ast.AugAssign, ast.AnnAssign)):
            targets = [n.target]
        elif isinstance(n, ast.Delete):
            targets = n.targets
        for t in targets:
            for x in (t.elts if isinstance(t, ast.Tuple) else [t]):
                a = root_attr(x)
                if a is not None and not (isinstance(x, ast.Attribute) and False):
                    # writes below self.session.* are session state, reported separately with the prefix
                    out.append(a if a != "session" else "session." + (dotted(x) or "?").split(".", 2)[-1])
        if isinstance(n, ast.Call) and is_call(n, "setattr") and n.args and dotted(n.args[0]) == "self":
            out.append("setattr")
        if isinstance(n, ast.Call) and isinstance(n.func, ast.Attribute) and n.func.attr in MUTATORS:
            a = root_attr(n.func.value)
            if a is not None:
                out.append(a + "." + n.func.attr + "()")
    return sorted(set(out))


def chain_cfg(repo: str):
    """The part of C01's facts the C11 theorems are parametric in (Model.Chain.cfg): Operation ranks, the wrap rule and
    INIT step of the `operation` decorator, the decorator class of select/where/orderBy/limit/distinct, orderBy's append
    flag, limit's merge.  Produced by translate/c01_facts.py's own fail-closed readers; C01's other facts (group
    decorator, order-key flags, column order methods, decorator table) are not needed here and not read."""
    from translate import c01_facts as c
    ops_tree, ops_src = py2v.load(os.path.join(repo, "sqlframe/base/operations.py"))
    df_tree, df_src = py2v.load(os.path.join(repo, "sqlframe/base/dataframe.py"))
    vals = c.enum_values(ops_tree)
    w = c.wrapper_facts(ops_tree, ops_src, "operation", "self")
    decos = c.method_decorators(df_tree, "BaseDataFrame", "operation")
    oa = c.order_append(df_tree)
    lm, lm_hash = c.limit_merge(df_tree, df_src)
    for n, m in c.NAMES.items():
        if decos.get(m) is None:
            raise Untranslatable(f"method {m} has no @operation decorator")
    L = ["(* GENERATED from /repo on every run by translate/c11_facts.chain_cfg (readers of translate/c01_facts.py) *)",
         "From SF Require Import Model.Chain.", "Open Scope Z_scope.",
         "Definition rank (k : opk) : Z := match k with " + " | ".join(f"{k} => ({vals[k]})" for k in c.OPK) + " end.",
         "Definition opk_ltb a b := Z.ltb (rank a) (rank b).", "Definition opk_leb a b := Z.leb (rank a) (rank b).",
         "Definition opk_gtb a b := Z.gtb (rank a) (rank b).", "Definition opk_geb a b := Z.geb (rank a) (rank b).",
         f"Definition wrap_needed_df (last_op new_op : opk) : bool := {w['test']}.",
         f"Definition new_kind_df (op last_op : opk) : opk := {w['new_kind']}.",
         f"Definition init_wraps_df : bool := {'true' if w['init_wraps'] else 'false'}.",
         "Definition kind_of (n : opname) : opk := match n with " + " | ".join(f"{n} => {decos[m]}" for n, m in c.NAMES.items()) + " end.",
         f"Definition order_append : bool := {'true' if oa else 'false'}.",
         f"Definition limit_merge (num m : Z) : Z := {lm}.",
         "Definition gen_cfg : cfg := mkCfg wrap_needed_df kind_of init_wraps_df order_append limit_merge."]
    facts = [{"name": "rank", "from": "operations.py: class Operation", "value": vals},
             {"name": "wrap_needed_df", "from": "operations.py: operation.wrapper", "hash": w["hash"], "text": w["test"]},
             {"name": "new_kind_df", "text": w["new_kind"]}, {"name": "init_wraps_df", "value": w["init_wraps"]},
             {"name": "kind_of", "from": "dataframe.py decorators", "value": {m: decos[m] for m in c.NAMES.values()}},
             {"name": "order_append", "value": oa}, {"name": "limit_merge", "hash": lm_hash, "text": lm}]
    return "\n".join(L) + "\n", facts


def coq_bool(b) -> str:
    return "true" if b else "false"


def coq_optz(v) -> str:
    return "None" if v is None else f"(Some ({int(v)})%Z)"


def generate(repo: str):
    df_tree, df_src = py2v.load(os.path.join(repo, "sqlframe/base/dataframe.py"))
    sess_tree, sess_src = py2v.load(os.path.join(repo, "sqlframe/base/session.py"))
    ddf_tree, ddf_src = py2v.load(os.path.join(repo, "sqlframe/duckdb/dataframe.py"))
    dsess_tree, dsess_src = py2v.load(os.path.join(repo, "sqlframe/duckdb/session.py"))
    ty_tree, ty_src = py2v.load(os.path.join(repo, "sqlframe/base/types.py"))
    h = head_facts(df_tree, df_src)
    fi = first_facts(df_tree, df_src)
    cn = count_facts(df_tree, df_src)
    ie = isempty_facts(df_tree, df_src)
    sh = show_facts(df_tree, df_src)
    rn = rename_facts(ty_tree, ty_src)
    pa = path_facts(df_tree, df_src, sess_tree, sess_src, ddf_tree, ddf_src, dsess_tree, dsess_src)
    writes = {}
    for m in ["collect", "_collect", "head", "first", "show", "toPandas", "count", "isEmpty"]:
        writes[m] = self_writes(impl_method(df_tree, "BaseDataFrame", m))
    writes["toArrow"] = self_writes(impl_method(ddf_tree, "DuckDBDataFrame", "toArrow"))
    acc, iv, fv = rn["params"]
    L = []
    L.append("(* GENERATED from /repo on every run by translate/c11_facts.py -- do not edit *)")
    L.append("From SF Require Import C11.Actions.")
    L.append("Open Scope Z_scope.")
    L.append(f"Definition head_arg (n : option Z) : Z := {h['arg']}.")
    L.append(f"Definition head_scalar (n : option Z) : bool := {h['scalar']}.")
    L.append(f"Definition head_index : Z := ({h['index']})%Z.")
    L.append(f"Definition first_arg : option Z := {coq_optz(fi['arg'])}.")
    L.append(f"Definition count_wraps : bool := {coq_bool(cn['wraps'])}.")
    L.append(f"Definition count_append : bool := {coq_bool(cn['append'])}.")
    L.append(f"Definition count_star : bool := {coq_bool(cn['star'])}.")
    L.append(f"Definition count_pick : nat * nat := ({cn['pick'][0]}%nat, {cn['pick'][1]}%nat).")
    L.append(f"Definition isempty_item : expr * string := {ie['item']}.")
    L.append(f"Definition isempty_head_arg : option Z := {coq_optz(ie['head_arg'])}.")
    L.append(f"Definition isempty_negates : bool := {coq_bool(ie['negates'])}.")
    L.append(f"Definition show_default : Z := ({sh['default']})%Z.")
    L.append(f"Definition show_wraps : bool := {coq_bool(sh['wraps'])}.")
    L.append(f"Definition show_arg (n : Z) : Z := {sh['arg']}.")
    L.append(f"Definition show_header_needs_row : bool := {coq_bool(sh['header_needs_row'])}.")
    L.append(f"Definition gen_rename ({acc} : list string) ({iv} : nat) ({fv} : string) : string := {rn['term']}.")
    L.append("Definition gen_afacts : afacts := mkA head_arg head_scalar head_index first_arg count_wraps count_append "
             "count_star count_pick isempty_item isempty_head_arg isempty_negates show_default show_wraps show_arg "
             "show_header_needs_row gen_rename.")
    L.append("Definition unique_field_names : list string -> list string := ufn gen_rename.")
    L.append("Definition path_of (k : action) : spath := match k with " + " | ".join(
        f"{k} => mkPath {coq_bool(o)} {coq_bool(q)} {coq_bool(s)}" for k, (o, q, s) in pa["paths"].items()) + " end.")
    L.append(f"Definition arrow_executes_before_reading : bool := {coq_bool(pa['arrow_exec_before_read'])}.")
    L.append("Definition action_writes : list (string * list string) := [" + "; ".join(
        f"({strlit(m)}, [" + "; ".join(strlit(w) for w in ws) + "])" for m, ws in writes.items()) + "].")
    facts = [
        {"name": "head_arg", "from": "dataframe.py: head `self.limit(...)`", "hash": h["hash"], "text": h["arg"]},
        {"name": "head_scalar", "from": "dataframe.py: head `if ...: return seq_get`", "text": h["scalar"]},
        {"name": "head_index", "value": h["index"]},
        {"name": "first_arg", "from": "dataframe.py: first", "hash": fi["hash"], "value": fi["arg"]},
        {"name": "count", "from": "dataframe.py: count", "hash": cn["hash"],
         "value": {k: cn[k] for k in ("wraps", "append", "star", "text", "pick")}},
        {"name": "isEmpty", "from": "dataframe.py: isEmpty", "hash": ie["hash"],
         "value": {k: ie[k] for k in ("item", "head_arg", "negates")}},
        {"name": "show", "from": "dataframe.py: show", "hash": sh["hash"],
         "value": {k: sh[k] for k in ("default", "wraps", "arg", "header_needs_row", "vertical_raises", "truncate_only_logs")}},
        {"name": "gen_rename", "from": "types.py: Row._unique_field_names", "hash": rn["hash"], "text": rn["term"]},
        {"name": "path_of", "from": "dataframe.py collect/_collect/toPandas, duckdb/dataframe.py toArrow, session.py _collect/_fetchdf",
         "hash": pa["hash"], "value": {k: list(v) for k, v in pa["paths"].items()}},
        {"name": "arrow_executes_before_reading", "value": pa["arrow_exec_before_read"]},
        {"name": "action_writes", "value": writes},
    ]
    return "\n".join(L) + "\n", facts


if __name__ == "__main__":
    import sys
    text, facts = generate(sys.argv[1] if len(sys.argv) > 1 else "/repo")
    print(text)
