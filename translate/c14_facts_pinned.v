(* GENERATED from /repo on every run by translate/c14_facts.py -- do not edit *)
From SF Require Import Base.Val C14.Writer C14.Builder.
Open Scope string_scope.
Definition sat_plan (table_exists : bool) (arg_mode self_mode : option string) : sat_action :=
  (let mode_1 := (py_or_str arg_mode (py_str_opt self_mode)) in (if (String.eqb mode_1 "append"%string) then (if (orb (negb true) table_exists) then SatInsert else (if (String.eqb mode_1 "ignore"%string) then (let exists_2 := true in (if (String.eqb mode_1 "overwrite"%string) then (let replace_3 := true in (SatCreate exists_2 replace_3)) else (SatCreate exists_2 false))) else (if (String.eqb mode_1 "overwrite"%string) then (let replace_4 := true in (SatCreate false replace_4)) else (SatCreate false false)))) else (if (String.eqb mode_1 "ignore"%string) then (let exists_5 := true in (if (String.eqb mode_1 "overwrite"%string) then (let replace_6 := true in (SatCreate exists_5 replace_6)) else (SatCreate exists_5 false))) else (if (String.eqb mode_1 "overwrite"%string) then (let replace_7 := true in (SatCreate false replace_7)) else (SatCreate false false))))).
Definition validate_mode (path_exists : bool) (mode0 : option string) : vres :=
  (let mode_1 := (py_or_str mode0 "error"%string) in (if (andb (orb (String.eqb mode_1 "error"%string) (orb (String.eqb mode_1 "errorifexists"%string) false)) path_exists) then VRaiseExists else (if (andb (String.eqb mode_1 "ignore"%string) path_exists) then (VOk mode_1 true) else (VOk mode_1 false)))).
Definition after_validate (mode : string) (skip : bool) : wact :=
  (if skip then WSkip else (if (String.eqb mode "append"%string) then WNotImpl else WCopy)).
Definition path_mode (f : fmt) (arg_mode self_mode : option string) : option string :=
  match f with FCsv => (py_or_opt arg_mode self_mode) | FJson => (py_or_opt arg_mode self_mode) | FParquet => (py_or_opt arg_mode self_mode) end.
Definition add_if_absent : bool := false.
Definition byname_source : byname_src := ByEngine.
Definition cleans_new_path_debris : bool := true.
Definition gen_cfg : cfg := mkCfg sat_plan validate_mode after_validate path_mode add_if_absent byname_source cleans_new_path_debris.
Definition b_mode (w : wflags) (arg : option string) : wflags := mkW arg (w_by_name w) (w_format w).
Definition b_byname (w : wflags) : wflags := mkW (w_mode w) true (w_format w).
Definition b_format (w : wflags) (arg : string) : wflags := mkW (w_mode w) (w_by_name w) (Some arg).
Definition gen_bcfg : bcfg := mkB b_mode b_byname b_format.

