"""T1 for C07: regenerate from /repo (fail-closed) what the set-operation theorems are parametric in.

From sqlframe/base/dataframe.py, class BaseDataFrame:
  * per public method (union, unionAll, unionByName, intersect, intersectAll, exceptAll) the sqlglot class and
    the `distinct` flag handed to `_set_operation`, and the Operation of its @operation decorator;
  * from `_set_operation` itself: which operand becomes `this` (first operand) of the operator node, and
    that the `distinct` parameter is passed through unchanged.
Emits Gen/C07Facts.v.  Any other source shape raises Untranslatable (reported as a broken T1 tie).
"""
from __future__ import annotations

import ast
import os

from vlib import py2v
from vlib.py2v import Untranslatable, dotted
from translate import c01_facts

METHODS = {"MUnion": "union", "MUnionAll": "unionAll", "MUnionByName": "unionByName",
           "MIntersect": "intersect", "MIntersectAll": "intersectAll", "MExceptAll": "exceptAll"}
KLASS = {"exp.Union": "KUnion", "exp.Intersect": "KIntersect", "exp.Except": "KExcept"}


def _body(fn: ast.FunctionDef):
    return [s for s in fn.body if not (isinstance(s, ast.Expr) and isinstance(s.value, ast.Constant))]


def _params(fn: ast.FunctionDef):
    a = fn.args
    if a.vararg or a.kwarg or a.posonlyargs or a.kwonlyargs:
        raise Untranslatable(f"{fn.name}: unexpected parameter kinds")
    return [p.arg for p in a.args]


def _bind(call: ast.Call, params: list[str], who: str) -> dict:
    """bind the arguments of a call to `_set_operation` to its parameter names (without self)."""
    names = params[1:]
    if len(call.args) > len(names):
        raise Untranslatable(f"{who}: too many positional arguments to _set_operation")
    bound = {}
    for n, a in zip(names, call.args):
        if isinstance(a, ast.Starred):
            raise Untranslatable(f"{who}: starred argument")
        bound[n] = a
    for kw in call.keywords:
        if kw.arg is None or kw.arg not in names or kw.arg in bound:
            raise Untranslatable(f"{who}: keyword argument {kw.arg}")
        bound[kw.arg] = kw.value
    if sorted(bound) != sorted(names):
        raise Untranslatable(f"{who}: _set_operation called with {sorted(bound)}, expected {sorted(names)}")
    return bound


def _flags(bound: dict, who: str):
    k = dotted(bound["klass"])
    if k not in KLASS:
        raise Untranslatable(f"{who}: operator class {k!r} is not exp.Union/Intersect/Except")
    d = bound["distinct"]
    if not (isinstance(d, ast.Constant) and isinstance(d.value, bool)):
        raise Untranslatable(f"{who}: distinct flag is not a boolean literal")
    return KLASS[k], d.value


def set_operation_shape(cls: ast.ClassDef, src: str):
    fn = None
    for st in cls.body:
        if isinstance(st, ast.FunctionDef) and st.name == "_set_operation":
            fn = st
    if fn is None:
        raise Untranslatable("_set_operation not found")
    params = _params(fn)
    if params[0] != "self" or sorted(params[1:]) != ["distinct", "klass", "other"]:
        raise Untranslatable(f"_set_operation parameters changed: {params}")
    # which local is derived from self / from other
    origin = {}
    for st in ast.walk(fn):
        if isinstance(st, ast.Assign) and len(st.targets) == 1 and isinstance(st.targets[0], ast.Name):
            tgt = st.targets[0].id
            roots = {n.id for n in ast.walk(st.value) if isinstance(n, ast.Name)}
            roots = {origin.get(r, r) for r in roots}
            if "self" in roots and tgt not in origin:
                # `self._add_ctes_to_expression(base_expression, other_df...)` keeps base_expression's origin
                origin[tgt] = "self"
            elif "other" in roots and "self" not in roots and tgt not in origin:
                origin[tgt] = "other"
    calls = [n for n in ast.walk(fn) if isinstance(n, ast.Call) and isinstance(n.func, ast.Name) and n.func.id == "klass"]
    if len(calls) != 1:
        raise Untranslatable(f"_set_operation: expected one klass(...) call, found {len(calls)}")
    call = calls[0]
    if call.args:
        raise Untranslatable("_set_operation: klass(...) called with positional arguments")
    kw = {k.arg: k.value for k in call.keywords}
    if sorted(kw) != ["distinct", "expression", "this"]:
        raise Untranslatable(f"_set_operation: klass(...) keywords {sorted(kw)}")
    if not (isinstance(kw["distinct"], ast.Name) and kw["distinct"].id == "distinct"):
        raise Untranslatable("_set_operation: distinct= is not the `distinct` parameter passed through")

    def side(node):
        roots = {origin.get(n.id, n.id) for n in ast.walk(node) if isinstance(n, ast.Name)}
        if roots == {"self"}:
            return "self"
        if roots == {"other"}:
            return "other"
        raise Untranslatable(f"_set_operation: cannot tell which DataFrame {ast.unparse(node)} comes from")

    sides = (side(kw["this"]), side(kw["expression"]))
    if sides == ("self", "other"):
        swap = False
    elif sides == ("other", "self"):
        swap = True
    else:
        raise Untranslatable(f"_set_operation: operands of the operator node come from {sides}")
    return params, swap, py2v.src_hash(fn, src)


def method_flags(cls: ast.ClassDef, params: list[str], src: str):
    defs, aliases = {}, {}
    for st in cls.body:
        if isinstance(st, ast.FunctionDef) and st.name in METHODS.values():
            defs[st.name] = st
        elif isinstance(st, ast.Assign) and len(st.targets) == 1 and isinstance(st.targets[0], ast.Name) \
                and st.targets[0].id in METHODS.values():
            if not isinstance(st.value, ast.Name):
                raise Untranslatable(f"{st.targets[0].id} is assigned something that is not a method name")
            aliases[st.targets[0].id] = st.value.id
    out, hashes = {}, {}
    for m in METHODS.values():
        name = m
        hops = 0
        while name in aliases and name not in defs:
            name = aliases[name]
            hops += 1
            if hops > 3:
                raise Untranslatable(f"alias loop at {m}")
        if name not in defs:
            raise Untranslatable(f"method {m} not found")
        fn = defs[name]
        mp = _params(fn)
        body = _body(fn)
        calls = [n for n in ast.walk(fn) if isinstance(n, ast.Call) and isinstance(n.func, ast.Attribute)
                 and n.func.attr == "_set_operation"]
        if len(calls) != 1:
            raise Untranslatable(f"{m}: expected exactly one _set_operation call, found {len(calls)}")
        call = calls[0]
        bound = _bind(call, params, m)
        if name == "unionByName":
            # hand-modelled loop; the operands are the re-projected DataFrames l_df / r_df
            ret = body[-1]
            direct = isinstance(ret, ast.Return) and ret.value is call
            via_name = (isinstance(ret, ast.Return) and isinstance(ret.value, ast.Name) and any(
                isinstance(st, ast.Assign) and st.value is call and len(st.targets) == 1
                and isinstance(st.targets[0], ast.Name) and st.targets[0].id == ret.value.id for st in body))
            if not (direct or via_name):
                raise Untranslatable("unionByName: the _set_operation call is not the returned value")
            if dotted(call.func.value) != "l_df" or dotted(bound["other"]) != "r_df":
                raise Untranslatable("unionByName: operands of _set_operation are no longer l_df / r_df")
            if mp[:2] != ["self", "other"] or "allowMissingColumns" not in mp:
                raise Untranslatable(f"unionByName parameters changed: {mp}")
        else:
            if len(body) != 1 or not isinstance(body[0], ast.Return) or body[0].value is not call:
                raise Untranslatable(f"{m}: body is not a single `return self._set_operation(...)`")
            if len(mp) != 2 or mp[0] != "self":
                raise Untranslatable(f"{m}: parameters changed: {mp}")
            if dotted(call.func.value) != "self" or dotted(bound["other"]) != mp[1]:
                raise Untranslatable(f"{m}: _set_operation is not called as self._set_operation(.., {mp[1]}, ..)")
        out[m] = _flags(bound, m) + (name,)
        hashes[m] = py2v.src_hash(fn, src)
    return out, hashes


LOSSY_TEXT_METHODS = {"lower", "upper", "casefold", "swapcase", "capitalize", "title", "strip", "rstrip", "lstrip"}


def hash_facts(cls: ast.ClassDef, src: str):
    """`_create_hash_from_expression`: what text the CTE name is a crc32 of, and how many characters of it are kept.
    The model takes a name for the content it was hashed from ("same name => same content"); that needs the hashed
    text to be the SQL text itself (any str method that maps different texts to one -- lower(), strip() ... -- is
    translated as `hash_text_exact := false`; any other shape is refused)."""
    fn = None
    for st in cls.body:
        if isinstance(st, ast.FunctionDef) and st.name == "_create_hash_from_expression":
            fn = st
    if fn is None:
        raise Untranslatable("_create_hash_from_expression not found")
    params = _params(fn)
    if len(params) != 2:
        raise Untranslatable(f"_create_hash_from_expression parameters changed: {params}")
    assigns = {st.targets[0].id: st.value for st in ast.walk(fn)
               if isinstance(st, ast.Assign) and len(st.targets) == 1 and isinstance(st.targets[0], ast.Name)}
    crc = [n for n in ast.walk(fn) if isinstance(n, ast.Call) and dotted(n.func) in ("zlib.crc32", "crc32")]
    if len(crc) != 1 or len(crc[0].args) != 1 or crc[0].keywords:
        raise Untranslatable("_create_hash_from_expression: expected exactly one zlib.crc32(<text>) call")
    node = crc[0].args[0]
    seen = set()
    while isinstance(node, ast.Name) and node.id in assigns and node.id not in seen:
        seen.add(node.id)
        node = assigns[node.id]
    exact = True
    # <expression>.sql(...)[.method()]*.encode(...)
    while True:
        if not (isinstance(node, ast.Call) and isinstance(node.func, ast.Attribute)):
            raise Untranslatable("_create_hash_from_expression: hashed value is not a chain of method calls on expression.sql(..)")
        meth = node.func.attr
        if meth == "sql":
            if dotted(node.func.value) != params[1]:
                raise Untranslatable("_create_hash_from_expression: .sql() is not called on the expression parameter")
            break
        if meth == "encode":
            pass
        elif meth in LOSSY_TEXT_METHODS and not node.args and not node.keywords:
            exact = False
        else:
            raise Untranslatable(f"_create_hash_from_expression: unknown text transformation .{meth}()")
        node = node.func.value
    # f"t{crc}"[:N]
    chars = None
    for n in ast.walk(fn):
        if isinstance(n, ast.Subscript) and isinstance(n.value, ast.JoinedStr) and any(c is crc[0] for c in ast.walk(n.value)):
            sl = n.slice
            if not (isinstance(sl, ast.Slice) and sl.lower is None and sl.step is None
                    and isinstance(sl.upper, ast.Constant) and isinstance(sl.upper.value, int) and 0 < sl.upper.value < 64):
                raise Untranslatable("_create_hash_from_expression: the name is not a [:N] prefix")
            chars = sl.upper.value
    if chars is None:
        js = [n for n in ast.walk(fn) if isinstance(n, ast.JoinedStr) and any(c is crc[0] for c in ast.walk(n))]
        if len(js) != 1:
            raise Untranslatable("_create_hash_from_expression: the name is not an f-string of the crc32")
        chars = 11       # "t" + at most 10 decimal digits
    return exact, chars, py2v.src_hash(fn, src)


def dedup_filter_facts(cls: ast.ClassDef, src: str, repo: str):
    """`_add_ctes_to_expression`, collision branch: the duplicated CTE is told apart by a filter `<lit> = <lit>` that is
    (i) made of a FRESH string (uuid4 hex, or the session's counter name) and (ii) ADDED to the CTE's own WHERE
    (`.where(..)` without append=False).  The model's [add_uuid] keeps the block and tags it with a fresh token."""
    fn = None
    for st in cls.body:
        if isinstance(st, ast.FunctionDef) and st.name == "_add_ctes_to_expression":
            fn = st
    if fn is None:
        raise Untranslatable("_add_ctes_to_expression not found")
    assigns = {}
    for st in ast.walk(fn):
        if isinstance(st, ast.Assign) and len(st.targets) == 1 and isinstance(st.targets[0], ast.Name):
            assigns.setdefault(st.targets[0].id, []).append(st.value)

    def resolve(node):
        seen = set()
        while isinstance(node, ast.Name) and node.id in assigns and len(assigns[node.id]) == 1 and node.id not in seen:
            seen.add(node.id)
            node = assigns[node.id][0]
        return node

    eqs = [n for n in ast.walk(fn) if isinstance(n, ast.Call) and dotted(n.func) == "exp.EQ"]
    if len(eqs) != 1 or eqs[0].args or sorted(k.arg for k in eqs[0].keywords) != ["expression", "this"]:
        raise Untranslatable("_add_ctes_to_expression: expected one exp.EQ(this=.., expression=..)")
    a, b = (resolve(k.value) for k in eqs[0].keywords)
    if ast.dump(a) != ast.dump(b):
        raise Untranslatable("_add_ctes_to_expression: the two sides of the disambiguating filter differ")
    if not (isinstance(a, ast.Call) and dotted(a.func) == "exp.Literal.string" and len(a.args) == 1 and not a.keywords):
        raise Untranslatable("_add_ctes_to_expression: the disambiguating filter is not built from exp.Literal.string(..)")
    src_node = a.args[0]
    d = dotted(src_node)
    if d == "self.session._auto_incrementing_name":
        kind = "counter"
    elif isinstance(src_node, ast.Attribute) and src_node.attr == "hex" and isinstance(src_node.value, ast.Call) \
            and dotted(src_node.value.func) in ("uuid.uuid4", "uuid4") and not src_node.value.args:
        kind = "uuid"
    else:
        kind = None          # a constant / anything else: not known to be fresh
    # the .where(..) call that takes the filter
    wheres = [n for n in ast.walk(fn) if isinstance(n, ast.Call) and isinstance(n.func, ast.Attribute) and n.func.attr == "where"
              and n.args and resolve(n.args[0]) is eqs[0]]
    if len(wheres) != 1:
        raise Untranslatable("_add_ctes_to_expression: the filter is not handed to exactly one .where(..)")
    appended = True
    for kw in wheres[0].keywords:
        if kw.arg == "append":
            if not (isinstance(kw.value, ast.Constant) and isinstance(kw.value.value, bool)):
                raise Untranslatable("_add_ctes_to_expression: append= is not a literal")
            appended = kw.value.value
        elif kw.arg not in ("copy", "dialect"):
            raise Untranslatable(f"_add_ctes_to_expression: .where(.., {kw.arg}=)")
    # the session's counter names: f"<prefix>{self.incrementing_id}"
    prefix = None
    if kind == "counter":
        stree, _ = py2v.load(os.path.join(repo, "sqlframe/base/session.py"))
        g = py2v.find_func(stree, "_auto_incrementing_name")
        fs = [n for n in ast.walk(g) if isinstance(n, ast.JoinedStr)]
        if len(fs) != 1 or len(fs[0].values) != 2 or not isinstance(fs[0].values[0], ast.Constant) \
                or not isinstance(fs[0].values[1], ast.FormattedValue) or dotted(fs[0].values[1].value) != "self.incrementing_id":
            raise Untranslatable("_auto_incrementing_name is not f'<prefix>{self.incrementing_id}'")
        prefix = fs[0].values[0].value
        incs = [n for n in ast.walk(g) if isinstance(n, ast.AugAssign) and dotted(n.target) == "self.incrementing_id"
                and isinstance(n.op, ast.Add) and isinstance(n.value, ast.Constant) and n.value.value == 1]
        if len(incs) != 1 or not prefix.isalnum():
            raise Untranslatable("_auto_incrementing_name does not advance its counter by 1 / odd prefix")
    pattern = {"uuid": "^[0-9a-f]{32}$", "counter": "^" + (prefix or "") + "[0-9]+$", None: "^$"}[kind]
    return kind is not None, appended, pattern, py2v.src_hash(fn, src)


def generate(repo: str):
    tree, src = py2v.load(os.path.join(repo, "sqlframe/base/dataframe.py"))
    cls = py2v.find_class(tree, "BaseDataFrame")
    params, swap, so_hash = set_operation_shape(cls, src)
    flags, hashes = method_flags(cls, params, src)
    h_exact, h_chars, h_hash = hash_facts(cls, src)
    d_fresh, d_appended, d_pattern, d_hash = dedup_filter_facts(cls, src, repo)
    decos = c01_facts.method_decorators(tree, "BaseDataFrame", "operation")
    kinds = {}
    for m, (_, _, defname) in flags.items():
        k = decos.get(defname)
        if k is None:
            raise Untranslatable(f"method {defname} has no @operation decorator")
        kinds[m] = k
    L = ["(* GENERATED from /repo on every run by translate/c07_facts.py -- do not edit *)",
         "From SF Require Import C07.SetModel.",
         "Definition flags (m : meth) : sclass * bool := match m with " +
         " | ".join(f"{c} => ({flags[m][0]}, {'true' if flags[m][1] else 'false'})" for c, m in METHODS.items()) + " end.",
         "Definition kind (m : meth) : opk := match m with " +
         " | ".join(f"{c} => {kinds[m]}" for c, m in METHODS.items()) + " end.",
         f"Definition swap : bool := {'true' if swap else 'false'}.",
         "Definition gen_facts : facts := mkFacts flags kind swap.",
         f"Definition hash_text_exact : bool := {'true' if h_exact else 'false'}.",
         f"Definition hash_name_chars : nat := {h_chars}.",
         f"Definition dedup_filter_fresh : bool := {'true' if d_fresh else 'false'}.",
         f"Definition dedup_filter_appended : bool := {'true' if d_appended else 'false'}."]
    facts = [
        {"name": "flags", "from": "dataframe.py: arguments of _set_operation in each method",
         "value": {m: [flags[m][0], flags[m][1]] for m in flags}, "hash": hashes},
        {"name": "kind", "from": "dataframe.py: @operation decorator of each set-operation method", "value": kinds},
        {"name": "swap", "from": "dataframe.py: _set_operation klass(this=.., expression=..)", "value": swap, "hash": so_hash},
        {"name": "hash_text_exact / hash_name_chars", "from": "dataframe.py: _create_hash_from_expression",
         "value": [h_exact, h_chars], "hash": h_hash},
        {"name": "dedup_filter_fresh / dedup_filter_appended", "from": "dataframe.py: _add_ctes_to_expression (collision branch), session.py: _auto_incrementing_name",
         "value": [d_fresh, d_appended], "literal_pattern": d_pattern, "hash": d_hash},
    ]
    return "\n".join(L) + "\n", facts


if __name__ == "__main__":
    import sys
    print(generate(sys.argv[1] if len(sys.argv) > 1 else "/repo")[0])
