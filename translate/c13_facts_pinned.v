(* PINNED copy of Gen/C13Facts.v (the facts of the source when the check was last brought in line); used only when T1 fails, so that the case files still compile *)
From SF Require Import C13.Session.
Definition gen_cfg : cfg := mkCfg false true true true NLower NLower true true true true.
(* session.sql: lookup key <table>.name; target = last CTE of the view's chain; CTE names already present are
   skipped; added CTEs follow the query's own; qualify (default True) runs first on the catalog's schema cache *)
Definition splice_shape_recognised : bool := true.
(* transforms.replace_id_value renames only identifiers that name a table (not part of the Coq model: CTE hash names) *)
Definition cte_rename_tables_only : bool := true.
(* dataframe._replace_cte_names_with_hashes keeps one of several CTEs with the same hash name and body *)
Definition cte_hash_dedupe : bool := true.
