"""T1 for C04: receiver-write summary + `executes` of every public DataFrame method, regenerated from source.

A small, FAIL-CLOSED abstract interpreter over the Python `ast` of
  sqlframe/base/dataframe.py, base/mixins/dataframe_mixins.py, duckdb/dataframe.py, base/group.py,
  duckdb/group.py, base/operations.py and the sqlframe module-level helpers they call (inlined).

Abstract values are sets of *tags* that say how a Python value is related to an EXISTING DataFrame
(`root` = 'self' for the receiver of the public call, 'p:<name>' for a DataFrame-typed parameter):

  ('df',  root)        the DataFrame object itself
  ('shr', root)        a FRESH DataFrame (result of .copy() / of any DataFrame-returning method) -- all its
                       attributes are fresh copies EXCEPT that the elements of .pending_hints are the very
                       hint objects of `root` (object_to_dict copies the list shallowly)
  ('attr', root, a)    the object stored in attribute `a` of root (a dict / list / set / sqlglot tree)
  ('in',  root, a)     an object inside that object (list element, sub-expression)
  ('box', root, a)     a fresh container whose elements are ('in', root, a)
  ('gd', k, root)      a GroupedData whose ._df is ('shr',root) (k='shr') or root itself (k='df')
  ('na', k, root)      a NaFunctions/StatFunctions helper whose .df is root itself (k='df') or a copy
  ('session',)         the session or anything reachable from it (writes there are allowed by the property)
  ('bound', recv, m) / ('raw', m) / ('cls', n)     bound method / im_func via __wrapped__ / class attribute

A *write* is recorded when a mutator method, an attribute assignment or an item assignment is applied to a
value tagged df/attr/in.  Writes carry the *guard chain*: the list of @operation kinds of the wrappers the
call went through on that root -- the write reaches the receiver only if none of them wrapped (a wrap hands
the body a copy).  Writes into hint objects ('in', root, 'pending_hints') hit the root whether or not a copy
was made, because copies share those objects.

Anything the interpreter does not recognise on a tagged value raises Untranslatable.
"""
from __future__ import annotations

import ast
import hashlib
import os

from vlib.py2v import Untranslatable, dotted
from vlib import py2v

OPK = ["INIT", "NO_OP", "FROM", "WHERE", "GROUP_BY", "HAVING", "SELECT", "ORDER_BY", "LIMIT"]

# ---- environment (sqlglot / builtins) behaviour the summary relies on; listed in the evidence as assumptions ----
MUTATORS = {"append", "extend", "remove", "update", "add", "set", "pop", "insert", "clear", "discard",
            "setdefault", "sort", "reverse", "popitem", "replace", "add_comments", "update_positions",
            "_set_parent", "__setitem__", "__delitem__", "__setattr__", "unnest_operands"}
# sqlglot builder methods: return a modified COPY unless copy=False is passed
BUILDERS = {"select", "where", "order_by", "limit", "distinct", "group_by", "join", "from_", "with_", "union",
            "intersect", "except_", "having", "lateral", "window", "qualify", "offset", "sort_by", "cluster_by",
            "hint", "lock", "ctas", "as_", "transform", "returning", "using", "on", "subquery", "not_", "and_", "or_"}
RET_INNER = {"find", "find_all", "find_ancestor", "get", "items", "values", "keys", "unalias", "walk",
             "iter_expressions", "flatten", "unnest", "bfs", "dfs", "__getitem__"}
RET_SCALAR = {"sql", "index", "count", "is_type", "startswith", "endswith", "lower", "upper", "strip", "split",
              "join_", "text", "to_py", "is_string", "__len__", "__contains__", "__eq__", "isdisjoint", "issubset",
              "difference", "intersection", "union_", "__sub__"}
RET_SAME = {"assert_is"}
# sqlglot properties that return str / bool / int
SCALAR_ATTRS = {"alias_or_name", "alias", "name", "output_name", "key", "is_string", "is_number", "is_int", "is_star",
                "alias_column_names", "named_selects", "column_alias_or_name", "table_name", "db", "catalog"}
# external functions that mutate their first argument in place
EXTERNAL_INPLACE = {"qualify", "pushdown_projections", "normalize_identifiers", "quote_identifiers",
                    "quote_identifiers_func", "annotate_types", "qualify_columns", "qualify_tables"}
# builtins / helpers that only read; value = how the result relates to the arguments
PURE_CALLS = {
    "len": "none", "isinstance": "none", "bool": "none", "str": "none", "int": "none", "float": "none",
    "print": "none", "range": "none", "hasattr": "none", "type": "none", "id": "none", "repr": "none",
    "min": "elem", "max": "elem", "next": "elem", "seq_get": "elem", "any": "none", "all": "none", "sum": "none",
    "list": "box", "tuple": "box", "set": "box", "sorted": "box", "reversed": "box", "enumerate": "box",
    "zip": "box", "dict": "box", "iter": "box", "flatten": "box", "ensure_list": "box", "copy": "box",
    "filter": "box", "map": "box", "frozenset": "box",
}
EXEC_NAMES = {"_collect", "_execute", "_fetchdf", "_fetch_rows", "execute", "executemany", "fetchall", "fetchone",
              "fetchdf", "listColumns", "listTables", "listDatabases", "listCatalogs", "listFunctions",
              "getTable", "getDatabase", "tableExists", "databaseExists", "functionExists", "currentDatabase",
              "currentCatalog", "read_sql_query"}
IMMUTABLE_ANN = ("str", "Operation", "int", "bool")

SRC = {
    "df": "sqlframe/base/dataframe.py",
    "mix": "sqlframe/base/mixins/dataframe_mixins.py",
    "ddf": "sqlframe/duckdb/dataframe.py",
    "gr": "sqlframe/base/group.py",
    "dgr": "sqlframe/duckdb/group.py",
    "ops": "sqlframe/base/operations.py",
    "norm": "sqlframe/base/normalize.py",
    "util": "sqlframe/base/util.py",
}
MODULE_OF = {"sqlframe.base.dataframe": "df", "sqlframe.base.mixins.dataframe_mixins": "mix",
             "sqlframe.duckdb.dataframe": "ddf", "sqlframe.base.group": "gr", "sqlframe.duckdb.group": "dgr",
             "sqlframe.base.operations": "ops", "sqlframe.base.normalize": "norm", "sqlframe.base.util": "util"}

# methods of the public API that hand the DataFrame to user code or to another subsystem (not analysed here)
SKIP_PUBLIC = {"transform": "calls a user-supplied function on the DataFrame",
               "write": "DataFrameWriter is the subject of C14",
               "createGlobalTempView": "raises NotImplementedError"}

E = frozenset()


def fs(*tags):
    return frozenset(tags)


class Eff:
    __slots__ = ("writes", "execs", "sess", "wops")

    def __init__(self):
        self.writes = set()   # (chain tuple, root, kind, where)
        self.execs = False
        self.sess = 0
        self.wops = set()     # kinds of the wrappers applied to the receiver itself (or to GroupedData's private copy)

    def merge(self, o: "Eff"):
        self.writes |= o.writes
        self.execs = self.execs or o.execs
        self.sess += o.sess
        self.wops |= o.wops


class Fn:
    def __init__(self, node, mod, cls, src):
        self.node, self.mod, self.cls, self.src = node, mod, cls, src
        self.name = node.name

    @property
    def where(self):
        return f"{SRC[self.mod]}:{self.node.lineno}:{(self.cls + '.') if self.cls else ''}{self.name}"


def _decos(node):
    out = []
    for d in node.decorator_list:
        if isinstance(d, ast.Call):
            out.append((dotted(d.func), [dotted(a) for a in d.args]))
        else:
            out.append((dotted(d), None))
    return out


class Universe:
    def __init__(self, repo):
        self.repo = repo
        self.trees, self.srcs = {}, {}
        for k, rel in SRC.items():
            self.trees[k], self.srcs[k] = py2v.load(os.path.join(repo, rel))
        self.classes = {}     # (mod, clsname) -> ClassDef
        self.modfuncs = {}    # mod -> name -> Fn
        self.imports = {}     # mod -> local name -> (module dotted, original name)
        for mod, tree in self.trees.items():
            self.modfuncs[mod] = {}
            self.imports[mod] = {}
            for st in tree.body:
                if isinstance(st, ast.ClassDef):
                    self.classes[(mod, st.name)] = st
                elif isinstance(st, ast.FunctionDef):
                    self.modfuncs[mod][st.name] = Fn(st, mod, None, self.srcs[mod])
                elif isinstance(st, ast.ImportFrom) and st.module:
                    for a in st.names:
                        self.imports[mod][a.asname or a.name] = (st.module, a.name)
        # class families (method resolution order as the DuckDB engine sees it)
        self.check_bases()
        self.fam = {
            "DF": [("ddf", "DuckDBDataFrame"), ("mix", "NoCachePersistSupportMixin"),
                   ("mix", "TypedColumnsFromTempViewMixin"), ("df", "BaseDataFrame")],
            "DFBASE": [("df", "BaseDataFrame")],
            "GD": [("dgr", "DuckDBGroupedData"), ("gr", "_BaseGroupedData")],
            "NA": [("ddf", "DuckDBDataFrameNaFunctions"), ("df", "_BaseDataFrameNaFunctions")],
            "STAT": [("ddf", "DuckDBDataFrameStatFunctions"), ("df", "_BaseDataFrameStatFunctions")],
        }
        self.data_attrs, self.immutable_attrs = self.init_facts()
        self.copy_hash = self.check_copy()

    # -- shape checks the tag semantics rely on (fail closed) ------------------------------------------------
    def check_bases(self):
        def bases(mod, name):
            c = self.classes.get((mod, name))
            if c is None:
                raise Untranslatable(f"class {name} not found in {SRC[mod]}")
            out = []
            for b in c.bases:
                out.append(dotted(b.value) if isinstance(b, ast.Subscript) else dotted(b))
            return out
        if bases("ddf", "DuckDBDataFrame") != ["NoCachePersistSupportMixin", "TypedColumnsFromTempViewMixin", "BaseDataFrame"]:
            raise Untranslatable("DuckDBDataFrame bases changed: " + str(bases("ddf", "DuckDBDataFrame")))
        for m in ("NoCachePersistSupportMixin", "TypedColumnsFromTempViewMixin"):
            if bases("mix", m)[0] != "BaseDataFrame":
                raise Untranslatable(f"{m} bases changed")
        if bases("dgr", "DuckDBGroupedData") != ["_BaseGroupedData"]:
            raise Untranslatable("DuckDBGroupedData bases changed")
        if bases("ddf", "DuckDBDataFrameNaFunctions") != ["_BaseDataFrameNaFunctions"] or \
                bases("ddf", "DuckDBDataFrameStatFunctions") != ["_BaseDataFrameStatFunctions"]:
            raise Untranslatable("DuckDB Na/Stat helper bases changed")
        if [b for b in bases("df", "BaseDataFrame") if b not in ("t.Generic",)]:
            raise Untranslatable("BaseDataFrame has new base classes")

    def init_facts(self):
        """attributes stored by BaseDataFrame.__init__: each must be `self.a = a [or default]` (the object passed
        in is stored as is); returns (all data attrs, attrs whose annotation is an immutable scalar)."""
        init = self.find_in_class("df", "BaseDataFrame", "__init__")
        for mod, cn in [("ddf", "DuckDBDataFrame"), ("mix", "NoCachePersistSupportMixin"),
                        ("mix", "TypedColumnsFromTempViewMixin")]:
            for st in self.classes[(mod, cn)].body:
                if isinstance(st, ast.FunctionDef) and st.name in ("__init__", "copy", "__copy__", "__setattr__",
                                                                     "__getattribute__", "__deepcopy__", "__new__"):
                    raise Untranslatable(f"{cn} overrides {st.name}")
        ann = {a.arg: ast.unparse(a.annotation) if a.annotation else "" for a in init.node.args.args}
        attrs, immut = [], set()
        for st in init.node.body:
            if isinstance(st, ast.Expr) and isinstance(st.value, ast.Constant):
                continue
            tgt = val = None
            if isinstance(st, ast.Assign) and len(st.targets) == 1:
                tgt, val = st.targets[0], st.value
            elif isinstance(st, ast.AnnAssign):
                tgt, val = st.target, st.value
            if tgt is not None and dotted(tgt) and dotted(tgt).startswith("self.") and dotted(tgt).count(".") == 1:
                a = dotted(tgt).split(".")[1]
                attrs.append(a)
                # value: the parameter itself, or `param or <fresh default>`
                src = val.values[0] if isinstance(val, ast.BoolOp) and isinstance(val.op, ast.Or) else val
                pname = dotted(src)
                if pname == a and a in ann:
                    if any(ann[a].replace("t.Optional[", "").rstrip("]") == x or ann[a] == x for x in IMMUTABLE_ANN):
                        immut.add(a)
                    continue
                if a == "temp_views" and isinstance(val, ast.List) and not val.elts:
                    continue
                raise Untranslatable(f"BaseDataFrame.__init__: `self.{a} = {ast.unparse(val)}` is not the stored parameter")
            if isinstance(st, ast.Expr) and ast.unparse(st.value) == "self.known_uuids.add(self.join_on_uuid)":
                continue
            raise Untranslatable("BaseDataFrame.__init__: unexpected statement " + ast.unparse(st)[:80])
        need = {"session", "expression", "pending_hints", "display_name_mapping", "known_uuids", "last_op"}
        if not need <= set(attrs):
            raise Untranslatable("BaseDataFrame.__init__: attributes missing: " + str(need - set(attrs)))
        # element types: the shallow container copies are deep enough iff the elements are immutable
        if "Dict[str, str]" not in ann.get("display_name_mapping", "") or "Set[str]" not in ann.get("known_uuids", ""):
            raise Untranslatable("display_name_mapping / known_uuids are no longer containers of str")
        return attrs, immut

    def check_copy(self):
        """copy() must be `kwargs['join_on_uuid'] = str(uuid4()); return self.__class__(**object_to_dict(self, **kwargs))`
        and sqlglot.helper.object_to_dict must copy every attribute with v.copy() / copy(v)."""
        cp = self.find_in_class("df", "BaseDataFrame", "copy")
        body = [s for s in cp.node.body if not (isinstance(s, ast.Expr) and isinstance(s.value, ast.Constant))]
        txt = [ast.unparse(s) for s in body]
        first, last = "kwargs['join_on_uuid'] = str(uuid4())", "return self.__class__(**object_to_dict(self, **kwargs))"
        deep = "kwargs.setdefault('pending_hints', [hint.copy() for hint in self.pending_hints])"
        if txt == [first, last]:
            self.shares_hints = True      # object_to_dict copies the hint LIST shallowly: hint objects are shared
        elif txt == [first, deep, last]:
            self.shares_hints = False     # every hint object is copied (sqlglot Expression.copy() is deep)
        else:
            raise Untranslatable("BaseDataFrame.copy changed: " + " ; ".join(txt))
        if self.imports["df"].get("object_to_dict") != ("sqlglot.helper", "object_to_dict"):
            raise Untranslatable("object_to_dict is no longer sqlglot.helper.object_to_dict")
        import inspect
        import sqlglot.helper as H
        o2d = ast.parse(inspect.getsource(H.object_to_dict)).body[0]
        ret = [s for s in o2d.body if isinstance(s, ast.Return)]
        want = "{**{k: v.copy() if hasattr(v, 'copy') else copy(v) for k, v in vars(obj).items()}, **kwargs}"
        if len(ret) != 1 or ast.unparse(ret[0].value) != want:
            raise Untranslatable("sqlglot.helper.object_to_dict changed: " + ast.unparse(o2d)[:200])
        return py2v.src_hash(cp.node, self.srcs["df"])

    # -- lookup ------------------------------------------------------------------------------------------------
    def find_in_class(self, mod, cname, name):
        c = self.classes[(mod, cname)]
        found = None
        for st in c.body:
            if isinstance(st, ast.FunctionDef) and st.name == name:
                if any(d[0] in ("t.overload", "overload") for d in _decos(st)):
                    continue
                found = st
        if found is None:
            # class-level alias  `filter = where`
            for st in c.body:
                if isinstance(st, ast.Assign) and len(st.targets) == 1 and dotted(st.targets[0]) == name \
                        and isinstance(st.value, ast.Name):
                    return self.find_in_class(mod, cname, st.value.id)
            return None
        return Fn(found, mod, cname, self.srcs[mod])

    def resolve(self, fam, name):
        for mod, cname in self.fam[fam]:
            f = self.find_in_class(mod, cname, name)
            if f is not None:
                return f
        return None

    def class_attr(self, fam, name):
        for mod, cname in self.fam[fam]:
            for st in self.classes[(mod, cname)].body:
                if isinstance(st, ast.Assign) and len(st.targets) == 1 and dotted(st.targets[0]) == name \
                        and not isinstance(st.value, ast.Name):
                    return True
                if isinstance(st, ast.Assign) and len(st.targets) == 1 and dotted(st.targets[0]) == name \
                        and isinstance(st.value, ast.Name) and st.value.id[:1].isupper():
                    return True
                if isinstance(st, ast.AnnAssign) and dotted(st.target) == name:
                    return True
        return False

    def public_names(self, fam):
        names = []
        for mod, cname in reversed(self.fam[fam]):
            for st in self.classes[(mod, cname)].body:
                n = None
                if isinstance(st, ast.FunctionDef):
                    n = st.name
                elif isinstance(st, ast.Assign) and len(st.targets) == 1 and isinstance(st.targets[0], ast.Name) \
                        and isinstance(st.value, ast.Name) and not st.value.id[:1].isupper():
                    n = st.targets[0].id
                if n and n not in names and (not n.startswith("_") or n in ("__getitem__", "__getattr__", "__copy__")):
                    names.append(n)
        return names


def op_of(fn: Fn, deco_name):
    for d, args in _decos(fn.node):
        if d == deco_name:
            if not args or len(args) != 1 or not args[0] or not args[0].startswith("Operation.") \
                    or args[0].split(".")[1] not in OPK:
                raise Untranslatable(f"{fn.where}: decorator argument {args}")
            return args[0].split(".")[1]
    return None


def check_decorators(fn: Fn):
    for d, _ in _decos(fn.node):
        if d not in ("operation", "group_operation", "property", "classmethod", "staticmethod", "t.overload",
                     "functools.wraps", "cached_property"):
            raise Untranslatable(f"{fn.where}: unknown decorator {d}")


class Analyzer:
    def __init__(self, U: Universe):
        self.U = U
        self.memo = {}
        self.stack = []
        self.notes = []

    # ---- helpers on tags ---------------------------------------------------------------------------------
    @staticmethod
    def elems(tags):
        out = set()
        for t in tags:
            if t[0] in ("attr", "in", "box"):
                out.add(("in", t[1], t[2]))
            elif t[0] in ("session", "df", "shr", "gd", "na"):
                out.add(t)
        return frozenset(out)

    @staticmethod
    def boxify(tags):
        out = set()
        for t in tags:
            if t[0] in ("attr", "in", "box"):
                out.add(("box", t[1], t[2]))
            elif t[0] in ("session", "df", "shr", "gd", "na"):
                out.add(t)
        return frozenset(out)

    @staticmethod
    def innerify(tags):
        out = set()
        for t in tags:
            if t[0] in ("attr", "in"):
                out.add(("in", t[1], t[2]))
            elif t[0] in ("box", "session"):
                out.add(t)
            elif t[0] in ("df", "shr", "gd", "na"):
                out.add(t)
        return frozenset(out)

    def write(self, st, root, kind, where):
        groot, chain = st["g"]
        ch = chain if root == groot else ()
        st["eff"].writes.add((tuple(sorted(set(ch), key=OPK.index)), root, kind, where))

    def write_on(self, st, tags, where, container_level):
        """a mutation applied to a value with these tags"""
        for t in tags:
            if t[0] == "df":
                self.write(st, t[1], "WAttr", where)
            elif t[0] == "attr":
                if t[2] in self.U.immutable_attrs:
                    continue
                kind = {"display_name_mapping": "WDisplay", "pending_hints": "WHintList", "known_uuids": "WUuids",
                        "expression": "WExpr"}.get(t[2], "WOther")
                if not container_level and t[2] == "pending_hints":
                    kind = "WHintObj"
                self.write(st, t[1], kind, where)
            elif t[0] == "in":
                kind = {"display_name_mapping": "WDisplay", "pending_hints": "WHintObj", "known_uuids": "WUuids",
                        "expression": "WExpr"}.get(t[2], "WOther")
                self.write(st, t[1], kind, where)
            elif t[0] == "session":
                st["eff"].sess += 1

    # ---- function analysis ---------------------------------------------------------------------------------
    def analyse(self, fn: Fn, env0: dict, g):
        key = (fn.mod, fn.cls, fn.name, fn.node.lineno, tuple(sorted((k, tuple(sorted(v))) for k, v in env0.items() if v)), g)
        if key in self.memo:
            return self.memo[key]
        if key in self.stack:
            if any(v for v in env0.values()):
                raise Untranslatable(f"recursion through {fn.where} with DataFrame-related arguments")
            return (E, Eff())   # least fixpoint: the recursive call adds no effect beyond the direct ones
        if len(self.stack) > 40:
            raise Untranslatable("call depth > 40 at " + fn.where)
        check_decorators(fn)
        self.stack.append(key)
        st = {"fn": fn, "env": dict(env0), "g": g, "eff": Eff(), "ret": set(), "imports": {}}
        self.block(st, fn.node.body)
        self.stack.pop()
        res = (frozenset(st["ret"]), st["eff"])
        self.memo[key] = res
        return res

    def bind(self, fn: Fn, recv, args, kws, star_extra):
        """map actual tags to parameter names (over-approximating on * and **)"""
        a = fn.node.args
        params = [x.arg for x in a.posonlyargs + a.args]
        env = {}
        is_static = any(d[0] == "staticmethod" for d in _decos(fn.node))
        is_cls = any(d[0] == "classmethod" for d in _decos(fn.node))
        if fn.cls and not is_static:
            if params:
                env[params[0]] = E if is_cls else recv
                params = params[1:]
        rest = E
        for i, tg in enumerate(args):
            if i < len(params):
                env[params[i]] = env.get(params[i], E) | tg
            else:
                rest |= tg
        for k, tg in kws.items():
            if k in params or k in [x.arg for x in a.kwonlyargs]:
                env[k] = env.get(k, E) | tg
            else:
                rest |= tg
        if star_extra:
            for p in params + [x.arg for x in a.kwonlyargs]:
                env[p] = env.get(p, E) | star_extra
            rest |= star_extra
        if a.vararg:
            env[a.vararg.arg] = self.boxify(rest)
        if a.kwarg:
            env[a.kwarg.arg] = env.get(a.kwarg.arg, E) | self.boxify(rest)
        if rest and not a.vararg and not a.kwarg:
            raise Untranslatable(f"{fn.where}: tagged argument does not fit the signature")
        return env

    # ---- statements ----------------------------------------------------------------------------------------
    def block(self, st, stmts):
        for s in stmts:
            self.stmt(st, s)

    @staticmethod
    def join_env(a, b):
        out = dict(a)
        for k, v in b.items():
            out[k] = out.get(k, E) | v
        return out

    def loop(self, st, body_fn):
        """run a loop body to a fixpoint of the environment (flow-sensitive inside the body)"""
        for _ in range(12):
            before = dict(st["env"])
            body_fn()
            st["env"] = self.join_env(before, st["env"])
            if st["env"] == before:
                return
        raise Untranslatable("no fixpoint in a loop of " + st["fn"].where)

    def assign_to(self, st, tgt, v, where, weak=False):
        if isinstance(tgt, ast.Name):
            st["env"][tgt.id] = (st["env"].get(tgt.id, E) | v) if weak else v
        elif isinstance(tgt, (ast.Tuple, ast.List)):
            for e in tgt.elts:
                self.assign_to(st, e, v | self.elems(v), where, weak)
        elif isinstance(tgt, ast.Starred):
            self.assign_to(st, tgt.value, v, where, weak)
        elif isinstance(tgt, ast.Attribute):
            xt = self.ev(st, tgt.value)
            for t in xt:
                if t[0] == "df":
                    kind = "WLast" if tgt.attr == "last_op" else "WAttr"
                    self.write(st, t[1], kind, where)
                elif t[0] in ("attr", "in"):
                    self.write_on(st, [t], where, False)
                elif t[0] == "session":
                    st["eff"].sess += 1
            # the stored value becomes reachable from the (fresh) holder
            if isinstance(tgt.value, ast.Name) and not any(t[0] in ("df", "shr", "gd", "na", "session") for t in xt):
                keep = frozenset(t for t in self.boxify(v) if t[0] == "box")
                if keep:
                    st["env"][tgt.value.id] = st["env"].get(tgt.value.id, E) | keep
        elif isinstance(tgt, ast.Subscript):
            xt = self.ev(st, tgt.value)
            self.ev(st, tgt.slice)
            self.write_on(st, [t for t in xt if t[0] in ("attr", "in", "session")], where, True)
            if any(t[0] == "df" for t in xt):
                raise Untranslatable(f"{where}: item assignment on a DataFrame")
            if isinstance(tgt.value, ast.Name):
                keep = frozenset(t for t in self.boxify(v) if t[0] == "box")
                if keep:
                    st["env"][tgt.value.id] = st["env"].get(tgt.value.id, E) | keep
        else:
            raise Untranslatable(f"{where}: assignment target {type(tgt).__name__}")

    def stmt(self, st, s):
        where = f"{SRC[st['fn'].mod]}:{getattr(s, 'lineno', 0)}"
        if isinstance(s, ast.Expr):
            self.ev(st, s.value)
        elif isinstance(s, ast.Assign):
            v = self.ev(st, s.value)
            for t in s.targets:
                self.assign_to(st, t, v, where)
        elif isinstance(s, ast.AnnAssign):
            if s.value is not None:
                self.assign_to(st, s.target, self.ev(st, s.value), where)
        elif isinstance(s, ast.AugAssign):
            v = self.ev(st, s.value) | self.ev(st, s.target)
            self.assign_to(st, s.target, v, where, weak=True)
        elif isinstance(s, ast.Return):
            if s.value is not None:
                st["ret"] |= self.ev(st, s.value)
        elif isinstance(s, ast.If):
            self.ev(st, s.test)
            env0 = dict(st["env"])
            self.block(st, s.body)
            env1 = st["env"]
            st["env"] = dict(env0)
            self.block(st, s.orelse)
            st["env"] = self.join_env(env1, st["env"])
        elif isinstance(s, ast.While):
            def body():
                self.ev(st, s.test)
                self.block(st, s.body)
            self.loop(st, body)
            self.block(st, s.orelse)
        elif isinstance(s, ast.For):
            def body():
                it = self.ev(st, s.iter)
                self.assign_to(st, s.target, self.elems(it), where)
                self.block(st, s.body)
            self.ev(st, s.iter)
            self.loop(st, body)
            self.block(st, s.orelse)
        elif isinstance(s, ast.With):
            for it in s.items:
                v = self.ev(st, it.context_expr)
                if it.optional_vars is not None:
                    self.assign_to(st, it.optional_vars, v, where)
            self.block(st, s.body)
        elif isinstance(s, ast.Try):
            env0 = dict(st["env"])
            self.block(st, s.body)
            acc = self.join_env(env0, st["env"])
            for h in s.handlers:
                st["env"] = dict(acc)
                if h.name:
                    st["env"][h.name] = E
                self.block(st, h.body)
                acc = self.join_env(acc, st["env"])
            st["env"] = acc
            self.block(st, s.orelse)
            self.block(st, s.finalbody)
        elif isinstance(s, ast.Raise):
            if s.exc is not None:
                self.ev(st, s.exc)
        elif isinstance(s, ast.Assert):
            self.ev(st, s.test)
        elif isinstance(s, ast.Delete):
            for t in s.targets:
                if isinstance(t, (ast.Attribute, ast.Subscript)):
                    xt = self.ev(st, t.value)
                    self.write_on(st, xt, where, True)
        elif isinstance(s, ast.ImportFrom):
            for a in s.names:
                st["imports"][a.asname or a.name] = (s.module, a.name)
        elif isinstance(s, (ast.Import, ast.Pass, ast.Break, ast.Continue)):
            pass
        elif isinstance(s, ast.FunctionDef):
            # nested helper: its body is analysed in place (parameters carry no tags)
            for a in s.args.args:
                st["env"].setdefault(a.arg, E)
            self.block(st, s.body)
        else:
            raise Untranslatable(f"{where}: statement {type(s).__name__}")

    # ---- expressions ---------------------------------------------------------------------------------------
    def ev(self, st, n) -> frozenset:
        where = f"{SRC[st['fn'].mod]}:{getattr(n, 'lineno', 0)}"
        if n is None or isinstance(n, (ast.Constant, ast.JoinedStr)):
            if isinstance(n, ast.JoinedStr):
                for v in n.values:
                    if isinstance(v, ast.FormattedValue):
                        self.ev(st, v.value)
            return E
        if isinstance(n, ast.Name):
            return st["env"].get(n.id, E)
        if isinstance(n, ast.Attribute):
            xt = self.ev(st, n.value)
            out = set()
            for t in xt:
                out |= self.attr_of(st, t, n.attr, where)
            return frozenset(out)
        if isinstance(n, ast.Subscript):
            xt = self.ev(st, n.value)
            sl = self.ev(st, n.slice)
            out = set()
            for t in xt:
                if t[0] in ("df", "shr"):
                    out |= self.call_method(st, t, "__getitem__", [sl], {}, E, where)
                elif t[0] in ("gd", "na"):
                    raise Untranslatable(f"{where}: subscript on a helper object")
                else:
                    out |= self.elems(fs(t))
            return frozenset(out)
        if isinstance(n, ast.Slice):
            for x in (n.lower, n.upper, n.step):
                if x is not None:
                    self.ev(st, x)
            return E
        if isinstance(n, ast.Call):
            return self.call(st, n, where)
        if isinstance(n, ast.BoolOp):
            out = E
            for v in n.values:
                out |= self.ev(st, v)
            return out
        if isinstance(n, ast.IfExp):
            self.ev(st, n.test)
            return self.ev(st, n.body) | self.ev(st, n.orelse)
        if isinstance(n, ast.BinOp):
            a, b = self.ev(st, n.left), self.ev(st, n.right)
            return self.boxify(frozenset(t for t in a | b if t[0] in ("attr", "in", "box")))
        if isinstance(n, ast.UnaryOp):
            self.ev(st, n.operand)
            return E
        if isinstance(n, ast.Compare):
            self.ev(st, n.left)
            for c in n.comparators:
                self.ev(st, c)
            return E
        if isinstance(n, (ast.List, ast.Tuple, ast.Set)):
            out = E
            for e in n.elts:
                out |= self.ev(st, e)
            return self.boxify(out)
        if isinstance(n, ast.Dict):
            out = E
            for k, v in zip(n.keys, n.values):
                if k is not None:
                    self.ev(st, k)
                out |= self.ev(st, v)
            return self.boxify(out)
        if isinstance(n, ast.Starred):
            return self.ev(st, n.value)
        if isinstance(n, ast.NamedExpr):
            v = self.ev(st, n.value)
            self.assign_to(st, n.target, v, where)
            return v
        if isinstance(n, (ast.ListComp, ast.SetComp, ast.GeneratorExp, ast.DictComp)):
            for gen in n.generators:
                it = self.ev(st, gen.iter)
                self.assign_to(st, gen.target, self.elems(it), where)
                for c in gen.ifs:
                    self.ev(st, c)
            if isinstance(n, ast.DictComp):
                self.ev(st, n.key)
                return self.boxify(self.ev(st, n.value))
            return self.boxify(self.ev(st, n.elt))
        if isinstance(n, ast.Lambda):
            for a in n.args.args:
                st["env"].setdefault(a.arg, E)
            self.ev(st, n.body)
            return E
        raise Untranslatable(f"{where}: expression {type(n).__name__}")

    def fam_of(self, t):
        return {"df": "DF", "shr": "DF", "gd": "GD", "na": "NA"}[t[0]] if t[0] != "na" else t[3]

    def attr_of(self, st, t, a, where):
        U = self.U
        k = t[0]
        if k == "session":
            return {t}
        if k in ("attr", "in"):
            if k == "attr" and t[2] in U.immutable_attrs:
                return set()
            if a in SCALAR_ATTRS:
                return set()
            return {("in", t[1], t[2])}
        if k == "box":
            return set()
        if k in ("bound",):
            if a == "__wrapped__":
                return {("raw", t[2])}
            return set()
        if k in ("raw", "cls"):
            return set()
        if k in ("df", "shr"):
            root = t[1]
            if a == "__class__":
                return {("cls", "__class__")}
            if a in U.data_attrs:
                if a == "session":
                    return {("session",)}
                if a in U.immutable_attrs:
                    return set()
                if k == "df":
                    return {("attr", root, a)}
                return {("box", root, a)} if (a == "pending_hints" and U.shares_hints) else set()
            f = U.resolve("DF", a)
            if f is not None:
                ds = [d[0] for d in _decos(f.node)]
                if "property" in ds or "cached_property" in ds:
                    ret, eff = self.analyse(f, self.bind(f, fs(t), [], {}, E), st["g"])
                    st["eff"].merge(eff)
                    return set(ret)
                return {("bound", t, a)}
            if U.class_attr("DF", a):
                return {("cls", a)}
            raise Untranslatable(f"{where}: unknown attribute .{a} on a DataFrame")
        if k == "gd":
            inner = (t[1], t[2])
            if a == "_df":
                return {inner}
            if a == "session":
                return {("session",)}
            if a in ("last_op", "group_by_cols"):
                return set()
            f = U.resolve("GD", a)
            if f is not None:
                return {("bound", t, a)}
            raise Untranslatable(f"{where}: unknown attribute .{a} on GroupedData")
        if k == "na":
            if a == "df":
                return {(t[1], t[2])}
            f = U.resolve(t[3], a)
            if f is not None:
                return {("bound", t, a)}
            raise Untranslatable(f"{where}: unknown attribute .{a} on Na/Stat helper")
        if k == "writer":
            raise Untranslatable(f"{where}: attribute .{a} on a DataFrameWriter (not analysed)")
        raise Untranslatable(f"{where}: attribute .{a} on tag {t}")

    # ---- calls ---------------------------------------------------------------------------------------------
    def actuals(self, st, n):
        args, kws, star = [], {}, E
        for a in n.args:
            if isinstance(a, ast.Starred):
                star |= self.elems(self.ev(st, a.value)) | self.ev(st, a.value)
            else:
                args.append(self.ev(st, a))
        for kw in n.keywords:
            if kw.arg is None:
                star |= self.elems(self.ev(st, kw.value)) | self.ev(st, kw.value)
            else:
                kws[kw.arg] = self.ev(st, kw.value)
        return args, kws, star

    def call_method(self, st, recv, name, args, kws, star, where, via_wrapper=True):
        """call of method `name` of the family of `recv` (one tag).  Returns tags of the result."""
        U = self.U
        k = recv[0]
        fam = "DF" if k in ("df", "shr") else ("GD" if k == "gd" else recv[3])
        if fam == "DF" and name == "copy":
            if "pending_hints" in kws:
                raise Untranslatable(f"{where}: copy(pending_hints=...) bypasses the copying of hint objects")
            for tg in list(kws.values()) + args + [star]:
                if any(t[0] in ("attr", "in", "box", "df") for t in tg):
                    raise Untranslatable(f"{where}: copy(...) is given an object of an existing DataFrame: {sorted(tg)}")
            return {("shr", recv[1])}
        f = U.resolve(fam, name)
        if f is None:
            raise Untranslatable(f"{where}: method {name} not found in family {fam}")
        g = st["g"]
        if fam == "DF":
            op = op_of(f, "operation")
            root = recv[1]
            if op is not None and via_wrapper:
                # wrapper: may call recv._convert_leaf_to_cte(); then the body; then `df.last_op = new_op`
                w = U.resolve("DF", "_convert_leaf_to_cte")
                _, eff = self.analyse(w, self.bind(w, fs(recv), [], {}, E), g)
                st["eff"].merge(eff)
                if k == "df" and root == "self":
                    st["eff"].wops.add(op)
                if k == "df":
                    g2 = (root, (g[1] if g[0] == root else ()) + (op,))
                else:
                    g2 = g
                ret, eff = self.analyse(f, self.bind(f, fs(recv), args, kws, star), g2)
                st["eff"].merge(eff)
                out = set(ret)
                if ("df", root) in out:
                    # the body may return its `self`: the wrapper then assigns last_op on the receiver
                    groot, chain = g2
                    st["eff"].writes.add((tuple(sorted(set(chain if groot == root else ()), key=OPK.index)), root, "WLast",
                                          f.where))
                    out.add(("shr", root))
                return out
            ret, eff = self.analyse(f, self.bind(f, fs(recv), args, kws, star), g)
            st["eff"].merge(eff)
            return set(ret)
        if fam == "GD":
            op = op_of(f, "group_operation")
            if op is not None and via_wrapper:
                w = U.resolve("DF", "_convert_leaf_to_cte")
                _, eff = self.analyse(w, self.bind(w, fs((recv[1], recv[2])), [], {}, E), g)
                st["eff"].merge(eff)
                if recv[2] == "self":
                    st["eff"].wops.add(op)
            ret, eff = self.analyse(f, self.bind(f, fs(recv), args, kws, star), g)
            st["eff"].merge(eff)
            return set(ret)
        ret, eff = self.analyse(f, self.bind(f, fs(recv), args, kws, star), g)
        st["eff"].merge(eff)
        return set(ret)

    def construct(self, st, which, args, kws, star, where):
        """self._group_data(df, cols, last_op) / self._na(df) / self._stat(df): what does the helper hold?"""
        U = self.U
        fam, field = {"_group_data": ("GD", "_df"), "_na": ("NA", "df"), "_stat": ("STAT", "df")}[which]
        init = U.resolve(fam, "__init__")
        if init is None:
            raise Untranslatable(f"{where}: no __init__ for {which}")
        env = self.bind(init, E, args, kws, star)
        sub = {"fn": init, "env": env, "g": st["g"], "eff": Eff(), "ret": set(), "imports": {}}
        held = None
        for s in init.node.body:
            if isinstance(s, ast.Assign) and len(s.targets) == 1 and dotted(s.targets[0]) == "self." + field:
                held = self.ev(sub, s.value)
            elif isinstance(s, ast.Assign) and len(s.targets) == 1 and (dotted(s.targets[0]) or "").startswith("self."):
                self.ev(sub, s.value)
            elif isinstance(s, ast.Expr) and isinstance(s.value, ast.Constant):
                pass
            else:
                raise Untranslatable(f"{init.where}: unexpected statement in helper __init__")
        st["eff"].merge(sub["eff"])
        out = set()
        for t in held or ():
            if t[0] in ("df", "shr"):
                out.add(("gd", t[0], t[1]) if fam == "GD" else ("na", t[0], t[1], fam))
            else:
                raise Untranslatable(f"{init.where}: helper holds {t}")
        return out

    def resolve_name(self, st, name):
        """module-level sqlframe function visible under this name, or None"""
        fn = st["fn"]
        imp = st["imports"].get(name) or self.U.imports[fn.mod].get(name)
        if imp:
            m = MODULE_OF.get(imp[0])
            if m and imp[1] in self.U.modfuncs[m]:
                return self.U.modfuncs[m][imp[1]]
            if imp[0].startswith("sqlframe") and m is None:
                return ("sqlframe-unloaded", imp)
            return None
        if name in self.U.modfuncs[fn.mod]:
            return self.U.modfuncs[fn.mod][name]
        return None

    def call(self, st, n, where):
        args, kws, star = self.actuals(st, n)
        alltags = frozenset().union(*args, *kws.values(), star) if (args or kws or star) else E
        f = n.func
        if isinstance(f, ast.Attribute):
            m = f.attr
            xt = self.ev(st, f.value)
            # execution reaches the engine
            if m in EXEC_NAMES and any(t[0] == "session" for t in xt):
                st["eff"].execs = True
            out = set()
            if not xt:
                # method of an untagged (fresh / foreign) object; tagged arguments become reachable from it
                if m in EXEC_NAMES and isinstance(f.value, ast.Name) and f.value.id in ("read_sql_query",):
                    st["eff"].execs = True
                if any(t[0] in ("df", "shr", "gd", "na") for t in alltags) and m not in ("append", "extend", "add", "format", "add_row", "join"):
                    raise Untranslatable(f"{where}: a DataFrame is passed to foreign method .{m}")
                keep = frozenset(t for t in self.boxify(alltags) if t[0] == "box")
                stores = m in ("append", "extend", "add", "set", "update", "insert", "setdefault")
                if keep and stores and isinstance(f.value, ast.Name):
                    st["env"][f.value.id] = st["env"].get(f.value.id, E) | keep
                return E if (stores or m == "remove") else keep
            for t in xt:
                k = t[0]
                if k == "bound" and m == "__wrapped__":
                    # X.meth.__wrapped__(recv, ...): the body without the wrapper
                    if not args:
                        raise Untranslatable(f"{where}: __wrapped__ call without receiver")
                    for r in args[0]:
                        if r[0] not in ("df", "shr"):
                            raise Untranslatable(f"{where}: __wrapped__ receiver is {r}")
                        out |= self.call_method(st, r, t[2], args[1:], kws, star, where, via_wrapper=False)
                elif k in ("df", "shr", "gd", "na"):
                    fam = "DF" if k in ("df", "shr") else ("GD" if k == "gd" else t[3])
                    if self.U.resolve(fam, m) is not None or (fam == "DF" and m == "copy"):
                        out |= self.call_method(st, t, m, args, kws, star, where)
                    elif fam == "DF" and self.U.class_attr("DF", m) and m in ("_group_data", "_na", "_stat"):
                        out |= self.construct(st, m, args, kws, star, where)
                    else:
                        raise Untranslatable(f"{where}: unknown method .{m} on {k}")
                elif k == "cls":
                    if t[1] in ("_group_data", "_na", "_stat"):
                        out |= self.construct(st, t[1], args, kws, star, where)
                    else:
                        raise Untranslatable(f"{where}: call of class attribute {t[1]}")
                elif k == "bound":
                    raise Untranslatable(f"{where}: attribute .{m} of a bound method")
                elif k == "session":
                    if m == "_writer":
                        continue
                    bad = [x for x in alltags if x[0] in ("attr", "in", "df") and not (x[0] == "df" and m in ("_writer",))]
                    if bad and m not in ("_collect", "_fetchdf", "_to_sql", "_execute", "add_table", "_normalize_string",
                                         "_add_alias_to_mapping", "listColumns", "get"):
                        raise Untranslatable(f"{where}: session method .{m} receives an object of an existing DataFrame")
                    if m in MUTATORS or m.startswith("_add") or m.startswith("add_"):
                        st["eff"].sess += 1
                    out.add(t)
                elif k in ("attr", "in"):
                    if k == "attr" and t[2] in self.U.immutable_attrs:
                        continue
                    cp = [kw for kw in n.keywords if kw.arg == "copy"]
                    if m in MUTATORS:
                        self.write_on(st, [t], where, k == "attr")
                        out |= {("in", t[1], t[2])}
                    elif m == "copy":
                        if k == "attr" and t[2] == "pending_hints":
                            out.add(("box", t[1], t[2]))
                    elif m in BUILDERS:
                        if cp and not (isinstance(cp[0].value, ast.Constant) and cp[0].value.value is True):
                            self.write_on(st, [t], where, False)
                            out.add(("in", t[1], t[2]))
                    elif m in RET_INNER:
                        out.add(("in", t[1], t[2]))
                    elif m in RET_SAME:
                        out.add(t)
                    elif m in RET_SCALAR:
                        pass
                    else:
                        raise Untranslatable(f"{where}: unknown method .{m} on an object of an existing DataFrame ({t})")
                elif k == "box":
                    if m in ("append", "extend", "add", "insert", "update") and isinstance(f.value, ast.Name):
                        keep = frozenset(x for x in self.boxify(alltags) if x[0] == "box")
                        st["env"][f.value.id] = st["env"].get(f.value.id, E) | keep
                    elif m in ("pop", "get", "items", "values", "__getitem__"):
                        out.add(("in", t[1], t[2]))
                    elif m in ("copy",):
                        out.add(t)
                    elif m in MUTATORS or m in RET_SCALAR or m in ("keys", "index"):
                        pass
                    else:
                        raise Untranslatable(f"{where}: unknown method .{m} on a container of shared objects")
                elif k == "writer":
                    raise Untranslatable(f"{where}: DataFrameWriter method .{m}")
            return frozenset(out)
        if isinstance(f, ast.Name):
            name = f.id
            loc = st["env"].get(name)
            if loc:
                bad = [t for t in loc if t[0] not in ("box",)]
                if bad:
                    raise Untranslatable(f"{where}: call of a tagged local {name}")
            target = self.resolve_name(st, name) if name not in st["env"] else None
            if isinstance(target, Fn):
                ret, eff = self.analyse(target, self.bind(target, E, args, kws, star), st["g"])
                st["eff"].merge(eff)
                return ret
            if isinstance(target, tuple):
                if any(t[0] in ("df", "attr", "in") for t in alltags):
                    raise Untranslatable(f"{where}: {name} (from {target[1][0]}) receives an object of an existing DataFrame")
                return E
            if name in EXEC_NAMES:
                st["eff"].execs = True
            if name in EXTERNAL_INPLACE:
                first = args[0] if args else E
                self.write_on(st, [t for t in first if t[0] in ("attr", "in")], where, False)
                return self.innerify(first)
            if any(t[0] in ("df", "shr", "gd", "na") for t in alltags):
                if name in ("isinstance", "print", "type", "id", "len", "bool", "str", "repr"):
                    return E
                raise Untranslatable(f"{where}: a DataFrame is passed to {name}(...)")
            mode = PURE_CALLS.get(name)
            if mode == "none":
                return E
            if mode == "elem":
                return self.elems(alltags)
            if mode == "box":
                return self.boxify(alltags)
            # any other callable (sqlglot constructors, typing helpers, functions fetched from the session, ...):
            # assumed not to mutate its arguments; its result may contain them
            if name in ("setattr", "delattr", "vars", "getattr", "exec", "eval", "globals", "locals"):
                if alltags:
                    raise Untranslatable(f"{where}: {name} on an object of an existing DataFrame")
            return frozenset(t for t in self.innerify(alltags) if t[0] in ("in", "box", "session"))
        # call of a call result / subscript etc.
        ft = self.ev(st, f)
        if any(t[0] in ("df", "shr", "gd", "na", "bound", "raw") for t in ft):
            raise Untranslatable(f"{where}: indirect call on a DataFrame-related value")
        if any(t[0] in ("df", "shr", "gd", "na") for t in alltags):
            raise Untranslatable(f"{where}: a DataFrame is passed to an indirect call")
        return frozenset(t for t in self.innerify(alltags) if t[0] in ("in", "box", "session"))


# ---------------------------------------------------------------------------------------------------------------

RET_KIND = {"Self": "RetDF", "DF": "RetDF", "GROUP_DATA": "RetGrouped"}


def df_param_tags(fn: Fn):
    """DataFrame-typed parameters (annotation Self / DF) become roots 'p:<name>'"""
    env = {}
    for a in fn.node.args.args[1:]:
        ann = ast.unparse(a.annotation) if a.annotation else ""
        if ann in ("Self", "DF", "'DF'", '"DF"', "BaseDataFrame"):
            env[a.arg] = fs(("df", "p:" + a.arg))
    return env


def summarize(repo: str):
    U = Universe(repo)
    A = Analyzer(U)
    entries = []

    def finish(name, fn, op, ret, eff, rk=None, public=True, res=None):
        ann = ast.unparse(fn.node.returns) if fn.node.returns is not None else ""
        rkind = rk or RET_KIND.get(ann.strip("'\""), "RetOther")
        if rkind == "RetOther" and any(t[0] in ("df", "shr") for t in ret):
            rkind = "RetDF"      # returns a DataFrame although the annotation does not say so
        if rkind == "RetOther" and any(t[0] == "gd" for t in ret):
            rkind = "RetGrouped"
        ws = {}
        for chain, root, kind, where in eff.writes:
            ws.setdefault((chain, root, kind), []).append(where)
        may_self = any(t == ("df", "self") for t in ret)
        entries.append({"name": name, "op": op, "wops": sorted(eff.wops, key=OPK.index), "res": res if res else op,
                        "writes": sorted(ws.items()), "exec": eff.execs, "ret": rkind,
                        "returns_self": may_self, "public": public, "where": fn.where,
                        "hash": py2v.src_hash(fn.node, fn.src), "session_writes": eff.sess})

    def run_public(fam, name, recv, label=None, pre=None):
        f = U.resolve(fam, name)
        if f is None:
            raise Untranslatable(f"public method {name} not found")
        st = {"fn": f, "env": {}, "g": ("self", ()), "eff": Eff(), "ret": set(), "imports": {}}
        is_prop = any(d[0] in ("property", "cached_property") for d in _decos(f.node))
        op = op_of(f, "operation") if fam in ("DF", "DFBASE") else op_of(f, "group_operation")
        penv = df_param_tags(f)
        args = []
        for a in f.node.args.args[1:]:
            args.append(penv.get(a.arg, E))
        if is_prop:
            ret = A.attr_of(st, recv, name, f.where)
        else:
            ret = A.call_method(st, recv, name, args, {}, E, f.where)
        finish(label or name, f, op, ret, st["eff"])
        return ret, st["eff"]

    recv = ("df", "self")
    for name in U.public_names("DF"):
        if name in SKIP_PUBLIC:
            continue
        run_public("DF", name, recv)
    # BaseDataFrame's own cache/persist (shadowed by the DuckDB mixin) -- other engines use them
    saved = U.fam["DF"]
    U.fam["DF"] = U.fam["DFBASE"]
    A.memo = {}
    for name in ("cache", "persist"):
        run_public("DF", name, recv, label=name + "@base")
    U.fam["DF"] = saved
    A.memo = {}
    # GroupedData: d.groupBy(...).m(...) and d.cube(...).m(...)
    for maker in ("groupBy", "cube"):
        mk = U.resolve("DF", maker)
        for name in U.public_names("GD"):
            if name == "pivot":
                continue
            st = {"fn": mk, "env": {}, "g": ("self", ()), "eff": Eff(), "ret": set(), "imports": {}}
            gds = A.call_method(st, recv, maker, [], {}, E, mk.where)
            f = U.resolve("GD", name)
            out = set()
            for gd in gds:
                if gd[0] != "gd":
                    raise Untranslatable(f"{maker} returns {gd}")
                out |= A.call_method(st, gd, name, [], {}, E, f.where)
            gop = op_of(U.resolve("GD", "agg"), "group_operation")
            if gop is None:
                raise Untranslatable("GroupedData.agg is no longer decorated with @group_operation")
            finish(f"{maker}.{name}", f, op_of(mk, "operation"), out, st["eff"], rk="RetDF", res=gop)
    # d.na.m(...) / d.stat.m(...)
    for acc, fam in (("na", "NA"), ("stat", "STAT")):
        accf = U.resolve("DF", acc)
        for name in U.public_names(fam):
            st = {"fn": accf, "env": {}, "g": ("self", ()), "eff": Eff(), "ret": set(), "imports": {}}
            helpers = A.attr_of(st, recv, acc, accf.where)
            f = U.resolve(fam, name)
            out = set()
            for h in helpers:
                if h[0] != "na":
                    raise Untranslatable(f"{acc} returns {h}")
                out |= A.call_method(st, h, name, [], {}, E, f.where)
            # the helper method must be `return self.df.<m>(...)`; the result carries <m>'s decorator kind
            body = [x for x in f.node.body if not (isinstance(x, ast.Expr) and isinstance(x.value, ast.Constant))]
            inner = None
            if len(body) == 1 and isinstance(body[0], ast.Return) and isinstance(body[0].value, ast.Call) \
                    and isinstance(body[0].value.func, ast.Attribute) and dotted(body[0].value.func.value) == "self.df":
                inner = U.resolve("DF", body[0].value.func.attr)
            if inner is None:
                raise Untranslatable(f"{f.where}: helper method is not `return self.df.<method>(...)`")
            finish(f"{acc}.{name}", f, None, out, st["eff"], res=op_of(inner, "operation"))
    return U, entries


# ---- wrapper predicate (same reading of operations.py as C01's translator; kept local to this property) ------

def enum_values(tree):
    cls = py2v.find_class(tree, "Operation")
    vals = {}
    for st in cls.body:
        if isinstance(st, ast.Assign) and len(st.targets) == 1 and isinstance(st.targets[0], ast.Name):
            vals[st.targets[0].id] = py2v.const_eval(st.value, {})
    if sorted(vals) != sorted(OPK):
        raise Untranslatable(f"Operation members changed: {sorted(vals)}")
    return vals


def wrapper_facts(tree, src, deco_name: str, recv: str):
    deco = py2v.find_func(tree, deco_name)
    wrapper = py2v.find_func(deco, "wrapper")
    body = [s for s in wrapper.body if not (isinstance(s, ast.Expr) and isinstance(s.value, ast.Constant))]
    if len(body) != 7:
        raise Untranslatable(f"{deco_name}.wrapper: expected 7 statements, found {len(body)}")
    s0, s1, s2, s3, s4, s5, s6 = body
    tr = py2v.Tr(
        types={"last_op": "opk", "new_op": "opk", "op": "opk"},
        env={**{f"Operation.{k}": (k, "opk") for k in OPK},
             f"{recv}.last_op": ("last_op", "opk"),
             "eq:opk": ("opk_eqb", "fn"), "lt:opk": ("opk_ltb", "fn"), "le:opk": ("opk_leb", "fn"),
             "gt:opk": ("opk_gtb", "fn"), "ge:opk": ("opk_geb", "fn")},
        calls={}, helpers=py2v.module_helpers(tree))

    def is_convert(call):
        return (isinstance(call, ast.Call) and not call.args and not call.keywords
                and dotted(call.func) == recv + "._convert_leaf_to_cte")

    if not isinstance(s0, ast.If) or s0.orelse:
        raise Untranslatable(f"{deco_name}: first statement is not the INIT `if`")
    if tr.e(s0.test)[0] != "(opk_eqb last_op INIT)":
        raise Untranslatable(f"{deco_name}: INIT test changed")
    init_wraps = init_noop = False
    for st in s0.body:
        if isinstance(st, ast.Assign) and dotted(st.targets[0]) == recv and is_convert(st.value):
            init_wraps = True
        elif isinstance(st, ast.Assign) and dotted(st.targets[0]) == recv + ".last_op" and dotted(st.value) == "Operation.NO_OP":
            init_noop = True
        else:
            raise Untranslatable(f"{deco_name}: unexpected statement in INIT branch")
    if init_noop and not init_wraps:
        raise Untranslatable(f"{deco_name}: INIT branch writes last_op on the receiver itself")
    if not (isinstance(s1, ast.Assign) and dotted(s1.targets[0]) == "last_op" and dotted(s1.value) == recv + ".last_op"):
        raise Untranslatable(f"{deco_name}: `last_op = {recv}.last_op` not found")
    if not (isinstance(s2, ast.Assign) and dotted(s2.targets[0]) == "new_op"):
        raise Untranslatable(f"{deco_name}: `new_op = ...` not found")
    new_kind, tnk = tr.e(s2.value)
    if not (isinstance(s3, ast.If) and not s3.orelse and len(s3.body) == 1 and isinstance(s3.body[0], ast.Assign)
            and dotted(s3.body[0].targets[0]) == recv and is_convert(s3.body[0].value)):
        raise Untranslatable(f"{deco_name}: wrap statement has another shape")
    test, tt = tr.e(s3.test)
    ok4 = isinstance(s4, ast.Assign) and dotted(s4.targets[0]) == "df" and isinstance(s4.value, ast.Call) \
        and dotted(s4.value.func) == "func" and ast.unparse(s4.value) == "func(self, *args, **kwargs)"
    ok5 = isinstance(s5, ast.Assign) and dotted(s5.targets[0]) == "df.last_op" and dotted(s5.value) == "new_op"
    ok6 = isinstance(s6, ast.Return) and dotted(s6.value) == "df"
    if not (ok4 and ok5 and ok6) or tnk != "opk" or tt != "bool":
        raise Untranslatable(f"{deco_name}: tail (call / set last_op / return) has another shape")
    return {"init_wraps": init_wraps, "init_noop": init_noop, "new_kind": new_kind, "test": test,
            "hash": py2v.src_hash(wrapper, src)}


WT = ["WDisplay", "WHintList", "WHintObj", "WUuids", "WExpr", "WLast", "WAttr", "WOther"]


def generate(repo: str):
    from vlib.core import strlit
    U, entries = summarize(repo)
    vals = enum_values(U.trees["ops"])
    w_df = wrapper_facts(U.trees["ops"], U.srcs["ops"], "operation", "self")
    w_gr = wrapper_facts(U.trees["ops"], U.srcs["ops"], "group_operation", "self._df")
    L = ["(* GENERATED from /repo on every run by translate/c04_summary.py -- do not edit *)",
         "From SF Require Import C04.Heap.", "From Coq Require Import ZArith List String.", "Import ListNotations.",
         "Open Scope Z_scope.",
         "Definition rank (k : opk) : Z := match k with " + " | ".join(f"{k} => ({vals[k]})" for k in OPK) + " end.",
         "Definition opk_ltb a b := Z.ltb (rank a) (rank b).",
         "Definition opk_leb a b := Z.leb (rank a) (rank b).",
         "Definition opk_gtb a b := Z.gtb (rank a) (rank b).",
         "Definition opk_geb a b := Z.geb (rank a) (rank b).",
         f"Definition wrap_needed (last_op new_op : opk) : bool := {w_df['test']}.",
         f"Definition new_kind (op last_op : opk) : opk := {w_df['new_kind']}.",
         f"Definition init_wraps : bool := {'true' if w_df['init_wraps'] else 'false'}.",
         f"Definition wrap_needed_group (last_op new_op : opk) : bool := {w_gr['test']}.",
         f"Definition new_kind_group (op last_op : opk) : opk := {w_gr['new_kind']}.",
         f"Definition init_wraps_group : bool := {'true' if w_gr['init_wraps'] else 'false'}.",
         "(* does a call of a method decorated with [op] hand its body a COPY when the receiver's last_op is [last]? *)",
         "Definition wraps (op last : opk) : bool :=",
         "  if opk_eqb last INIT then orb init_wraps (wrap_needed NO_OP (new_kind op NO_OP))",
         "  else wrap_needed last (new_kind op last).",
         "Definition result_kind (op last : opk) : opk := new_kind op (if opk_eqb last INIT then NO_OP else last).",
         "Open Scope string_scope."]
    rows = []
    for e in entries:
        ws = []
        for (chain, root, kind), _ in e["writes"]:
            r = "RSelf" if root == "self" else "ROther"
            ws.append(f"mkW [{'; '.join(chain)}] {r} {kind}")
        rows.append(f"  mkM {strlit(e['name'])} {('(Some ' + e['op'] + ')') if e['op'] else 'None'} "
                    f"[{'; '.join(e['wops'])}] {('(Some ' + e['res'] + ')') if e['res'] else 'None'} "
                    f"[{'; '.join(ws)}] {'true' if e['exec'] else 'false'} {e['ret']} "
                    f"{'true' if e['returns_self'] else 'false'}")
    L.append("Definition methods : list minfo := [\n" + ";\n".join(rows) + "\n].")
    L.append(f"Definition copy_shares_hints : bool := {'true' if U.shares_hints else 'false'}.")
    L.append("Definition gen_facts : facts := mkF methods wraps result_kind copy_shares_hints.")
    facts = [{"name": "rank", "from": "operations.py: class Operation", "value": vals},
             {"name": "wrap_needed", "from": "operations.py: operation.wrapper", "hash": w_df["hash"], "text": w_df["test"]},
             {"name": "wrap_needed_group", "from": "operations.py: group_operation.wrapper", "hash": w_gr["hash"], "text": w_gr["test"]},
             {"name": "copy()+object_to_dict shape", "from": "dataframe.py: BaseDataFrame.copy; sqlglot.helper.object_to_dict",
              "hash": U.copy_hash, "copy_shares_hint_objects": U.shares_hints},
             {"name": "__init__ stores its parameters", "value": {"attrs": U.data_attrs, "immutable": sorted(U.immutable_attrs)}}]
    for e in entries:
        facts.append({"name": "summary:" + e["name"], "from": e["where"], "hash": e["hash"], "op": e["op"],
                      "executes": e["exec"], "ret": e["ret"], "returns_self": e["returns_self"],
                      "wrapper_ops": e["wops"], "result_op": e["res"],
                      "writes": [{"guard": list(c), "root": r, "target": k, "at": sorted(set(w))[:4]}
                                 for (c, r, k), w in e["writes"]]})
    return "\n".join(L) + "\n", facts, entries


if __name__ == "__main__":
    import sys
    text, facts, entries = generate(sys.argv[1] if len(sys.argv) > 1 else "/repo")
    for e in entries:
        print(e["name"], e["op"], e["wops"], e["res"], "exec" if e["exec"] else "", e["ret"], "RETSELF" if e["returns_self"] else "",
              [(c, r, k) for (c, r, k), _ in e["writes"]])
