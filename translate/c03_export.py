"""C03: fail-closed exporters from what sqlframe returns to Coq terms.

* export_chain2(tree)  -- a single-input SELECT chain (the tree sqlframe built, or the tree sqlglot's optimizer
                          returned for it) -> (input column names, declared input types, Coq `list block`).
  Differences from vlib.rel.export_chain (which only reads the un-optimised tree):
    - the first SELECT may read the VALUES alias directly and do real work; `CAST(<values column> AS T)` is the
      typed input column (T is recorded and compared between the raw and the optimised tree by the caller),
      a VALUES column that is NOT under its CAST is refused;
    - table qualifiers are erased only after checking that they name the one table in scope;
    - every column reference of WHERE / the select list must be an input column of that SELECT (SQL's
      fall-back to an output alias is not part of the Coq semantics -> refused);
    - a QUALIFIED bare column in ORDER BY whose name is also an output alias is refused (the Coq semantics
      would resolve the bare name to the alias).
* scope_of_tree(tree) / scope_of_text(text) -- the CTE list WITH NAMES (name, table names read) for C03/Scoped.v.
"""
from __future__ import annotations

from vlib.core import zlit, strlit, listlit, boollit, natlit
from vlib.rel import NotExportable

BINMAP = {"Add": "Add", "Sub": "Sub", "Mul": "Mul", "EQ": "Eq", "NEQ": "Neq", "LT": "Lt", "LTE": "Le",
          "GT": "Gt", "GTE": "Ge", "And": "And", "Or": "Or", "NullSafeEQ": "NullSafeEq"}


class Scope:
    """columns visible to one SELECT: `table` is the only table alias in scope, `cols` its columns;
    `values_types` is filled for the VALUES layer (column -> type text of the CAST around it)."""

    def __init__(self, table, cols, is_values, values_types):
        self.table, self.cols, self.is_values, self.values_types = table, list(cols), is_values, values_types


def _col(n, exp, sc: Scope, under_cast=None):
    if isinstance(n.this, exp.Star):
        raise NotExportable("star")
    if n.args.get("db") or n.args.get("catalog"):
        raise NotExportable("column with db/catalog qualifier")
    if n.table and n.table != sc.table:
        raise NotExportable(f"column qualified by {n.table!r}, table in scope is {sc.table!r}")
    if n.name not in sc.cols:
        raise NotExportable(f"column {n.name!r} is not an input column of this SELECT ({sc.cols})")
    if sc.is_values:
        if under_cast is None:
            raise NotExportable(f"VALUES column {n.name!r} used without its CAST")
        old = sc.values_types.setdefault(n.name, under_cast)
        if old != under_cast:
            raise NotExportable(f"VALUES column {n.name!r} cast to {under_cast} and to {old}")
    return f"(ECol {strlit(n.name)})"


def x_expr(n, exp, sc: Scope) -> str:
    t = type(n).__name__
    if isinstance(n, exp.Paren):
        return x_expr(n.this, exp, sc)
    if isinstance(n, exp.Cast):
        if sc.is_values and isinstance(n.this, exp.Column) and not n.args.get("format") and not n.args.get("safe"):
            return _col(n.this, exp, sc, under_cast=n.to.sql(dialect="spark").upper())
        raise NotExportable("CAST other than the typed VALUES column")
    if isinstance(n, exp.Column):
        return _col(n, exp, sc)
    if isinstance(n, exp.Literal):
        if n.is_string:
            return f"(ELit (VStr {strlit(n.this)}))"
        try:
            return f"(ELit (VInt {zlit(int(n.this))}))"
        except ValueError:
            raise NotExportable(f"non-integer numeric literal {n.this}")
    if isinstance(n, exp.Null):
        return "(ELit VNull)"
    if isinstance(n, exp.Boolean):
        return f"(ELit (VBool {boollit(bool(n.this))}))"
    if t in BINMAP:
        return f"(EBin {BINMAP[t]} {x_expr(n.this, exp, sc)} {x_expr(n.expression, exp, sc)})"
    if isinstance(n, exp.Not):
        return f"(ENot {x_expr(n.this, exp, sc)})"
    if isinstance(n, exp.Neg):
        if isinstance(n.this, exp.Literal) and not n.this.is_string:
            return f"(ELit (VInt {zlit(-int(n.this.this))}))"
        return f"(ENeg {x_expr(n.this, exp, sc)})"
    if isinstance(n, exp.Is) and isinstance(n.expression, exp.Null):
        return f"(EIsNull {x_expr(n.this, exp, sc)})"
    if isinstance(n, exp.Case) and n.this is None:
        ifs = n.args.get("ifs") or []
        default = n.args.get("default")
        acc = x_expr(default, exp, sc) if default is not None else "(ELit VNull)"
        for i in reversed(ifs):
            acc = f"(EIf {x_expr(i.this, exp, sc)} {x_expr(i.args['true'], exp, sc)} {acc})"
        return acc
    if isinstance(n, exp.Coalesce) and len(n.expressions) == 1:
        return f"(ECoalesce {x_expr(n.this, exp, sc)} {x_expr(n.expressions[0], exp, sc)})"
    raise NotExportable(f"expression node {t}")


def flatten_and(n, exp):
    if isinstance(n, exp.Paren):
        return flatten_and(n.this, exp)
    if isinstance(n, exp.And):
        return flatten_and(n.this, exp) + flatten_and(n.expression, exp)
    return [n]


def x_select(sel, exp, sc: Scope):
    """one SELECT whose FROM has already been resolved to `sc` -> (Coq block, output column names)"""
    if not isinstance(sel, exp.Select):
        raise NotExportable(f"{type(sel).__name__} is not a SELECT")
    allowed = {"expressions", "from", "where", "distinct", "order", "limit", "with", "kind", "hint"}
    for k, v in sel.args.items():
        if v and k not in allowed:
            raise NotExportable(f"select arg {k}")
    if sel.args.get("hint"):
        raise NotExportable("hint")
    where = sel.args.get("where")
    ws = [x_expr(w, exp, sc) for w in flatten_and(where.this, exp)] if where else []
    items, outs = [], []
    for i in sel.expressions:
        if isinstance(i, exp.Alias):
            items.append(f"({x_expr(i.this, exp, sc)}, {strlit(i.alias)})")
            outs.append(i.alias)
        elif isinstance(i, exp.Column):
            items.append(f"({x_expr(i, exp, sc)}, {strlit(i.name)})")
            outs.append(i.name)
        else:
            raise NotExportable(f"select item {type(i).__name__}")
    dist = sel.args.get("distinct")
    if dist is not None and dist.args.get("on"):
        raise NotExportable("distinct on")
    ks = []
    order = sel.args.get("order")
    if order:
        for o in order.expressions:
            if not isinstance(o, exp.Ordered):
                raise NotExportable("bare order key")
            nf = o.args.get("nulls_first")
            if nf is None:
                raise NotExportable("order key without explicit null placement")
            k = o.this
            while isinstance(k, exp.Paren):
                k = k.this
            if isinstance(k, exp.Column) and not isinstance(k.this, exp.Star):
                if k.name in outs:
                    if k.table:
                        raise NotExportable("qualified ORDER BY column that is also an output alias")
                    ke = f"(ECol {strlit(k.name)})"      # resolves to the output alias (engine and model)
                else:
                    ke = x_expr(k, exp, sc)
            elif isinstance(k, exp.Literal) and not k.is_string:
                raise NotExportable("positional ORDER BY")
            else:
                # inside an expression names resolve to input columns; refuse if one is ALSO an alias of a
                # different expression only when it is not an input column (x_expr already requires input columns)
                ke = x_expr(k, exp, sc)
            ks.append(f"(mkKey {ke} {boollit(bool(o.args.get('desc')))} {boollit(bool(nf))})")
    lim = sel.args.get("limit")
    lim_t = "None"
    if lim is not None:
        le = lim.expression
        if not isinstance(le, exp.Literal) or le.is_string:
            raise NotExportable("limit is not a literal")
        lim_t = f"(Some {natlit(int(le.this))})"
    return f"(mkBlock {listlit(ws)} {listlit(items)} {boollit(dist is not None)} {listlit(ks)} {lim_t})", outs


def export_chain2(tree, exp):
    """-> (input column names, {column: declared type}, Coq `list block` term, number of blocks)"""
    if not isinstance(tree, exp.Select):
        raise NotExportable(f"statement is {type(tree).__name__}")
    ctes = list(tree.ctes)
    main = tree.copy()
    main.set("with", None)
    selects = [(c.alias, c.this) for c in ctes] + [(None, main)]
    blocks = []
    names, types = None, {}
    prev_name, prev_cols = None, None
    for idx, (alias, sel) in enumerate(selects):
        if not isinstance(sel, exp.Select):
            raise NotExportable(f"CTE body is {type(sel).__name__}")
        if sel.args.get("joins"):
            raise NotExportable("join")
        frm = sel.args.get("from")
        if frm is None:
            raise NotExportable("SELECT without FROM")
        src = frm.this
        if isinstance(src, exp.Values):
            if idx != 0:
                raise NotExportable("VALUES below the first SELECT")
            al = src.args.get("alias")
            if al is None or not al.columns:
                raise NotExportable("VALUES without column aliases")
            names = [c.name for c in al.columns]
            if len(set(names)) != len(names):
                raise NotExportable("duplicate VALUES column names")
            sc = Scope(al.name, names, True, types)
        elif isinstance(src, exp.Table):
            if idx == 0:
                raise NotExportable("first SELECT does not read VALUES")
            if src.args.get("db") or src.args.get("catalog") or src.name != prev_name:
                raise NotExportable(f"FROM {src.sql()} is not the previous CTE ({prev_name})")
            sc = Scope(src.alias or src.name, prev_cols, False, None)
        else:
            raise NotExportable(f"FROM {type(src).__name__}")
        blk, outs = x_select(sel, exp, sc)
        blocks.append(blk)
        prev_name, prev_cols = alias, outs
    return names, types, listlit(blocks), len(blocks)


# ---- the CTE list with names (C03 part i) ----------------------------------------------------------

def _tables(node, exp):
    """names of the tables a query body reads (CTE bodies nested inside are not expected: fail-closed)"""
    out = []
    for t in node.find_all(exp.Table):
        if t.args.get("db") or t.args.get("catalog"):
            raise NotExportable(f"table with db/catalog: {t.sql()}")
        if t.name not in out:      # first-occurrence order, one entry per name
            out.append(t.name)
    return out


def scope_of_tree(tree, exp):
    """statement tree -> (list of (cte name, [table names read]), [table names the final query reads])"""
    if isinstance(tree, (exp.Union, exp.Select)):
        pass
    else:
        raise NotExportable(f"statement is {type(tree).__name__}")
    w = tree.args.get("with")
    if w is not None and w.args.get("recursive"):
        raise NotExportable("WITH RECURSIVE")
    ctes = []
    for c in tree.ctes:
        if c.this.args.get("with") is not None:
            raise NotExportable("nested WITH")
        ctes.append((c.alias, _tables(c.this, exp)))
    main = tree.copy()
    main.set("with", None)
    for sub in main.find_all(exp.With):
        raise NotExportable("nested WITH in the final query")
    return ctes, _tables(main, exp)


def scope_coq(ctes, main) -> str:
    cs = listlit([f"(mkCte {strlit(n)} {listlit([strlit(r) for r in refs])})" for n, refs in ctes])
    return f"(mkQ {cs} {listlit([strlit(r) for r in main])})"


def idents_of_tree(tree, exp):
    """every identifier the generator would print (name, quoted-by-the-tree flag)"""
    return [(i.name, bool(i.args.get("quoted"))) for i in tree.find_all(exp.Identifier)]
