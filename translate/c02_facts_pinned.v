(* GENERATED from /repo on every run by translate/c02_facts.py -- do not edit *)
From Coq Require Import Ascii String List.
From SF Require Import C02.How.
Import ListNotations.
Definition gen_cfg : howcfg :=
  mkHowCfg
    [("outer"%string, "full_outer"%string); ("full"%string, "full_outer"%string); ("fullouter"%string, "full_outer"%string); ("left"%string, "left_outer"%string); ("leftouter"%string, "left_outer"%string); ("right"%string, "right_outer"%string); ("rightouter"%string, "right_outer"%string); ("semi"%string, "left_semi"%string); ("leftsemi"%string, "left_semi"%string); ("anti"%string, "left_anti"%string); ("leftanti"%string, "left_anti"%string)]
    "inner"%string "cross"%string "cross"%string "inner"%string
    "_"%char " "%char
    ["left anti"%string; "left semi"%string]
    "cross"%string "full outer"%string "right"%string true true.
(* facts the harness uses when it observes the lineage of a case (not parameters of the model) *)
Definition gen_self_join_exact : bool := true.
Definition gen_rename_in_place : bool := true.
