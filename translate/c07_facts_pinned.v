(* GENERATED from /repo on every run by translate/c07_facts.py -- do not edit *)
From SF Require Import C07.SetModel.
Definition flags (m : meth) : sclass * bool := match m with MUnion => (KUnion, false) | MUnionAll => (KUnion, false) | MUnionByName => (KUnion, false) | MIntersect => (KIntersect, true) | MIntersectAll => (KIntersect, false) | MExceptAll => (KExcept, false) end.
Definition kind (m : meth) : opk := match m with MUnion => FROM | MUnionAll => FROM | MUnionByName => FROM | MIntersect => FROM | MIntersectAll => FROM | MExceptAll => FROM end.
Definition swap : bool := false.
Definition gen_facts : facts := mkFacts flags kind swap.
Definition hash_text_exact : bool := true.
Definition hash_name_chars : nat := 9.
Definition dedup_filter_fresh : bool := true.
Definition dedup_filter_appended : bool := true.

