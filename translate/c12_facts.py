"""T1 for C12: regenerate, from /repo, the facts by which an ENGINE can make a pipeline mean something else.

Fail-closed `ast` translator (unknown shape -> vlib.py2v.Untranslatable, never a guess).  Emits Gen/C12Facts.v:

  base_facts      _BaseSession: `_is_<engine>` defaults, SANITIZE_COLUMN_NAMES, Builder dialect defaults, the wiring of
                  __init__ (which Builder constant feeds which session dialect), the replace chain of
                  _sanitize_column_name
  engine_facts E  per <Engine>Session class: flags it overrides, SANITIZE..., Builder defaults, every name the session /
                  DataFrame (+ mixins before BaseDataFrame in its MRO) / GroupedData class defines, and whether the
                  engine package mentions the operation decorators
  core_df/core_group   the clause methods (every @operation / @group_operation decorated method) + the CTE helpers
  plumbing_facts  _to_sql / normalize_string / df.sql dialect expressions; the symbolic argument of every _execute /
                  read_sql_query site of _collect and _fetchdf (base and engine overrides); the result-name
                  re-normalisation; a call summary of every modelled action method, resolved over each engine's MRO
  func_facts      every public function of base/functions.py with its unsupported_engines, each engine module's filter,
                  the dialect get_func_from_session dispatches on
"""
from __future__ import annotations

import ast
import os

from vlib import py2v
from vlib.core import strlit, listlit
from vlib.py2v import Untranslatable, dotted

ENGINES = ["bigquery", "snowflake", "postgres", "databricks", "spark", "redshift", "duckdb", "standalone"]
CTOR = {e: e.capitalize() for e in ENGINES}
SESSION_CLASS = {"bigquery": "BigQuerySession", "snowflake": "SnowflakeSession", "postgres": "PostgresSession",
                 "databricks": "DatabricksSession", "spark": "SparkSession", "redshift": "RedshiftSession",
                 "duckdb": "DuckDBSession", "standalone": "StandaloneSession"}
DF_CLASS = {e: SESSION_CLASS[e].replace("Session", "DataFrame") for e in ENGINES}
GROUP_CLASS = {e: SESSION_CLASS[e].replace("Session", "GroupedData") for e in ENGINES}
WRITER_CLASS = {e: SESSION_CLASS[e].replace("Session", "DataFrameWriter") for e in ENGINES}
FLAGS = ["_is_" + e for e in ENGINES]
# helpers of BaseDataFrame the compile pipeline goes through in addition to the @operation-decorated clause methods
CTE_HELPERS = ["_convert_leaf_to_cte", "_create_cte_from_expression", "_add_ctes_to_expression", "_get_expressions",
               "_get_select_expressions", "_set_display_names", "_replace_cte_names_with_hashes", "_set_operation",
               "_get_outer_select_columns", "_ensure_and_normalize_col", "_ensure_and_normalize_cols",
               "_ensure_list_of_columns", "_create_hash_from_expression", "_update_display_name_mapping", "copy",
               "__init__", "_resolve_pending_hints", "_cache", "toDF", "na", "dropna", "fillna", "replace",
               "dropDuplicates", "drop_duplicates", "unpivot", "withColumnRenamed", 
               "withColumn", "withColumns", "drop", "union", "unionAll", "unionByName", "intersect", "intersectAll",
               "exceptAll", "crossJoin", "groupBy", "groupby", "agg", "cube", "alias", "sql"]
GROUP_HELPERS = ["__init__", "_get_function_applied_columns", "pivot", "count", "mean", "avg", "max", "min", "sum"]


def _doc(st) -> bool:
    return isinstance(st, ast.Expr) and isinstance(st.value, ast.Constant)


def _decos(fn) -> list:
    return [dotted(d) or (dotted(d.func) if isinstance(d, ast.Call) else None) for d in fn.decorator_list]


def _const(node, kinds):
    if isinstance(node, ast.Constant) and isinstance(node.value, kinds) and not (kinds is str and isinstance(node.value, bool)):
        return node.value
    raise Untranslatable("expected a literal: " + ast.dump(node)[:80])


def _load(repo, rel):
    path = os.path.join(repo, rel)
    if not os.path.exists(path):
        raise Untranslatable(f"{rel} not found")
    return py2v.load(path)


def class_defs(cls: ast.ClassDef) -> list:
    """every name a class body binds (methods, properties, class attributes, nested classes)"""
    out = []
    for st in cls.body:
        if isinstance(st, (ast.FunctionDef, ast.AsyncFunctionDef, ast.ClassDef)):
            out.append(st.name)
        elif isinstance(st, ast.Assign):
            for t in st.targets:
                if not isinstance(t, ast.Name):
                    raise Untranslatable(f"class {cls.name}: assignment target {ast.dump(t)[:60]}")
                out.append(t.id)
        elif isinstance(st, ast.AnnAssign):
            if not isinstance(st.target, ast.Name):
                raise Untranslatable(f"class {cls.name}: annotated target")
            out.append(st.target.id)
        elif _doc(st) or isinstance(st, ast.Pass):
            continue
        else:
            raise Untranslatable(f"class {cls.name}: statement {type(st).__name__} in class body")
    return list(dict.fromkeys(out))


def base_name(b) -> str:
    """`X` or `X[...]` -> X"""
    if isinstance(b, ast.Subscript):
        b = b.value
    d = dotted(b)
    if d is None:
        raise Untranslatable("base class expression " + ast.dump(b)[:60])
    return d


# ------------------------------------------------------------------------------------------------
# dialect expressions
# ------------------------------------------------------------------------------------------------

def dexp(node, recv=("self",), arg="dialect") -> str:
    """a dialect-valued Python expression -> Coq dexp"""
    if node is None:
        return "DNone"
    if isinstance(node, ast.Constant):
        if node.value is None:
            return "DNone"
        if isinstance(node.value, str):
            return f"(DConst {strlit(node.value)})"
        raise Untranslatable(f"dialect constant {node.value!r}")
    d = dotted(node)
    if d is not None:
        if d == arg:
            return "DArg"
        for r in recv:
            for attr, c in (("input_dialect", "DIn"), ("output_dialect", "DOut"), ("execution_dialect", "DExec")):
                if d == f"{r}.{attr}":
                    return c
        raise Untranslatable(f"dialect expression reads {d}")
    if isinstance(node, ast.BoolOp) and isinstance(node.op, ast.Or) and len(node.values) == 2:
        return f"(DOr {dexp(node.values[0], recv, arg)} {dexp(node.values[1], recv, arg)})"
    if isinstance(node, ast.IfExp) and dotted(node.test) == arg:
        return f"(DIfArg {dexp(node.body, recv, arg)} {dexp(node.orelse, recv, arg)})"
    if isinstance(node, ast.Call) and dotted(node.func) == "Dialect.get_or_raise" and len(node.args) == 1 and not node.keywords:
        return dexp(node.args[0], recv, arg)
    raise Untranslatable("dialect expression " + ast.dump(node)[:100])


def kw(call: ast.Call, name: str):
    for k in call.keywords:
        if k.arg == name:
            return k.value
    return None


SESSION_RECV = ("self", "self.session", "self._session", "self._df.session", "df.session", "session")


# ------------------------------------------------------------------------------------------------
# session classes
# ------------------------------------------------------------------------------------------------

def flag_value(fn: ast.FunctionDef) -> bool:
    if "property" not in _decos(fn):
        raise Untranslatable(f"{fn.name} is not a property")
    body = [s for s in fn.body if not _doc(s)]
    if len(body) == 1 and isinstance(body[0], ast.Return):
        return _const(body[0].value, bool)
    raise Untranslatable(f"{fn.name} does not return a literal")


def builder_facts(cls: ast.ClassDef, expect_base):
    for st in cls.body:
        if isinstance(st, ast.ClassDef) and st.name == "Builder":
            bases = [base_name(b) for b in st.bases]
            if bases != expect_base:
                raise Untranslatable(f"{cls.name}.Builder bases {bases}")
            consts = {}
            for s in st.body:
                if isinstance(s, ast.Assign) and len(s.targets) == 1 and isinstance(s.targets[0], ast.Name) \
                        and s.targets[0].id.startswith("DEFAULT_"):
                    consts[s.targets[0].id] = _const(s.value, str)
            return consts, class_defs(st)
    raise Untranslatable(f"{cls.name} has no nested Builder class")


def builder_is_own(cls: ast.ClassDef) -> bool:
    """`builder = Builder()` in the class body, or a classproperty returning cls.Builder()"""
    for st in cls.body:
        if isinstance(st, ast.Assign) and len(st.targets) == 1 and dotted(st.targets[0]) == "builder":
            v = st.value
            return isinstance(v, ast.Call) and dotted(v.func) == "Builder" and not v.args and not v.keywords
        if isinstance(st, ast.FunctionDef) and st.name == "builder":
            body = [s for s in st.body if not _doc(s)]
            return (len(body) == 1 and isinstance(body[0], ast.Return) and isinstance(body[0].value, ast.Call)
                    and dotted(body[0].value.func) == "cls.Builder" and not body[0].value.args)
    return False


def base_session_facts(repo):
    tree, src = _load(repo, "sqlframe/base/session.py")
    cls = py2v.find_class(tree, "_BaseSession")
    flags = {}
    consts = {}
    for st in cls.body:
        if isinstance(st, ast.FunctionDef) and st.name.startswith("_is_"):
            flags[st.name] = flag_value(st)
        if isinstance(st, ast.Assign) and len(st.targets) == 1 and dotted(st.targets[0]) == "SANITIZE_COLUMN_NAMES":
            consts["SANITIZE_COLUMN_NAMES"] = _const(st.value, bool)
    if sorted(flags) != sorted(FLAGS):
        raise Untranslatable(f"_BaseSession flags {sorted(flags)}")
    if "SANITIZE_COLUMN_NAMES" not in consts:
        raise Untranslatable("_BaseSession.SANITIZE_COLUMN_NAMES not found")
    bconsts, _ = builder_facts(cls, [])
    for k in ("DEFAULT_INPUT_DIALECT", "DEFAULT_OUTPUT_DIALECT", "DEFAULT_EXECUTION_DIALECT"):
        if k not in bconsts:
            raise Untranslatable(f"_BaseSession.Builder.{k} not found")
    if not builder_is_own(cls):
        raise Untranslatable("_BaseSession.builder is not Builder()")
    # __init__ wiring: self.<x>_dialect = Dialect.get_or_raise(self.builder.DEFAULT_<Y>_DIALECT)
    init = py2v.find_method(tree, "_BaseSession", "__init__")
    wiring = {}
    for n in ast.walk(init):
        tgt = val = None
        if isinstance(n, ast.AnnAssign):
            tgt, val = n.target, n.value
        elif isinstance(n, ast.Assign) and len(n.targets) == 1:
            tgt, val = n.targets[0], n.value
        d = dotted(tgt) if tgt is not None else None
        if d in ("self.input_dialect", "self.output_dialect", "self.execution_dialect"):
            if not (isinstance(val, ast.Call) and dotted(val.func) == "Dialect.get_or_raise" and len(val.args) == 1):
                raise Untranslatable(f"__init__: {d} is not Dialect.get_or_raise(...)")
            src_attr = dotted(val.args[0])
            if not src_attr or not src_attr.startswith("self.builder."):
                raise Untranslatable(f"__init__: {d} read from {src_attr}")
            if d[5:] in wiring:
                raise Untranslatable(f"__init__: {d} assigned twice")
            wiring[d[5:]] = src_attr[len("self.builder."):]
    if sorted(wiring) != ["execution_dialect", "input_dialect", "output_dialect"]:
        raise Untranslatable(f"__init__ wiring {wiring}")
    # _sanitize_column_name: if self.SANITIZE_COLUMN_NAMES: return name.replace(a, b).replace(c, d); return name
    san = py2v.normalize_func(py2v.find_method(tree, "_BaseSession", "_sanitize_column_name"), rename_locals=False)
    body = [s for s in san.body if not _doc(s)]
    ok = (len(body) == 2 and isinstance(body[0], ast.If) and dotted(body[0].test) == "self.SANITIZE_COLUMN_NAMES"
          and not body[0].orelse and len(body[0].body) == 1 and isinstance(body[0].body[0], ast.Return)
          and isinstance(body[1], ast.Return) and dotted(body[1].value) == "name")
    if not ok:
        raise Untranslatable("_sanitize_column_name: shape changed")
    pairs = []
    e = body[0].body[0].value
    while isinstance(e, ast.Call) and isinstance(e.func, ast.Attribute) and e.func.attr == "replace":
        if len(e.args) != 2 or e.keywords:
            raise Untranslatable("_sanitize_column_name: replace arity")
        a, b = _const(e.args[0], str), _const(e.args[1], str)
        if len(a) != 1 or len(b) != 1 or not (32 <= ord(a) < 127 and 32 <= ord(b) < 127):
            raise Untranslatable("_sanitize_column_name: replace of a non single ASCII character")
        pairs.append((a, b))
        e = e.func.value
    if dotted(e) != "name" or not pairs:
        raise Untranslatable("_sanitize_column_name: not a replace chain on `name`")
    pairs.reverse()
    return {"flags": flags, "sanitize": consts["SANITIZE_COLUMN_NAMES"], "builder": bconsts, "wiring": wiring,
            "pairs": pairs, "hash": py2v.src_hash(cls, src)[:12], "tree": tree, "src": src}


def mixin_defs(repo) -> dict:
    tree, _ = _load(repo, "sqlframe/base/mixins/dataframe_mixins.py")
    out = {}
    for n in tree.body:
        if isinstance(n, ast.ClassDef):
            bases = [base_name(b) for b in n.bases]
            if bases[0] != "BaseDataFrame":
                raise Untranslatable(f"mixin {n.name} bases {bases}")
            out[n.name] = n
    return out


def engine_facts(repo, e, mixins):
    tree, src = _load(repo, f"sqlframe/{e}/session.py")
    cls = py2v.find_class(tree, SESSION_CLASS[e])
    bases = [base_name(b) for b in cls.bases]
    if bases != ["_BaseSession"]:
        raise Untranslatable(f"{cls.name} bases {bases}")
    flags, sanitize = {}, None
    bindings = {}
    for st in cls.body:
        if isinstance(st, ast.FunctionDef) and st.name.startswith("_is_"):
            if st.name not in FLAGS:
                raise Untranslatable(f"{cls.name}: unknown flag {st.name}")
            flags[st.name] = flag_value(st)
        if isinstance(st, ast.Assign) and len(st.targets) == 1 and isinstance(st.targets[0], ast.Name):
            n = st.targets[0].id
            if n == "SANITIZE_COLUMN_NAMES":
                sanitize = _const(st.value, bool)
            if n in ("_df", "_writer", "_reader", "_catalog", "_table"):
                bindings[n] = dotted(st.value)
    if bindings.get("_df") != DF_CLASS[e] or bindings.get("_writer") != WRITER_CLASS[e]:
        raise Untranslatable(f"{cls.name}: _df/_writer bound to {bindings}")
    bconsts, _ = builder_facts(cls, ["_BaseSession.Builder"])
    if not builder_is_own(cls):
        raise Untranslatable(f"{cls.name}.builder is not its own Builder()")
    sdefs = class_defs(cls)
    # DataFrame class and the mixins before BaseDataFrame
    dtree, dsrc = _load(repo, f"sqlframe/{e}/dataframe.py")
    dcls = py2v.find_class(dtree, DF_CLASS[e])
    dbases = [base_name(b) for b in dcls.bases]
    if dbases[-1] != "BaseDataFrame":
        raise Untranslatable(f"{dcls.name} bases {dbases}")
    mro = [dcls]
    for b in dbases[:-1]:
        if b not in mixins:
            raise Untranslatable(f"{dcls.name}: unknown mixin {b}")
        mro.append(mixins[b])
    ddefs = []
    for c in mro:
        ddefs += class_defs(c)
    gtree, _ = _load(repo, f"sqlframe/{e}/group.py")
    gcls = py2v.find_class(gtree, GROUP_CLASS[e])
    if [base_name(b) for b in gcls.bases] != ["_BaseGroupedData"]:
        raise Untranslatable(f"{gcls.name} bases")
    gdefs = class_defs(gcls)
    # does any module of the engine package mention the operation decorators?
    rebinds = []
    pkg = os.path.join(repo, "sqlframe", e)
    for fn in sorted(os.listdir(pkg)):
        if not fn.endswith(".py"):
            continue
        t, _ = py2v.load(os.path.join(pkg, fn))
        for n in ast.walk(t):
            name = n.id if isinstance(n, ast.Name) else n.attr if isinstance(n, ast.Attribute) else \
                n.name if isinstance(n, ast.alias) else None
            if name in ("operation", "group_operation", "Operation"):
                rebinds.append(fn)
                break
    return {"flags": flags, "sanitize": sanitize, "builder": bconsts, "session_defs": sdefs, "df_defs": list(dict.fromkeys(ddefs)),
            "group_defs": gdefs, "rebinds": rebinds, "hash": py2v.src_hash(cls, src)[:12],
            "session_cls": cls, "df_mro": mro, "session_src": src}


# ------------------------------------------------------------------------------------------------
# plumbing: session-level sinks
# ------------------------------------------------------------------------------------------------

HARMLESS = {"ensure_list", "isinstance", "self._cur.fetchall", "self._to_row", "verify_pandas_installed", "Row",
            "results.append", "case_sensitive_cols.append", "row.asDict", "self._last_df.collect",
            "self._last_df.toPandas", "str", "row.asDict.items",
            # pure value conversions of what the engine returned (they cannot send or render a statement)
            "float", "int", "bool", "dict", "list", "tuple", "len", "zip", "enumerate", "sorted"}


class Sym:
    """symbolic text value inside a sink body"""
    def __init__(self, coq):
        self.coq = coq


def sink_sites(fn: ast.FunctionDef, src_name: str):
    """Symbolically execute a _collect/_fetchdf body: the argument of every `self._execute(x)` and
    `read_sql_query(x, self._conn)` site as an rnd term; plus the result-name path if present."""
    sites, names = [], {}
    env: dict[str, str] = {}
    fn = py2v.normalize_func(fn, rename_locals=False)      # no docstrings / annotations / logging statements
    cursors = {"self._cur"}                                # names bound to the cursor (`cursor = self._cur`)

    def val(n) -> str:
        """rnd term for a text-valued expression"""
        if isinstance(n, ast.Name):
            if n.id in env:
                return env[n.id]
            if n.id in loopvars:
                return "RRaw"
            raise Untranslatable(f"{src_name}: text variable {n.id} of unknown origin")
        if isinstance(n, ast.IfExp):
            a, b = val(n.body), val(n.orelse)
            t = n.test
            if isinstance(t, ast.Call) and dotted(t.func) == "isinstance" and dotted(t.args[1]) == "exp.Expression":
                return f"(RIfTree {a} {b})"
            if dotted(t) == "skip_normalization":
                return f"(RIfSkip {a} {b})"
            raise Untranslatable(f"{src_name}: condition {ast.dump(t)[:60]}")
        if isinstance(n, ast.Call):
            d = dotted(n.func)
            if d == "self._to_sql":
                if len(n.args) != 1:
                    raise Untranslatable(f"{src_name}: _to_sql arity")
                for k in n.keywords:
                    if k.arg not in ("quote_identifiers", "dialect", "pretty"):
                        raise Untranslatable(f"{src_name}: _to_sql keyword {k.arg}")
                return f"(RToSql {dexp(kw(n, 'dialect'))})"
            if isinstance(n.func, ast.Attribute) and n.func.attr == "sql" and dotted(n.func.value) in loopvars:
                if n.args:
                    raise Untranslatable(f"{src_name}: .sql positional")
                return f"(RExprSql {dexp(kw(n, 'dialect'))})"
        raise Untranslatable(f"{src_name}: text expression {ast.dump(n)[:80]}")

    loopvars: set[str] = set()

    def stmts(body, cond):
        for st in body:
            if _doc(st) or isinstance(st, (ast.Import, ast.ImportFrom, ast.Pass)):
                continue
            if isinstance(st, ast.For):
                if not isinstance(st.target, ast.Name) and not isinstance(st.target, ast.Tuple):
                    raise Untranslatable(f"{src_name}: for target")
                if isinstance(st.target, ast.Name):
                    loopvars.add(st.target.id)
                stmts(st.body, cond)
                continue
            if isinstance(st, ast.If):
                t = st.test
                is_tree_test = (isinstance(t, ast.Call) and dotted(t.func) == "isinstance" and len(t.args) == 2
                                and dotted(t.args[1]) == "exp.Expression")
                if is_tree_test or dotted(t) == "skip_normalization":
                    ctor = "RIfTree" if is_tree_test else "RIfSkip"
                    saved = dict(env)
                    stmts(st.body, cond)
                    e1 = dict(env)
                    env.clear(); env.update(saved)
                    stmts(st.orelse, cond)
                    for k in set(e1) | set(env):
                        if k in e1 and k in env:
                            env[k] = f"({ctor} {e1[k]} {env[k]})" if e1[k] != env[k] else env[k]
                        else:
                            raise Untranslatable(f"{src_name}: {k} assigned on one branch only")
                    continue
                # guards that do not change what is rendered: skip_rows / description / truthiness of the loop item
                # a guard that calls nothing cannot send or render anything itself: both branches are analysed (every execute
                # site in either is collected); it must not leave the rendered text different on its two branches
                if not any(isinstance(x, (ast.Call, ast.NamedExpr, ast.Await, ast.Yield)) for x in ast.walk(t)):
                    saved = dict(env)
                    stmts(st.body, cond)
                    e1 = dict(env)
                    env.clear(); env.update(saved)
                    stmts(st.orelse, cond)
                    for k in set(e1) & set(env):
                        if e1[k] != env[k]:
                            raise Untranslatable(f"{src_name}: rendered text {k} differs across `if {ast.unparse(t)[:50]}`")
                    for k in set(e1) ^ set(env):          # a temporary of one branch goes out of scope after the guard
                        env.pop(k, None)
                    continue
                raise Untranslatable(f"{src_name}: if-test {ast.dump(t)[:70]}")
            if isinstance(st, ast.Assign) and len(st.targets) == 1 and isinstance(st.targets[0], ast.Name):
                tgt = st.targets[0].id
                if dotted(st.value) in cursors:
                    cursors.add(tgt)                      # cursor = self._cur
                    continue
                is_text = tgt == "sql" or (isinstance(st.value, ast.Call) and dotted(st.value.func) == "self._to_sql")
                if is_text:
                    env[tgt] = val(st.value)              # sql = ... / final_sql = self._to_sql(...)
                    continue
                env.pop(tgt, None)
                scan(st.value)
                continue
            if isinstance(st, (ast.Assign, ast.AnnAssign, ast.Expr, ast.Return, ast.Assert)):
                v = st.value if not isinstance(st, ast.Assert) else st.test
                if v is not None:
                    scan(v)
                continue
            raise Untranslatable(f"{src_name}: statement {type(st).__name__}")

    def scan(n):
        """look at every call inside an expression"""
        for c in [x for x in ast.walk(n) if isinstance(x, ast.Call)]:
            d = dotted(c.func)
            if d == "self._execute":
                if len(c.args) != 1 or c.keywords:
                    raise Untranslatable(f"{src_name}: _execute arity")
                sites.append(val(c.args[0]))
            elif d == "read_sql_query":
                if len(c.args) != 2 or dotted(c.args[1]) != "self._conn":
                    raise Untranslatable(f"{src_name}: read_sql_query arguments")
                sites.append(val(c.args[0]))
            elif d == "exp.parse_identifier":
                names["parse"] = dexp(kw(c, "dialect"))
            elif d == "exp.to_identifier":
                # the reported name is taken as data (no dialect involved in reading it)
                if len(c.args) != 1 or any(k.arg not in ("quoted",) for k in c.keywords):
                    raise Untranslatable(f"{src_name}: to_identifier arguments")
                names["parse"] = "DNone"
            elif d == "normalize_string":
                f, t = kw(c, "from_dialect"), kw(c, "to_dialect")
                tl = kw(c, "to_string_literal")
                if not (isinstance(tl, ast.Constant) and tl.value is True):
                    raise Untranslatable(f"{src_name}: normalize_string without to_string_literal=True")
                names["from"], names["to"] = _const(f, str), _const(t, str)
            elif d == "self._to_sql":
                pass  # handled through val() at the site that consumes it
            elif d in HARMLESS or d is None and isinstance(c.func, ast.Attribute) and c.func.attr in ("items", "append"):
                pass
            elif isinstance(c.func, ast.Attribute) and c.func.attr in ("fetchall", "fetchone", "fetchmany") \
                    and dotted(c.func.value) in cursors and not c.keywords:
                pass                                      # reading the result of what was executed
            elif isinstance(c.func, ast.Attribute) and c.func.attr == "sql" and dotted(c.func.value) in loopvars:
                pass
            else:
                raise Untranslatable(f"{src_name}: call to {d or ast.dump(c.func)[:50]}")

    stmts(fn.body, None)
    nm = None
    if names:
        if sorted(names) != ["from", "parse", "to"]:
            raise Untranslatable(f"{src_name}: incomplete result-name path {names}")
        nm = (names["parse"], names["from"], names["to"])
    return sites, nm


def super_delegate(fn: ast.FunctionDef, name: str):
    """body = try: return super().<name>(same positional, keywords forwarded by name) except ...: ...  -> list of forwarded kws"""
    calls = [c for c in ast.walk(fn) if isinstance(c, ast.Call) and isinstance(c.func, ast.Attribute)
             and c.func.attr == name and isinstance(c.func.value, ast.Call) and dotted(c.func.value.func) == "super"]
    if len(calls) != 1:
        return None
    c = calls[0]
    for k in c.keywords:
        if k.arg is None or dotted(k.value) != k.arg:
            raise Untranslatable(f"{name}: super() call renames keyword {k.arg}")
    # nothing else in the body may execute or render
    for x in ast.walk(fn):
        if isinstance(x, ast.Call) and dotted(x.func) in ("self._execute", "self._to_sql", "self._cur.execute", "read_sql_query"):
            raise Untranslatable(f"{name}: delegates to super() and also executes")
    return [k.arg for k in c.keywords]


def execute_body_ok(fn: ast.FunctionDef, src_name: str) -> str:
    """_execute(self, sql) must hand exactly its argument to the cursor (or the Spark session)"""
    fn = py2v.normalize_func(fn, rename_locals=False)
    calls = [c for c in ast.walk(fn) if isinstance(c, ast.Call)]
    hits = []
    for c in calls:
        d = dotted(c.func)
        if d in ("self._cur.execute", "self.spark_session.sql"):
            if len(c.args) != 1 or dotted(c.args[0]) != "sql" or c.keywords:
                raise Untranslatable(f"{src_name}: cursor receives something else than `sql`")
            hits.append(d)
        else:
            raise Untranslatable(f"{src_name}: call to {d}")
    if len(hits) != 1:
        raise Untranslatable(f"{src_name}: {len(hits)} cursor calls")
    return hits[0]


def to_sql_facts(base_tree):
    fn = py2v.normalize_func(py2v.find_method(base_tree, "_BaseSession", "_to_sql"), rename_locals=False)
    body = [s for s in fn.body if not _doc(s)]
    if len(body) != 1 or not isinstance(body[0], ast.Return) or not isinstance(body[0].value, ast.Call) \
            or dotted(body[0].value.func) != "normalize_string":
        raise Untranslatable("_to_sql: not a single normalize_string call")
    c = body[0].value
    if len(c.args) != 1 or dotted(c.args[0]) != "sql":
        raise Untranslatable("_to_sql: first argument")
    iq = kw(c, "is_query")
    if not (isinstance(iq, ast.Constant) and iq.value is True):
        raise Untranslatable("_to_sql: is_query=True missing")
    return dexp(kw(c, "from_dialect")), dexp(kw(c, "to_dialect"))


def normalize_string_facts(repo):
    tree, src = _load(repo, "sqlframe/base/util.py")
    fn = py2v.find_func(tree, "normalize_string")
    table = None
    render = None
    default_to = False
    for n in ast.walk(fn):
        if isinstance(n, ast.Assign) and dotted(n.targets[0]) == "str_to_dialect":
            if not isinstance(n.value, ast.Dict):
                raise Untranslatable("normalize_string: str_to_dialect is not a dict literal")
            table = [(_const(k, str), dexp(v, recv=("session",))) for k, v in zip(n.value.keys, n.value.values)]
        if isinstance(n, ast.Assign) and dotted(n.targets[0]) == "normalized_value" and isinstance(n.value, ast.Call) \
                and dotted(n.value.func) == "normalized_expression.sql":
            render = dexp(kw(n.value, "dialect"), arg="to_dialect")
        if isinstance(n, ast.If) and isinstance(n.test, ast.UnaryOp) and dotted(n.test.operand) == "to_dialect":
            default_to = (len(n.body) == 1 and isinstance(n.body[0], ast.Assign)
                          and dotted(n.body[0].targets[0]) == "to_dialect" and dotted(n.body[0].value) == "from_dialect")
    if table is None or render is None or not default_to:
        raise Untranslatable("normalize_string: table / render / default shape not found")
    # the names must be resolved through the table before use
    ok = [n for n in ast.walk(fn) if isinstance(n, ast.Assign) and dotted(n.targets[0]) == "to_dialect"
          and isinstance(n.value, ast.IfExp) and isinstance(n.value.body, ast.Subscript)
          and dotted(n.value.body.value) == "str_to_dialect" and dotted(n.value.body.slice) == "to_dialect"]
    if len(ok) != 1:
        raise Untranslatable("normalize_string: to_dialect is not looked up in str_to_dialect")
    return table, render, py2v.src_hash(fn, src)[:12]


def time_facts(base_tree):
    """Which of the three dialects each time-format helper of _BaseSession uses.  Every `self.<x>_dialect.<member>` read inside
    default_time_format / format_time / format_execution_time is listed as (method:member, dialect); anything else is refused."""
    out = []
    for meth, allowed in (("default_time_format", {"TIME_FORMAT"}), ("format_time", {"format_time"}),
                          ("format_execution_time", {"TIME_FORMAT", "generator", "format_time"})):
        fn = py2v.find_method(base_tree, "_BaseSession", meth)
        seen = []
        for n in ast.walk(fn):
            if isinstance(n, ast.Attribute):
                d = dotted(n.value)
                if d in ("self.input_dialect", "self.output_dialect", "self.execution_dialect"):
                    if n.attr not in allowed:
                        raise Untranslatable(f"{meth}: reads {d}.{n.attr}")
                    seen.append((f"{meth}:{n.attr}", dexp(n.value)))
            elif isinstance(n, ast.Name) and n.id in ("input_dialect", "output_dialect", "execution_dialect"):
                raise Untranslatable(f"{meth}: bare dialect name {n.id}")
        got = sorted(k for k, _ in seen)
        want = {"default_time_format": ["default_time_format:TIME_FORMAT"], "format_time": ["format_time:format_time"],
                "format_execution_time": ["format_execution_time:TIME_FORMAT", "format_execution_time:format_time",
                                          "format_execution_time:generator"]}[meth]
        if got != want:
            raise Untranslatable(f"{meth}: dialect reads {got}, expected {want}")
        out += sorted(seen)
    return out


def dfsql_facts(df_tree):
    fn = [n for n in py2v.find_class(df_tree, "BaseDataFrame").body
          if isinstance(n, ast.FunctionDef) and n.name == "sql" and "t.overload" not in _decos(n)]
    if len(fn) != 1:
        raise Untranslatable("BaseDataFrame.sql: definitions")
    fn = fn[0]
    assigns = [n for n in ast.walk(fn) if isinstance(n, ast.Assign) and dotted(n.targets[0]) == "dialect"]
    if len(assigns) != 1:
        raise Untranslatable("BaseDataFrame.sql: `dialect = ...` assignments")
    d = dexp(assigns[0].value, recv=("self.session",))
    calls = [c for c in ast.walk(fn) if isinstance(c, ast.Call) and dotted(c.func) == "self.session._to_sql"]
    if len(calls) != 1 or dotted(kw(calls[0], "dialect")) != "dialect":
        raise Untranslatable("BaseDataFrame.sql: _to_sql(dialect=dialect) not found")
    return d


# ------------------------------------------------------------------------------------------------
# plumbing: action summaries
# ------------------------------------------------------------------------------------------------

ACTIONS = ["collect", "_collect", "head", "first", "show", "count", "isEmpty", "toPandas", "toArrow",
           "_get_explain_plan_rows", "explain", "createOrReplaceTempView", "_typed_columns",
           "saveAsTable", "insertInto"]
DF_ACTION_NAMES = {"collect", "_collect", "head", "first", "show", "count", "isEmpty", "toPandas", "toArrow",
                   "_get_explain_plan_rows", "explain", "_typed_columns"}


def arg_kind(n, strings: set) -> str:
    if isinstance(n, ast.Call):
        d = dotted(n.func)
        if d and d.endswith("._get_expressions"):
            return "ATrees"
        if d and d.startswith("exp.") and d[4:5].isupper():
            return "ATree"
        if isinstance(n.func, ast.Attribute) and n.func.attr in ("format", "join") and isinstance(n.func.value, ast.Constant):
            return "AStr"
    if isinstance(n, (ast.JoinedStr,)) or (isinstance(n, ast.Constant) and isinstance(n.value, str)):
        return "AStr"
    d = dotted(n)
    if d in strings:
        return "AStr" if not d.startswith("tree:") else "ATree"
    if d is not None and ("tree:" + d) in strings:
        return "ATree"
    if d in ("self.expression", "self._expression", "expression", "output_expression_container"):
        return "ATree"
    raise Untranslatable("argument of a session sink: " + ast.dump(n)[:80])


def action_summary(fn: ast.FunctionDef, owner: str) -> list:
    """ordered list of Coq `call` terms for the sink-relevant calls of one method"""
    out = []
    # names bound to hand-built strings in this method
    strings = set()
    for n in ast.walk(fn):
        if isinstance(n, ast.Assign) and len(n.targets) == 1 and isinstance(n.targets[0], ast.Name):
            v = n.value
            if isinstance(v, ast.JoinedStr) or isinstance(v, ast.BinOp) and isinstance(v.op, ast.Add) \
                    or (isinstance(v, ast.Call) and isinstance(v.func, ast.Attribute)
                        and (v.func.attr in ("join", "format") and isinstance(v.func.value, ast.Constant)
                             or v.func.attr in ("_to_sql", "sql"))):
                strings.add(n.targets[0].id)
            elif isinstance(v, ast.Call) and (dotted(v.func) or "").startswith("exp.") and (dotted(v.func) or "")[4:5].isupper():
                strings.add("tree:" + n.targets[0].id)
    calls = [c for c in ast.walk(fn) if isinstance(c, ast.Call)]
    calls.sort(key=lambda c: (c.end_lineno, c.end_col_offset))   # evaluation order: inner/earlier calls finish first
    for c in calls:
        if not isinstance(c.func, ast.Attribute):
            continue
        a = c.func.attr
        recv = dotted(c.func.value)
        is_session = recv in SESSION_RECV[1:] or (recv == "self" and owner == "session")
        if a in ("_collect", "_fetchdf", "_execute") and is_session:
            if len(c.args) != 1:
                raise Untranslatable(f"{owner}.{fn.name}: {a} arity")
            ak = arg_kind(c.args[0], strings)
            if a == "_collect":
                sn = kw(c, "skip_normalization")
                skip = False if sn is None else _const(sn, bool)
                for k in c.keywords:
                    if k.arg not in ("skip_normalization", "quote_identifiers", "skip_rows", None):
                        raise Untranslatable(f"{owner}.{fn.name}: _collect keyword {k.arg}")
                    if k.arg is None and not (dotted(k.value) == "kwargs"):
                        raise Untranslatable(f"{owner}.{fn.name}: _collect **{ast.dump(k.value)[:30]}")
                out.append(f"CSink (KCollect {'true' if skip else 'false'}) {ak}")
            elif a == "_fetchdf":
                out.append(f"CSink KFetchdf {ak}")
            else:
                out.append(f"CSink KExecute {ak}")
        elif (a == "query" and recv in ("self.session._client", "self._session._client")) \
                or (a == "sql" and recv in ("self.session.spark_session", "self._session.spark_session")):
            # the engine's native client receives a text built in this method (BigQuery dry run, Spark schema probe)
            if len(c.args) < 1:
                raise Untranslatable(f"{owner}.{fn.name}: native client call without a statement")
            out.append("CSink KExecute AStr")
        elif a == "_to_sql" and is_session:
            out.append(f"CToSql {dexp(kw(c, 'dialect'), recv=SESSION_RECV)}")
        elif a == "sql" and recv in ("self", "df", "self._df"):
            pos = c.args[0] if c.args else None
            out.append(f"CDfSql {dexp(kw(c, 'dialect') or pos, recv=SESSION_RECV)}")
        elif a == "_collect" and recv in ("self", "df"):
            out.append('CAct "_collect"')
        elif a in DF_ACTION_NAMES and a != "_collect" and not is_session:
            # a DataFrame-level action on some DataFrame expression (self, df, df.limit(n), self.select(...))
            if recv in ("self.session.catalog", "self._session.catalog", "self.session", "self._session"):
                continue
            out.append(f"CAct {strlit(a)}")
        elif a in ("_collect", "_fetchdf", "_execute", "_to_sql"):
            raise Untranslatable(f"{owner}.{fn.name}: {a} on receiver {recv}")
    # a property read `self._typed_columns` is an action too
    for n in ast.walk(fn):
        if isinstance(n, ast.Attribute) and n.attr == "_typed_columns" and not isinstance(getattr(n, "ctx", None), ast.Store) \
                and fn.name != "_typed_columns":
            out.append('CAct "_typed_columns"')
    return out


def find_in_mro(mro: list, name: str):
    for cls in mro:
        hits = [n for n in cls.body if isinstance(n, ast.FunctionDef) and n.name == name and "t.overload" not in _decos(n)]
        if hits:
            return cls.name, hits[-1]
    return None, None


# ------------------------------------------------------------------------------------------------
# functions
# ------------------------------------------------------------------------------------------------

def _is_literal(node) -> bool:
    try:
        ast.literal_eval(node)
        return True
    except Exception:
        return False


def function_table(repo):
    tree, src = _load(repo, "sqlframe/base/functions.py")
    table: dict[str, object] = {}
    sensitive: set = set()
    flag_reads = {f: 0 for f in FLAGS}
    for st in tree.body:
        if isinstance(st, ast.FunctionDef):
            uns = None
            for d in st.decorator_list:
                if isinstance(d, ast.Call) and dotted(d.func) == "meta":
                    if d.args:
                        raise Untranslatable(f"{st.name}: positional @meta argument")
                    uns = []
                    for k in d.keywords:
                        if k.arg != "unsupported_engines":
                            raise Untranslatable(f"{st.name}: @meta keyword {k.arg}")
                        if isinstance(k.value, ast.Constant):
                            v = k.value.value
                            uns = [] if v is None else [_const(k.value, str)]
                        elif isinstance(k.value, ast.List):
                            uns = [_const(x, str) for x in k.value.elts]
                        else:
                            raise Untranslatable(f"{st.name}: unsupported_engines is not a literal")
                elif dotted(d) == "meta":
                    raise Untranslatable(f"{st.name}: bare @meta")
                else:
                    raise Untranslatable(f"{st.name}: decorator {ast.dump(d)[:50]}")
            table[st.name] = uns
            for n in ast.walk(st):
                if isinstance(n, ast.Call) and dotted(n.func) in ("_get_session", "get_func_from_session", "_BaseSession") \
                        or isinstance(n, ast.ImportFrom) and n.module == "sqlframe.base.function_alternatives":
                    sensitive.add(st.name)
            for n in ast.walk(st):
                if isinstance(n, ast.Attribute) and n.attr.startswith("_is_"):
                    if n.attr not in flag_reads:
                        raise Untranslatable(f"{st.name} reads unknown flag {n.attr}")
                    flag_reads[n.attr] += 1
        elif isinstance(st, ast.Assign) and len(st.targets) == 1 and isinstance(st.targets[0], ast.Name) \
                and isinstance(st.value, ast.Name):
            if st.value.id not in table:
                raise Untranslatable(f"alias {st.targets[0].id} = {st.value.id}: unknown function")
            table[st.targets[0].id] = table[st.value.id]
            if st.value.id in sensitive:
                sensitive.add(st.targets[0].id)
        elif isinstance(st, (ast.Import, ast.ImportFrom)) or _doc(st):
            continue
        elif isinstance(st, ast.If) and dotted(st.test) == "t.TYPE_CHECKING":
            continue
        elif isinstance(st, ast.Assign) and dotted(st.targets[0]) == "logger":
            continue
        elif isinstance(st, (ast.Assign, ast.AnnAssign)) and _is_literal(st.value) \
                and all(isinstance(t_, ast.Name) for t_ in (st.targets if isinstance(st, ast.Assign) else [st.target])):
            continue          # a module-level constant table (a literal): not a function, exports nothing callable
        else:
            raise Untranslatable(f"functions.py: top-level statement {type(st).__name__} at line {st.lineno}")
    for name in table:
        for ch in name:
            if not (32 <= ord(ch) < 127):
                raise Untranslatable(f"function name {name!r}")
    # transitive: a function that calls (by name) a sensitive function of this module is sensitive too
    calls = {}
    for st in tree.body:
        if isinstance(st, ast.FunctionDef):
            calls[st.name] = {n.func.id for n in ast.walk(st) if isinstance(n, ast.Call) and isinstance(n.func, ast.Name)
                              and n.func.id in table and n.func.id != st.name}
    changed = True
    while changed:
        changed = False
        for f, cs in calls.items():
            if f not in sensitive and cs & sensitive - {"col", "lit"}:
                sensitive.add(f)
                changed = True
    for st in tree.body:
        if isinstance(st, ast.Assign) and isinstance(st.value, ast.Name) and st.value.id in sensitive:
            sensitive.add(st.targets[0].id)
    return table, flag_reads, sorted(sensitive)


def engine_filter(repo, e):
    tree, src = _load(repo, f"sqlframe/{e}/functions.py")
    # from sqlframe.base.functions import *
    stars = [n for n in tree.body if isinstance(n, ast.ImportFrom) and n.module == "sqlframe.base.functions"
             and [a.name for a in n.names] == ["*"]]
    updates = [n for n in ast.walk(tree) if isinstance(n, ast.Call) and isinstance(n.func, ast.Attribute)
               and n.func.attr == "update" and isinstance(n.func.value, ast.Call) and dotted(n.func.value.func) == "globals"]
    others = [n for n in tree.body if isinstance(n, (ast.FunctionDef, ast.ClassDef))]
    if others:
        raise Untranslatable(f"{e}/functions.py defines its own functions: {[o.name for o in others]}")
    if stars and not updates:
        return None
    if len(updates) != 1 or stars:
        raise Untranslatable(f"{e}/functions.py: expected one globals().update(...)")
    mod = [n for n in tree.body if isinstance(n, ast.Assign) and dotted(n.targets[0]) == "module"]
    if len(mod) != 1 or not (isinstance(mod[0].value, ast.Subscript) and dotted(mod[0].value.value) == "sys.modules"
                             and _const(mod[0].value.slice, str) == "sqlframe.base.functions"):
        raise Untranslatable(f"{e}/functions.py: `module` is not sys.modules['sqlframe.base.functions']")
    comp = updates[0].args[0] if len(updates[0].args) == 1 else None
    if not isinstance(comp, ast.DictComp) or len(comp.generators) != 1:
        raise Untranslatable(f"{e}/functions.py: update argument is not a dict comprehension")
    g = comp.generators[0]
    if dotted(comp.key) != "name" or dotted(comp.value) != "func":
        raise Untranslatable(f"{e}/functions.py: comprehension does not map name -> func")
    it = g.iter
    if not (isinstance(it, ast.Call) and dotted(it.func) == "inspect.getmembers" and len(it.args) == 2
            and dotted(it.args[0]) == "module" and dotted(it.args[1]) == "inspect.isfunction"):
        raise Untranslatable(f"{e}/functions.py: iterates over something else than the functions of `module`")
    if len(g.ifs) != 1:
        raise Untranslatable(f"{e}/functions.py: filter shape")
    cond = g.ifs[0]
    conj = cond.values if isinstance(cond, ast.BoolOp) and isinstance(cond.op, ast.And) else [cond]
    keys, has_attr = [], False
    for t in conj:
        if isinstance(t, ast.Call) and dotted(t.func) == "hasattr" and dotted(t.args[0]) == "func" \
                and _const(t.args[1], str) == "unsupported_engines":
            has_attr = True
        elif isinstance(t, ast.Compare) and len(t.ops) == 1 and isinstance(t.ops[0], ast.NotIn) \
                and dotted(t.comparators[0]) == "func.unsupported_engines":
            keys.append(_const(t.left, str))
        else:
            raise Untranslatable(f"{e}/functions.py: filter conjunct {ast.dump(t)[:70]}")
    if not has_attr:
        raise Untranslatable(f"{e}/functions.py: filter does not test hasattr(func, 'unsupported_engines')")
    return keys


def dispatch_facts(repo):
    tree, src = _load(repo, "sqlframe/base/util.py")
    fn = py2v.find_func(tree, "get_func_from_session")
    # dialect_str = dialect_to_string(session.execution_dialect); import_path = f"sqlframe.{dialect_str}.functions"
    ds = [n for n in ast.walk(fn) if isinstance(n, ast.Assign) and dotted(n.targets[0]) == "dialect_str"]
    if len(ds) != 1 or not (isinstance(ds[0].value, ast.Call) and dotted(ds[0].value.func) == "dialect_to_string"
                            and len(ds[0].value.args) == 1):
        raise Untranslatable("get_func_from_session: dialect_str")
    module_by = dexp(ds[0].value.args[0], recv=("session",))
    ip = [n for n in ast.walk(fn) if isinstance(n, ast.Assign) and dotted(n.targets[0]) == "import_path"
          and isinstance(n.value, ast.JoinedStr)]
    if len(ip) != 1:
        raise Untranslatable("get_func_from_session: import_path")
    parts = ip[0].value.values
    ok = (len(parts) == 3 and isinstance(parts[0], ast.Constant) and parts[0].value == "sqlframe."
          and isinstance(parts[1], ast.FormattedValue) and dotted(parts[1].value) == "dialect_str"
          and isinstance(parts[2], ast.Constant) and parts[2].value == ".functions")
    if not ok:
        raise Untranslatable("get_func_from_session: import_path is not sqlframe.{dialect_str}.functions")
    tries = [n for n in ast.walk(fn) if isinstance(n, ast.Try)]
    if len(tries) != 1 or len(tries[0].handlers) != 1 or dotted(tries[0].handlers[0].type) != "AttributeError":
        raise Untranslatable("get_func_from_session: try/except AttributeError")
    h = tries[0].handlers[0]
    fb = [n for n in ast.walk(h) if isinstance(n, ast.Call) and dotted(n.func) == "importlib.import_module"]
    if len(fb) != 1 or _const(fb[0].args[0], str) != "sqlframe.base.functions":
        raise Untranslatable("get_func_from_session: fallback module")
    tests = [n for n in ast.walk(h) if isinstance(n, ast.Compare) and isinstance(n.ops[0], ast.In)
             and dotted(n.comparators[0]) == "func.unsupported_engines"]
    if len(tests) != 1:
        raise Untranslatable("get_func_from_session: unsupported_engines test")
    reject_by = dexp(tests[0].left, recv=("session",))
    firstif = [n for n in h.body if isinstance(n, ast.If)]
    if not (firstif and isinstance(firstif[0].test, ast.UnaryOp) and dotted(firstif[0].test.operand) == "fallback"
            and isinstance(firstif[0].body[0], ast.Raise)):
        raise Untranslatable("get_func_from_session: `if not fallback: raise`")
    return module_by, reject_by, py2v.src_hash(fn, src)[:12]


# ------------------------------------------------------------------------------------------------

def c01_core_text(repo: str) -> str:
    """The part of Gen.C01Facts that C12 depends on (clause configuration gen_cfg + decorator_table), assembled from
    translate/c01_facts' own component translators.  Used only when c01_facts.generate fails in a part C12 does not use (the
    ORDER BY key flags are C01's); any failure of a component used here still fails closed."""
    from translate import c01_facts as c1
    ops_tree, ops_src = py2v.load(os.path.join(repo, "sqlframe/base/operations.py"))
    df_tree, df_src = py2v.load(os.path.join(repo, "sqlframe/base/dataframe.py"))
    gr_tree, _ = py2v.load(os.path.join(repo, "sqlframe/base/group.py"))
    vals = c1.enum_values(ops_tree)
    w_df = c1.wrapper_facts(ops_tree, ops_src, "operation", "self")
    w_gr = c1.wrapper_facts(ops_tree, ops_src, "group_operation", "self._df")
    decos = c1.method_decorators(df_tree, "BaseDataFrame", "operation")
    gdecos = c1.method_decorators(gr_tree, "_BaseGroupedData", "group_operation")
    oa = c1.order_append(df_tree)
    lm, _ = c1.limit_merge(df_tree, df_src)
    sa = c1.select_append_default(df_tree)
    for n, m in c1.NAMES.items():
        if decos.get(m) is None:
            raise Untranslatable(f"method {m} has no @operation decorator")
    b = lambda x: "true" if x else "false"
    L = ["(* GENERATED from /repo by translate/c12_facts.c01_core_text (c01_facts.generate failed elsewhere) -- do not edit *)",
         "From SF Require Import Model.Chain.", "Open Scope Z_scope.",
         "Definition rank (k : opk) : Z := match k with " + " | ".join(f"{k} => ({vals[k]})" for k in c1.OPK) + " end.",
         "Definition opk_ltb a b := Z.ltb (rank a) (rank b).", "Definition opk_leb a b := Z.leb (rank a) (rank b).",
         "Definition opk_gtb a b := Z.gtb (rank a) (rank b).", "Definition opk_geb a b := Z.geb (rank a) (rank b).",
         f"Definition wrap_needed_df (last_op new_op : opk) : bool := {w_df['test']}.",
         f"Definition wrap_needed_group (last_op new_op : opk) : bool := {w_gr['test']}.",
         f"Definition new_kind_df (op last_op : opk) : opk := {w_df['new_kind']}.",
         f"Definition new_kind_group (op last_op : opk) : opk := {w_gr['new_kind']}.",
         f"Definition init_wraps_df : bool := {b(w_df['init_wraps'])}.", f"Definition init_wraps_group : bool := {b(w_gr['init_wraps'])}.",
         "Definition kind_of (n : opname) : opk := match n with " + " | ".join(f"{n} => {decos[m]}" for n, m in c1.NAMES.items()) + " end.",
         f"Definition order_append : bool := {b(oa)}.", f"Definition select_append_default : bool := {b(sa)}.",
         f"Definition limit_merge (num m : Z) : Z := {lm}.",
         "Definition gen_cfg : cfg := mkCfg wrap_needed_df kind_of init_wraps_df order_append limit_merge.",
         "Definition decorator_table : list (string * option opk) := [",
         ";\n".join(f'  ("{m}"%string, {("Some " + k) if k else "None"})' for m, k in sorted(decos.items()) if not m.startswith("__")),
         "].",
         f"Definition group_agg_kind : option opk := {('Some ' + gdecos['agg']) if gdecos.get('agg') else 'None'}."]
    return "\n".join(L) + "\n"


def coq_opt(x, f=lambda v: v):
    return "None" if x is None else f"(Some {f(x)})"


def coq_bool(b):
    return "true" if b else "false"


def coq_strs(xs):
    return listlit([strlit(x) for x in xs])


def coq_char(c):
    return f'"{c}"%char' if c != '"' else '""""%char'


def generate(repo: str):
    facts = []
    base = base_session_facts(repo)
    mixins = mixin_defs(repo)
    eng = {e: engine_facts(repo, e, mixins) for e in ENGINES}
    df_tree, df_src = _load(repo, "sqlframe/base/dataframe.py")
    gr_tree, _ = _load(repo, "sqlframe/base/group.py")
    rw_tree, _ = _load(repo, "sqlframe/base/readerwriter.py")
    # core methods = decorated clause methods + helpers
    from translate import c01_facts
    decos = c01_facts.method_decorators(df_tree, "BaseDataFrame", "operation")
    gdecos = c01_facts.method_decorators(gr_tree, "_BaseGroupedData", "group_operation")
    # cache/persist are decorated (NO_OP) but are not relational operations of the C01..C08 alphabets; every engine package
    # with a connection replaces them by a warning no-op (NoCachePersistSupportMixin) -- they are not part of the core
    core_df = sorted(({m for m, k in decos.items() if k is not None} - {"cache", "persist"}) | set(CTE_HELPERS))
    core_group = sorted({m for m, k in gdecos.items() if k is not None} | set(GROUP_HELPERS))
    base_df_cls = py2v.find_class(df_tree, "BaseDataFrame")
    base_defs = set(class_defs_loose(base_df_cls))
    missing = [m for m in core_df if m not in base_defs]
    if missing:
        raise Untranslatable(f"core methods not defined by BaseDataFrame: {missing}")

    L = ["(* GENERATED from /repo on every run by translate/c12_facts.py -- do not edit *)",
         "From SF Require Import C12.Engines.", "From Coq Require Import Ascii.",
         "Open Scope string_scope.", "Open Scope list_scope.", ""]
    fl = listlit([f"({strlit(k)}, {coq_bool(v)})" for k, v in sorted(base["flags"].items())])
    L.append(f"Definition base_facts : bfacts := mkBfacts {fl} {coq_bool(base['sanitize'])} "
             f"{strlit(base['builder']['DEFAULT_INPUT_DIALECT'])} {strlit(base['builder']['DEFAULT_OUTPUT_DIALECT'])} "
             f"{strlit(base['builder']['DEFAULT_EXECUTION_DIALECT'])} "
             + listlit([f"({strlit(k)}, {strlit(v)})" for k, v in sorted(base["wiring"].items())]) + " "
             + listlit([f"({coq_char(a)}, {coq_char(b)})" for a, b in base["pairs"]]) + ".")
    L.append("Definition engine_facts (E : engine) : efacts := match E with")
    for e in ENGINES:
        f = eng[e]
        b = f["builder"]
        L.append(f"  | {CTOR[e]} => mkEfacts "
                 + listlit([f"({strlit(k)}, {coq_bool(v)})" for k, v in sorted(f['flags'].items())]) + " "
                 + coq_opt(f["sanitize"], coq_bool) + " "
                 + coq_opt(b.get("DEFAULT_INPUT_DIALECT"), strlit) + " " + coq_opt(b.get("DEFAULT_OUTPUT_DIALECT"), strlit) + " "
                 + coq_opt(b.get("DEFAULT_EXECUTION_DIALECT"), strlit) + "\n      "
                 + coq_strs(f["session_defs"]) + "\n      " + coq_strs(f["df_defs"]) + " " + coq_strs(f["group_defs"])
                 + " " + coq_strs(f["rebinds"]))
        facts.append({"name": f"engine_facts {e}", "from": f"sqlframe/{e}/session.py, dataframe.py, group.py",
                      "hash": f["hash"], "value": {"flags": f["flags"], "sanitize": f["sanitize"], "builder": b,
                                                   "session_defs": f["session_defs"], "df_defs": f["df_defs"],
                                                   "group_defs": f["group_defs"], "rebinds": f["rebinds"]}})
    L.append("  end.")
    L.append(f"Definition core_df : list string := {coq_strs(core_df)}.")
    L.append(f"Definition core_group : list string := {coq_strs(core_group)}.")
    facts.append({"name": "base_facts", "from": "sqlframe/base/session.py: _BaseSession", "hash": base["hash"],
                  "value": {k: base[k] for k in ("flags", "sanitize", "builder", "wiring", "pairs")}})
    facts.append({"name": "core_df", "from": "dataframe.py decorators + CTE helpers", "value": core_df})

    # ---- plumbing
    ts_from, ts_to = to_sql_facts(base["tree"])
    table, render, ns_hash = normalize_string_facts(repo)
    dfsql = dfsql_facts(df_tree)
    coll = py2v.find_method(base["tree"], "_BaseSession", "_collect")
    fdf = py2v.find_method(base["tree"], "_BaseSession", "_fetchdf")
    c_sites, c_names = sink_sites(coll, "_BaseSession._collect")
    f_sites, f_names = sink_sites(fdf, "_BaseSession._fetchdf")
    if c_names is None or f_names is not None:
        raise Untranslatable("_BaseSession._collect/_fetchdf: result-name path")
    if not c_sites or not f_sites:
        raise Untranslatable("_BaseSession._collect/_fetchdf: no execute site")
    cursor_of = {"base": execute_body_ok(py2v.find_method(base["tree"], "_BaseSession", "_execute"), "_BaseSession._execute")}
    coll_of, fdf_of, names_of = {}, {}, {}
    for e in ENGINES:
        scls = eng[e]["session_cls"]
        own = {n.name: n for n in scls.body if isinstance(n, ast.FunctionDef)}
        for forbidden in ("_to_sql", "_sanitize_column_name", "_optimize", "sql", "createDataFrame", "_normalize_string"):
            if forbidden in own:
                raise Untranslatable(f"{scls.name} overrides {forbidden}: not modelled")
        if "_execute" in own:
            cursor_of[e] = execute_body_ok(own["_execute"], f"{scls.name}._execute")
        for nm_, store in (("_collect", coll_of), ("_fetchdf", fdf_of)):
            if nm_ in own:
                sup = super_delegate(own[nm_], nm_)
                if sup is not None:
                    store[e] = "ISuper"
                    facts.append({"name": f"{e}.{nm_}", "value": {"delegates_to_super_forwarding": sup}})
                else:
                    sites, names = sink_sites(own[nm_], f"{scls.name}.{nm_}")
                    if not sites:
                        raise Untranslatable(f"{scls.name}.{nm_}: no execute site")
                    store[e] = "(IOwn " + listlit(sites) + ")"
                    if nm_ == "_collect":
                        if names is None:
                            raise Untranslatable(f"{scls.name}._collect: no result-name path")
                        names_of[e] = names
                    facts.append({"name": f"{e}.{nm_}", "value": {"sites": sites, "names": names}})

    def names_coq(n):
        return f"({n[0]}, {strlit(n[1])}, {strlit(n[2])})"

    # action summaries over each engine's MRO
    writer_cls = py2v.find_class(rw_tree, "_BaseDataFrameWriter")
    L.append("Definition actions (E : engine) : list (string * list call) := match E with")
    action_fact = {}
    for e in ENGINES:
        mro = eng[e]["df_mro"] + [base_df_cls]
        rows = []
        for a in ACTIONS:
            if a in ("saveAsTable", "insertInto"):
                wt, _ = _load(repo, f"sqlframe/{e}/readwriter.py")
                wc = py2v.find_class(wt, WRITER_CLASS[e])
                owner, fn = find_in_mro([wc, writer_cls], a)
            else:
                owner, fn = find_in_mro(mro, a)
            if fn is None:
                raise Untranslatable(f"{e}: action {a} not found")
            summ = action_summary(fn, "dataframe")
            rows.append((a, owner, summ))
        L.append(f"  | {CTOR[e]} => [" + ";\n      ".join(
            f"({strlit(a)}, {listlit(summ)})" for a, _, summ in rows) + "]")
        action_fact[e] = {a: {"defined_in": o, "calls": s} for a, o, s in rows}
    L.append("  end.")
    facts.append({"name": "actions", "from": "base/dataframe.py, base/readerwriter.py, <engine>/dataframe.py, mixins",
                  "value": action_fact})

    def per_engine(name, ty, d, default="None"):
        L.append(f"Definition {name} (E : engine) : {ty} := match E with")
        for e in ENGINES:
            L.append(f"  | {CTOR[e]} => {('Some ' + d[e]) if e in d else default}")
        L.append("  end.")

    per_engine("collect_of", "option impl", coll_of)
    per_engine("fetchdf_of", "option impl", fdf_of)
    per_engine("names_of_engine", "option (dexp * string * string)", {e: names_coq(n) for e, n in names_of.items()})
    tfacts = time_facts(base["tree"])
    L.append("Definition time_facts : list (string * dexp) := " + listlit([f"({strlit(k)}, {v})" for k, v in tfacts]) + ".")
    facts.append({"name": "time_facts", "from": "base/session.py: default_time_format, format_time, format_execution_time", "value": tfacts})
    L.append("Definition plumbing_facts : pfacts := mkPfacts " + " ".join([
        ts_from, ts_to, render, dfsql,
        listlit([f"({strlit(k)}, {v})" for k, v in table]),
        listlit(c_sites), listlit(f_sites), names_coq(c_names),
        "collect_of", "fetchdf_of", "names_of_engine", "actions"]) + ".")
    facts += [
        {"name": "_to_sql", "from": "base/session.py", "value": {"from_dialect": ts_from, "to_dialect": ts_to}},
        {"name": "normalize_string", "from": "base/util.py", "hash": ns_hash, "value": {"str_to_dialect": table, "renders_with": render}},
        {"name": "df.sql dialect", "value": dfsql},
        {"name": "_collect sites", "value": c_sites}, {"name": "_fetchdf sites", "value": f_sites},
        {"name": "result names", "value": c_names}, {"name": "cursor call of _execute", "value": cursor_of},
    ]

    # ---- functions
    ftable, flag_reads, sensitive = function_table(repo)
    filters = {e: engine_filter(repo, e) for e in ENGINES}
    module_by, reject_by, d_hash = dispatch_facts(repo)
    L.append("Definition fn_table : list (string * option (list string)) := [")
    L.append(";\n".join(f"  ({strlit(n)}, {coq_opt(u, coq_strs)})" for n, u in sorted(ftable.items())))
    L.append("].")
    L.append("Definition fn_filter (E : engine) : option (list string) := match E with")
    for e in ENGINES:
        L.append(f"  | {CTOR[e]} => {coq_opt(filters[e], coq_strs)}")
    L.append("  end.")
    L.append(f"Definition func_facts : ffacts := mkFfacts fn_table fn_filter {module_by} {reject_by}.")
    facts += [
        {"name": "fn_table", "from": "base/functions.py", "value": {"functions": len(ftable),
                                                                    "with_meta": sum(1 for u in ftable.values() if u is not None)}},
        {"name": "fn_filter", "from": "<engine>/functions.py", "value": filters},
        {"name": "get_func_from_session", "hash": d_hash, "value": {"module_by": module_by, "reject_by": reject_by}},
        {"name": "_is_<engine> reads in base/functions.py", "value": flag_reads},
        {"name": "engine-sensitive functions (read the session / an alternative / another dispatched function)", "value": len(sensitive)},
    ]
    info = {"functions": ftable, "filters": filters, "engines": {e: {k: v for k, v in eng[e].items()
                                                                  if k in ("flags", "sanitize", "builder")} for e in ENGINES},
            "sensitive": sensitive, "pairs": base["pairs"], "base": {k: base[k] for k in ("flags", "sanitize", "builder")},
            "actions": action_fact}
    return "\n".join(L) + "\n", facts, info


def class_defs_loose(cls: ast.ClassDef) -> list:
    out = []
    for st in cls.body:
        if isinstance(st, (ast.FunctionDef, ast.ClassDef)):
            out.append(st.name)
        elif isinstance(st, ast.Assign):
            out += [t.id for t in st.targets if isinstance(t, ast.Name)]
        elif isinstance(st, ast.AnnAssign) and isinstance(st.target, ast.Name):
            out.append(st.target.id)
    return out


if __name__ == "__main__":
    import sys
    text, facts, info = generate(sys.argv[1] if len(sys.argv) > 1 else "/repo")
    print(text[:6000])
