"""T1 for C06: regenerate the aggregation facts from /repo (fail-closed; an unknown shape raises Untranslatable).

  group.py      _get_function_applied_columns : the naming f-string, .lower(), the sanitiser call, getattr(F, fn)
                agg                           : dict form (key = column), GROUP BY on x.column_expression,
                                                every .select(...) has append=False and lists keys before aggregates,
                                                GROUPING SETS built from x.column_expression
                count / avg / mean / max / min / sum : literal handed over, count("*").alias("count")
  dataframe.py  agg  = self.groupBy().agg(*cols);  decorators of groupBy / cube / agg
                cube : for i in <index expr>: extend(combinations(columns, i))   -> cube_idx
  session.py    _sanitize_column_name (identity unless SANITIZE_COLUMN_NAMES), the flag of DuckDBSession
  functions.py  count / sum / avg / mean / min / max / count_distinct -> sqlglot aggregate class
The wrapper predicate, INIT flag and decorator of GroupedData.agg come from translate/c01_facts.py (Gen.C01Facts).
"""
from __future__ import annotations

import ast
import os

from vlib import py2v
from vlib.core import strlit
from vlib.py2v import Untranslatable, dotted

OPK = ["INIT", "NO_OP", "FROM", "WHERE", "GROUP_BY", "HAVING", "SELECT", "ORDER_BY", "LIMIT"]
SHORT = {"avg": "ShAvg", "mean": "ShMean", "max": "ShMax", "min": "ShMin", "sum": "ShSum"}


def _norm(f):
    """the function without docstrings, annotations, typing.cast, `pass` and logging statements (vlib.py2v.normalize_func);
    local names are kept, the matchers below refer to them"""
    return py2v.normalize_func(f, rename_locals=False)


def _body(f):
    """statements without docstrings and local imports"""
    return [s for s in f.body if not (isinstance(s, ast.Expr) and isinstance(s.value, ast.Constant))
            and not isinstance(s, (ast.Import, ast.ImportFrom))]


def _imports_functions_as_F(f) -> bool:
    for s in f.body:
        if isinstance(s, ast.ImportFrom) and s.module == "sqlframe.base" and any(
                a.name == "functions" and a.asname == "F" for a in s.names):
            return True
    return False


def _bool_kw(call, name, default):
    for kw in call.keywords:
        if kw.arg == name:
            if isinstance(kw.value, ast.Constant) and isinstance(kw.value.value, bool):
                return kw.value.value
            raise Untranslatable(f"{name}= is not a boolean literal")
    return default


def _single_listcomp(node, what):
    if not (isinstance(node, ast.ListComp) and len(node.generators) == 1 and not node.generators[0].ifs
            and not node.generators[0].is_async):
        raise Untranslatable(f"{what}: not a plain list comprehension")
    return node.elt, node.generators[0].target, node.generators[0].iter


# ---- group.py ----------------------------------------------------------------------------------------

def _str_atom(n):
    if isinstance(n, ast.Constant) and isinstance(n.value, str):
        return strlit(n.value)
    if dotted(n) in ("func_name", "name"):
        return dotted(n)
    raise Untranslatable("naming: string atom " + ast.dump(n)[:60])


def _str_cond(n):
    """<atom> if <name> == <lit> else <atom>  -> Coq string term"""
    t = n.test
    if not (isinstance(t, ast.Compare) and len(t.ops) == 1 and isinstance(t.ops[0], ast.Eq)):
        raise Untranslatable("naming: condition inside the f-string is not an equality")
    return f"(if String.eqb {_str_atom(t.left)} {_str_atom(t.comparators[0])} then {_str_atom(n.body)} else {_str_atom(n.orelse)})"


def naming(gr_tree, gr_src):
    f = _norm(py2v.find_method(gr_tree, "_BaseGroupedData", "_get_function_applied_columns"))
    if [a.arg for a in f.args.args] != ["self", "func_name", "cols"]:
        raise Untranslatable("_get_function_applied_columns: parameters changed")
    if not _imports_functions_as_F(f):
        raise Untranslatable("_get_function_applied_columns: `from sqlframe.base import functions as F` not found")
    body = _body(f)
    lowers = False
    if len(body) >= 2 and isinstance(body[0], ast.Assign):
        s = body[0]
        ok = (dotted(s.targets[0]) == "func_name" and isinstance(s.value, ast.Call)
              and dotted(s.value.func) == "func_name.lower" and not s.value.args)
        if not ok:
            raise Untranslatable("_get_function_applied_columns: first statement is not func_name = func_name.lower()")
        lowers = True
        body = body[1:]
    canon = "func_name"
    if len(body) == 2:
        # if func_name == <lit>: func_name = <lit>      (PySpark displays mean as avg)
        c = body[0]
        ok = (isinstance(c, ast.If) and not c.orelse and len(c.body) == 1 and isinstance(c.test, ast.Compare)
              and len(c.test.ops) == 1 and isinstance(c.test.ops[0], ast.Eq) and dotted(c.test.left) == "func_name"
              and isinstance(c.test.comparators[0], ast.Constant) and isinstance(c.test.comparators[0].value, str)
              and isinstance(c.body[0], ast.Assign) and dotted(c.body[0].targets[0]) == "func_name"
              and isinstance(c.body[0].value, ast.Constant) and isinstance(c.body[0].value.value, str))
        if not ok:
            raise Untranslatable("_get_function_applied_columns: statement before the return is not `if func_name == <lit>: func_name = <lit>`")
        canon = f"(if String.eqb func_name {strlit(c.test.comparators[0].value)} then {strlit(c.body[0].value.value)} else func_name)"
        body = body[1:]
    if len(body) != 1 or not isinstance(body[0], ast.Return):
        raise Untranslatable("_get_function_applied_columns: body shape changed")
    elt, tgt, it = _single_listcomp(body[0].value, "_get_function_applied_columns")
    if dotted(tgt) != "name" or dotted(it) != "cols":
        raise Untranslatable("_get_function_applied_columns: comprehension is not `for name in cols`")
    # getattr(F, func_name)(name).alias(<name expr>)
    if not (isinstance(elt, ast.Call) and isinstance(elt.func, ast.Attribute) and elt.func.attr == "alias"
            and len(elt.args) == 1 and not elt.keywords):
        raise Untranslatable("_get_function_applied_columns: element is not <call>.alias(<name>)")
    inner = elt.func.value
    ok = (isinstance(inner, ast.Call) and len(inner.args) == 1 and dotted(inner.args[0]) == "name" and not inner.keywords
          and isinstance(inner.func, ast.Call) and dotted(inner.func.func) == "getattr" and len(inner.func.args) == 2
          and dotted(inner.func.args[0]) == "F" and dotted(inner.func.args[1]) == "func_name")
    if not ok:
        raise Untranslatable("_get_function_applied_columns: aggregate is not getattr(F, func_name)(name)")
    name_e = elt.args[0]
    through = False
    if isinstance(name_e, ast.Call) and dotted(name_e.func) == "self.session._sanitize_column_name" \
            and len(name_e.args) == 1 and not name_e.keywords:
        through = True
        name_e = name_e.args[0]
    if not isinstance(name_e, ast.JoinedStr):
        raise Untranslatable("_get_function_applied_columns: alias is not an f-string")
    parts = []
    for v in name_e.values:
        if isinstance(v, ast.Constant) and isinstance(v.value, str):
            parts.append(strlit(v.value))
        elif isinstance(v, ast.FormattedValue) and v.conversion == -1 and v.format_spec is None \
                and dotted(v.value) in ("func_name", "name"):
            parts.append(dotted(v.value))
        elif isinstance(v, ast.FormattedValue) and v.conversion == -1 and v.format_spec is None \
                and isinstance(v.value, ast.IfExp):
            parts.append(_str_cond(v.value))
        else:
            raise Untranslatable("_get_function_applied_columns: f-string piece " + ast.dump(v)[:80])
    term = '""%string'
    for p in reversed(parts):
        term = f"(sapp {p} {term})"
    return {"fmt": term, "canon": canon, "lowers": lowers, "through": through, "hash": py2v.norm_hash(f, rename_locals=False),
            "text": ast.unparse(name_e)}


def agg_facts(gr_tree, gr_src):
    f = _norm(py2v.find_method(gr_tree, "_BaseGroupedData", "agg"))
    out = {"hash": py2v.norm_hash(f, rename_locals=False)}
    # dict form
    # `columns = (<dict form> if isinstance(exprs[0], dict) else exprs)` or the same as an if/else statement
    t = dict_value = other_value = None
    for s in f.body:
        if isinstance(s, ast.Assign) and dotted(s.targets[0]) == "columns" and isinstance(s.value, ast.IfExp):
            t, dict_value, other_value = s.value.test, s.value.body, s.value.orelse
        elif isinstance(s, ast.If) and len(s.body) == 1 and len(s.orelse) == 1 \
                and all(isinstance(x, (ast.Assign, ast.AnnAssign)) and dotted(x.targets[0] if isinstance(x, ast.Assign) else x.target) == "columns"
                        for x in (s.body[0], s.orelse[0])):
            t, dict_value, other_value = s.test, s.body[0].value, s.orelse[0].value
    if t is None:
        raise Untranslatable("agg: `columns = (... if isinstance(exprs[0], dict) else exprs)` (or the if/else statement) not found")
    ok = (isinstance(t, ast.Call) and dotted(t.func) == "isinstance" and len(t.args) == 2 and dotted(t.args[1]) == "dict"
          and isinstance(t.args[0], ast.Subscript) and dotted(t.args[0].value) == "exprs"
          and isinstance(t.args[0].slice, ast.Constant) and t.args[0].slice.value == 0)
    if not ok or dotted(other_value) != "exprs":
        raise Untranslatable("agg: dict test / non-dict branch changed")
    elt, tgt, it = _single_listcomp(dict_value, "agg dict form")
    ok = (isinstance(it, ast.Call) and isinstance(it.func, ast.Attribute) and it.func.attr == "items" and not it.args
          and isinstance(it.func.value, ast.Subscript) and dotted(it.func.value.value) == "exprs"
          and isinstance(tgt, ast.Tuple) and len(tgt.elts) == 2 and all(isinstance(x, ast.Name) for x in tgt.elts))
    if not ok:
        raise Untranslatable("agg dict form: not `for k, v in exprs[0].items()`")
    key_name, val_name = tgt.elts[0].id, tgt.elts[1].id
    ok = (isinstance(elt, ast.Subscript) and isinstance(elt.slice, ast.Constant) and elt.slice.value == 0
          and isinstance(elt.value, ast.Call) and dotted(elt.value.func) == "self._get_function_applied_columns"
          and len(elt.value.args) == 2 and isinstance(elt.value.args[1], ast.Tuple) and len(elt.value.args[1].elts) == 1)
    if not ok:
        raise Untranslatable("agg dict form: element is not self._get_function_applied_columns(fn, (col,))[0]")
    fn_arg, col_arg = dotted(elt.value.args[0]), dotted(elt.value.args[1].elts[0])
    if (fn_arg, col_arg) == (val_name, key_name):
        out["dict_key_is_col"] = True
    elif (fn_arg, col_arg) == (key_name, val_name):
        out["dict_key_is_col"] = False
    else:
        raise Untranslatable("agg dict form: arguments are not the dict's key and value")
    # cols = self._df._ensure_and_normalize_cols(columns)
    if not any(isinstance(s, ast.Assign) and dotted(s.targets[0]) == "cols" and isinstance(s.value, ast.Call)
               and dotted(s.value.func) == "self._df._ensure_and_normalize_cols" and len(s.value.args) == 1
               and dotted(s.value.args[0]) == "columns" for s in f.body):
        raise Untranslatable("agg: cols = self._df._ensure_and_normalize_cols(columns) not found")
    # GROUP BY
    gb = [n for n in ast.walk(f) if isinstance(n, ast.Call) and isinstance(n.func, ast.Attribute) and n.func.attr == "group_by"]
    if len(gb) != 1 or len(gb[0].args) != 1 or not isinstance(gb[0].args[0], ast.Starred) or gb[0].keywords:
        raise Untranslatable("agg: expected exactly one .group_by(*[...]) call")
    if dotted(gb[0].func.value) != "self._df.expression":
        raise Untranslatable("agg: group_by is not applied to self._df.expression")
    elt, tgt, it = _single_listcomp(gb[0].args[0].value, "agg group_by")
    if not (isinstance(elt, ast.Attribute) and dotted(elt.value) == dotted(tgt) and dotted(it) == "self.group_by_cols"):
        raise Untranslatable("agg: group_by argument is not [x.<attr> for x in self.group_by_cols]")
    if elt.attr not in ("column_expression", "expression"):
        raise Untranslatable(f"agg: group_by uses x.{elt.attr}")
    out["group_unaliased"] = elt.attr == "column_expression"
    # every .select(...)
    sels = [n for n in ast.walk(f) if isinstance(n, ast.Call) and isinstance(n.func, ast.Attribute) and n.func.attr == "select"]
    if not sels:
        raise Untranslatable("agg: no .select(...) call")
    append = False
    keys_first = True
    for sc in sels:
        append = append or _bool_kw(sc, "append", True)   # sqlglot's default is append=True
        if len(sc.args) != 1 or not isinstance(sc.args[0], ast.Starred):
            raise Untranslatable("agg: .select argument is not *[...]")
        elt, tgt, it = _single_listcomp(sc.args[0].value, "agg select")
        if not (isinstance(elt, ast.Attribute) and elt.attr == "expression" and dotted(elt.value) == dotted(tgt)):
            raise Untranslatable("agg: select list is not [x.expression for x in ...]")
        if not (isinstance(it, ast.BinOp) and isinstance(it.op, ast.Add)):
            raise Untranslatable("agg: select list is not <keys> + <aggregates>")
        l, r = dotted(it.left), dotted(it.right)
        if l in ("self.group_by_cols", "group_by_cols") and r == "cols":
            pass
        elif r in ("self.group_by_cols", "group_by_cols") and l == "cols":
            keys_first = False
        else:
            raise Untranslatable(f"agg: select list is {l} + {r}")
    out["append"] = append
    out["keys_first"] = keys_first
    # the last statement returns a copy carrying the final select
    last = f.body[-1]
    ok = (isinstance(last, ast.Return) and isinstance(last.value, ast.Call) and dotted(last.value.func) == "self._df.copy"
          and len(last.value.keywords) == 1 and last.value.keywords[0].arg == "expression"
          and dotted(last.value.keywords[0].value) == "expression")
    if not ok:
        raise Untranslatable("agg: does not end in return self._df.copy(expression=expression)")
    # GROUPING SETS branch
    tuples = [n for n in ast.walk(f) if isinstance(n, ast.Call) and dotted(n.func) == "exp.Tuple"]
    if len(tuples) != 1 or len(tuples[0].keywords) != 1 or tuples[0].keywords[0].arg != "expressions":
        raise Untranslatable("agg: grouping-set tuple construction changed")
    elt, tgt, it = _single_listcomp(tuples[0].keywords[0].value, "agg grouping set")
    if not (isinstance(elt, ast.Attribute) and dotted(elt.value) == dotted(tgt) and dotted(it) == "grouping_set"
            and elt.attr in ("column_expression", "expression")):
        raise Untranslatable("agg: grouping-set tuple is not [x.<attr> for x in grouping_set]")
    out["sets_unaliased"] = elt.attr == "column_expression"
    # one tuple per element of self.group_by_cols, in order: a for loop appending them, or a list comprehension
    loops = [n for n in ast.walk(f) if isinstance(n, ast.For) and dotted(n.target) == "grouping_set"
             and any(x is tuples[0] for x in ast.walk(n))]
    comps = [n for n in ast.walk(f) if isinstance(n, ast.ListComp) and n.elt is tuples[0] and len(n.generators) == 1
             and not n.generators[0].ifs and dotted(n.generators[0].target) == "grouping_set"]
    srcs = [dotted(n.iter) for n in loops] + [dotted(n.generators[0].iter) for n in comps]
    if srcs != ["self.group_by_cols"]:
        raise Untranslatable("agg: grouping sets are not taken from self.group_by_cols in order")
    # the branch: grouping sets iff self.group_by_cols is non-empty and its first element is a list/tuple/set
    brs = [n for n in ast.walk(f) if isinstance(n, ast.If) and n.orelse and any(x is tuples[0] for x in ast.walk(n))]
    if len(brs) != 1:
        raise Untranslatable("agg: the plain / grouping-sets branch was not found")
    br = brs[0]
    sets_in_body = any(x is tuples[0] for y in br.body for x in ast.walk(y))
    plain_suite = br.orelse if sets_in_body else br.body
    if not any(x is gb[0] for y in plain_suite for x in ast.walk(y)):
        raise Untranslatable("agg: .group_by(...) is not in the branch opposite to the grouping sets")
    test = br.test
    if isinstance(test, ast.Name):       # a named condition assigned once before the `if`
        defs = [x for x in f.body if isinstance(x, (ast.Assign, ast.AnnAssign))
                and dotted(x.targets[0] if isinstance(x, ast.Assign) else x.target) == test.id]
        if len(defs) != 1:
            raise Untranslatable("agg: branch condition variable is not assigned exactly once")
        test = defs[0].value
    for nonempty in (False, True):
        for is_list in (False, True):
            if _cond_eval(test, nonempty, is_list) != ((nonempty and is_list) == sets_in_body):
                raise Untranslatable("agg: the plain / grouping-sets condition changed")
    src = ast.unparse(f)
    if "exp.Group(grouping_sets=[exp.GroupingSets(expressions=all_grouping_sets)])" not in src \
            or "expression.set('group', group_by)" not in src:
        raise Untranslatable("agg: GROUP BY GROUPING SETS construction changed")
    # HAVING COUNT(*) > 0 on the GROUPING SETS block (the repair of C06/cube-on-empty-input-grand-total-row)
    hv = [n for n in ast.walk(f) if isinstance(n, ast.Call) and dotted(n.func) in ("expression.set", "expression.having")
          and n.args and isinstance(n.args[0], ast.Constant) and n.args[0].value == "having"]
    hv += [n for n in ast.walk(f) if isinstance(n, ast.Call) and isinstance(n.func, ast.Attribute) and n.func.attr == "having"]
    if not hv:
        out["cube_having"] = False
    else:
        want = "exp.Having(this=exp.GT(this=exp.Count(this=exp.Star()), expression=exp.Literal.number(0)))"
        ok = (len(hv) == 1 and dotted(hv[0].func) == "expression.set" and len(hv[0].args) == 2
              and ast.unparse(hv[0].args[1]) == want)
        # it must sit in the grouping-sets branch, next to expression.set("group", group_by)
        sets_suite = br.body if sets_in_body else br.orelse
        in_branch = any(x is hv[0] for y in sets_suite for x in ast.walk(y))
        if not (ok and in_branch):
            raise Untranslatable("agg: a HAVING clause of another shape / in another place than the grouping-sets branch")
        out["cube_having"] = True
    out["gid_guard"] = gid_guard(f)
    return out


def _cond_eval(n, nonempty: bool, is_list: bool) -> bool:
    """truth value of the branch condition given: self.group_by_cols is non-empty / its first element is a list-like"""
    if isinstance(n, ast.BoolOp):
        vals = [_cond_eval(v, nonempty, is_list) for v in n.values]
        return all(vals) if isinstance(n.op, ast.And) else any(vals)
    if isinstance(n, ast.UnaryOp) and isinstance(n.op, ast.Not):
        return not _cond_eval(n.operand, nonempty, is_list)
    if isinstance(n, ast.Call) and dotted(n.func) == "bool" and len(n.args) == 1 and not n.keywords:
        return _cond_eval(n.args[0], nonempty, is_list)
    if dotted(n) == "self.group_by_cols":
        return nonempty
    if isinstance(n, ast.Call) and dotted(n.func) == "isinstance" and len(n.args) == 2 \
            and isinstance(n.args[0], ast.Subscript) and dotted(n.args[0].value) == "self.group_by_cols" \
            and isinstance(n.args[0].slice, ast.Constant) and n.args[0].slice.value == 0 \
            and isinstance(n.args[1], ast.Tuple) and sorted(dotted(e) or "?" for e in n.args[1].elts) == ["list", "set", "tuple"]:
        return is_list
    raise Untranslatable("agg: branch condition atom " + ast.dump(n)[:80])


def gid_guard(f):
    """the GROUPING_ID expansion loop:  for col in cols: [v = col.column_expression]; if <guard>: <E>.set("expressions", [x.expression for x in group_by_cols])
    -> Coq bool term over `is_gid` (the aggregate is grouping_id) and `old_empty` (its argument list is still empty)"""
    loops = [n for n in ast.walk(f) if isinstance(n, ast.For) and dotted(n.target) == "col" and dotted(n.iter) == "cols"]
    if len(loops) != 1 or loops[0].orelse:
        raise Untranslatable("agg: expected exactly one `for col in cols:` loop (GROUPING_ID expansion)")
    names = {"col.column_expression"}
    body = [st for st in loops[0].body if not (isinstance(st, ast.Expr) and isinstance(st.value, ast.Constant))]
    while body and isinstance(body[0], ast.Assign) and len(body[0].targets) == 1 and isinstance(body[0].targets[0], ast.Name) \
            and dotted(body[0].value) in names:
        names.add(body[0].targets[0].id)
        body = body[1:]
    if len(body) != 1 or not isinstance(body[0], ast.If) or body[0].orelse or len(body[0].body) != 1:
        raise Untranslatable("agg: GROUPING_ID loop body is not a single `if`")
    st = body[0].body[0]
    ok = (isinstance(st, ast.Expr) and isinstance(st.value, ast.Call) and isinstance(st.value.func, ast.Attribute)
          and st.value.func.attr == "set" and dotted(st.value.func.value) in names and len(st.value.args) == 2
          and isinstance(st.value.args[0], ast.Constant) and st.value.args[0].value == "expressions")
    if ok:
        elt, tgt, it = _single_listcomp(st.value.args[1], "GROUPING_ID expansion")
        # x.expression copies the keys with their aliases (listed finding C06/grouping_id-with-aliased-cube-key-raises);
        # x.column_expression is its repair -- the model takes the un-aliased keys
        ok = isinstance(elt, ast.Attribute) and elt.attr in ("expression", "column_expression") \
            and dotted(elt.value) == dotted(tgt) and dotted(it) == "group_by_cols"
    if not ok:
        raise Untranslatable('agg: GROUPING_ID expansion is not <col expr>.set("expressions", [x.expression for x in group_by_cols])')

    def tr(n):
        if isinstance(n, ast.BoolOp) and isinstance(n.op, ast.And):
            parts = [tr(v) for v in n.values]
            acc = parts[-1]
            for q in reversed(parts[:-1]):
                acc = f"(andb {q} {acc})"
            return acc
        if isinstance(n, ast.BoolOp) and isinstance(n.op, ast.Or):
            parts = [tr(v) for v in n.values]
            acc = parts[-1]
            for q in reversed(parts[:-1]):
                acc = f"(orb {q} {acc})"
            return acc
        if isinstance(n, ast.Compare) and len(n.ops) == 1 and isinstance(n.ops[0], ast.Eq) and isinstance(n.left, ast.Attribute) \
                and n.left.attr == "this" and dotted(n.left.value) in names and isinstance(n.comparators[0], ast.Constant) \
                and n.comparators[0].value == "GROUPING_ID":
            return "is_gid"
        if isinstance(n, ast.UnaryOp) and isinstance(n.op, ast.Not) and isinstance(n.operand, ast.Attribute) \
                and n.operand.attr == "expressions" and dotted(n.operand.value) in names:
            return "old_empty"
        if isinstance(n, ast.Attribute) and n.attr == "expressions" and dotted(n.value) in names:
            return "(negb old_empty)"
        raise Untranslatable("agg: GROUPING_ID guard: " + ast.dump(n)[:100])

    return tr(body[0].test)


def shortcuts(gr_tree):
    lits = {}
    for m in ("avg", "max", "min", "sum", "mean"):
        f = _norm(py2v.find_method(gr_tree, "_BaseGroupedData", m))
        body = _body(f)
        if len(body) != 1 or not isinstance(body[0], ast.Return) or not isinstance(body[0].value, ast.Call):
            raise Untranslatable(f"GroupedData.{m}: body shape changed")
        call = body[0].value
        if len(call.args) != 1 or not isinstance(call.args[0], ast.Starred) or call.keywords:
            raise Untranslatable(f"GroupedData.{m}: call shape changed")
        inner = call.args[0].value
        if dotted(call.func) == "self.agg" and isinstance(inner, ast.Call) \
                and dotted(inner.func) == "self._get_function_applied_columns" and len(inner.args) == 2 \
                and isinstance(inner.args[0], ast.Constant) and isinstance(inner.args[0].value, str) \
                and dotted(inner.args[1]) == "cols":
            lits[m] = ("lit", inner.args[0].value)
        elif dotted(call.func) in ("self.avg", "self.max", "self.min", "self.sum", "self.mean") and dotted(inner) == "cols":
            lits[m] = ("via", dotted(call.func).split(".")[1])
        else:
            raise Untranslatable(f"GroupedData.{m}: neither self.agg(*self._get_function_applied_columns(<lit>, cols)) nor a delegation")
    res = {}
    for m in lits:
        seen = set()
        cur = m
        while lits[cur][0] == "via":
            if cur in seen:
                raise Untranslatable(f"GroupedData.{m}: delegation cycle")
            seen.add(cur)
            cur = lits[cur][1]
        res[m] = lits[cur][1]
    # count
    f = _norm(py2v.find_method(gr_tree, "_BaseGroupedData", "count"))
    if not _imports_functions_as_F(f):
        raise Untranslatable("GroupedData.count: functions not imported as F")
    body = _body(f)
    ok = len(body) == 1 and isinstance(body[0], ast.Return) and isinstance(body[0].value, ast.Call) \
        and dotted(body[0].value.func) == "self.agg" and len(body[0].value.args) == 1 and not body[0].value.keywords
    if not ok:
        raise Untranslatable("GroupedData.count: body shape changed")
    a = body[0].value.args[0]
    ok = (isinstance(a, ast.Call) and isinstance(a.func, ast.Attribute) and a.func.attr == "alias" and len(a.args) == 1
          and isinstance(a.args[0], ast.Constant) and isinstance(a.args[0].value, str)
          and isinstance(a.func.value, ast.Call) and dotted(a.func.value.func) == "F.count" and len(a.func.value.args) == 1
          and isinstance(a.func.value.args[0], ast.Constant) and isinstance(a.func.value.args[0].value, str))
    if not ok:
        raise Untranslatable('GroupedData.count: not self.agg(F.count(<lit>).alias(<lit>))')
    return res, a.func.value.args[0].value, a.args[0].value


# ---- dataframe.py ------------------------------------------------------------------------------------

def decorator_of(df_tree, name):
    cls = py2v.find_class(df_tree, "BaseDataFrame")
    kind = "absent"
    for st in cls.body:
        if isinstance(st, ast.FunctionDef) and st.name == name:
            k = None
            for d in st.decorator_list:
                if isinstance(d, ast.Call) and dotted(d.func) == "operation" and len(d.args) == 1:
                    k = dotted(d.args[0])
                    if not k or not k.startswith("Operation.") or k.split(".")[1] not in OPK:
                        raise Untranslatable(f"decorator argument of {name}: {k}")
                    k = k.split(".")[1]
                elif dotted(d) in ("t.overload", "overload") or (isinstance(d, ast.Attribute) and d.attr == "overload"):
                    k = "overload"
                else:
                    raise Untranslatable(f"unknown decorator on {name}")
            if k == "overload":
                continue
            kind = k
    if kind == "absent":
        raise Untranslatable(f"method {name} not found")
    return kind


def _last_def(df_tree, name):
    cls = py2v.find_class(df_tree, "BaseDataFrame")
    f = None
    for st in cls.body:
        if isinstance(st, ast.FunctionDef) and st.name == name and not any(
                (isinstance(d, ast.Attribute) and d.attr == "overload") for d in st.decorator_list):
            f = st
    if f is None:
        raise Untranslatable(f"BaseDataFrame.{name} not found")
    return f


def _is_dict_delegation(s) -> bool:
    """if <...> isinstance(exprs[0], dict): return self.groupBy().agg(exprs[0])"""
    if not (isinstance(s, ast.If) and not s.orelse and len(s.body) == 1 and isinstance(s.body[0], ast.Return)):
        return False
    tests = [n for n in ast.walk(s.test) if isinstance(n, ast.Call) and dotted(n.func) == "isinstance"
             and len(n.args) == 2 and dotted(n.args[1]) == "dict"]
    r = s.body[0].value
    ok = (isinstance(r, ast.Call) and isinstance(r.func, ast.Attribute) and r.func.attr == "agg"
          and isinstance(r.func.value, ast.Call) and dotted(r.func.value.func) == "self.groupBy" and not r.func.value.args
          and len(r.args) == 1 and isinstance(r.args[0], ast.Subscript) and dotted(r.args[0].value) == "exprs")
    return bool(tests) and ok


def dfagg_shape(df_tree):
    f = _norm(_last_def(df_tree, "agg"))
    body = _body(f)
    if not body or not isinstance(body[-1], ast.Return):
        raise Untranslatable("DataFrame.agg: no final return")
    r = body[-1].value
    ok = (isinstance(r, ast.Call) and isinstance(r.func, ast.Attribute) and r.func.attr == "agg"
          and isinstance(r.func.value, ast.Call) and dotted(r.func.value.func) == "self.groupBy"
          and not r.func.value.args and not r.func.value.keywords
          and len(r.args) == 1 and isinstance(r.args[0], ast.Starred) and dotted(r.args[0].value) == "cols" and not r.keywords)
    if not ok:
        raise Untranslatable("DataFrame.agg: does not return self.groupBy().agg(*cols)")
    ok = any(isinstance(s, ast.Assign) and dotted(s.targets[0]) == "cols" and isinstance(s.value, ast.Call)
             and dotted(s.value.func) == "self._ensure_and_normalize_cols" and len(s.value.args) == 1
             and dotted(s.value.args[0]) == "exprs" for s in body[:-1])
    if not ok:
        raise Untranslatable("DataFrame.agg: cols is not self._ensure_and_normalize_cols(exprs)")
    for s in body[:-1]:
        if isinstance(s, ast.Assign) and dotted(s.targets[0]) == "cols":
            continue
        if _is_dict_delegation(s):      # the repair of C06/DataFrame.agg-dict-raises
            continue
        if isinstance(s, ast.Assign) and len(s.targets) == 1 and dotted(s.targets[0]) == "self" \
                and isinstance(s.value, ast.Call) and dotted(s.value.func) == "self.copy" \
                and not s.value.args and not s.value.keywords:
            continue                    # self = self.copy(): display names are recorded on a copy (no-op for the SQL built)
        if isinstance(s, ast.Expr) and isinstance(s.value, ast.Call) and dotted(s.value.func) == "self._update_display_name_mapping":
            continue
        raise Untranslatable("DataFrame.agg: unexpected statement " + type(s).__name__)
    return True


def groupby_shape(df_tree):
    f = _norm(_last_def(df_tree, "groupBy"))
    body = _body(f)
    r = body[-1]
    ok = (isinstance(r, ast.Return) and isinstance(r.value, ast.Call) and dotted(r.value.func) == "self._group_data"
          and [dotted(a) for a in r.value.args] == ["self", "columns", "self.last_op"])
    if not ok:
        raise Untranslatable("groupBy: does not return self._group_data(self, columns, self.last_op)")
    return True


def nat_expr(n, var="columns"):
    """Python int expression over len(<var>) -> Coq nat term over n"""
    if isinstance(n, ast.Constant) and isinstance(n.value, int) and not isinstance(n.value, bool) and 0 <= n.value < 100:
        return f"{n.value}%nat"
    if isinstance(n, ast.Call) and dotted(n.func) == "len" and len(n.args) == 1 and dotted(n.args[0]) == var:
        return "n"
    if isinstance(n, ast.BinOp) and isinstance(n.op, ast.Add):
        return f"({nat_expr(n.left, var)} + {nat_expr(n.right, var)})%nat"
    raise Untranslatable("cube: index bound " + ast.dump(n)[:80])


def idx_expr(n):
    """range/reversed expression -> Coq `list nat` term over n"""
    if isinstance(n, ast.Call) and dotted(n.func) == "reversed" and len(n.args) == 1 and not n.keywords:
        return f"(rev {idx_expr(n.args[0])})"
    if isinstance(n, ast.Call) and dotted(n.func) == "range" and not n.keywords:
        if len(n.args) == 1:
            return f"(seq 0 {nat_expr(n.args[0])})"
        if len(n.args) == 2:
            a, b = nat_expr(n.args[0]), nat_expr(n.args[1])
            return f"(seq {a} ({b} - {a}))"
    raise Untranslatable("cube: loop iterates over " + ast.dump(n)[:100])


def cube_loop(df_tree, df_src):
    f = _norm(_last_def(df_tree, "cube"))
    body = _body(f)
    if len(body) != 4:
        raise Untranslatable(f"cube: expected 4 statements, found {len(body)}")
    s0, s1, s2, s3 = body
    ok0 = isinstance(s0, ast.Assign) and dotted(s0.targets[0]) == "columns" and isinstance(s0.value, ast.Call) \
        and dotted(s0.value.func) == "self._ensure_and_normalize_cols" and dotted(s0.value.args[0]) == "cols"
    ok1 = isinstance(s1, (ast.AnnAssign, ast.Assign)) and dotted(s1.target if isinstance(s1, ast.AnnAssign) else s1.targets[0]) == "grouping_columns" \
        and isinstance(s1.value, ast.List) and not s1.value.elts
    if not (ok0 and ok1):
        raise Untranslatable("cube: prologue changed")
    if not (isinstance(s2, ast.For) and dotted(s2.target) == "i" and not s2.orelse and len(s2.body) == 1):
        raise Untranslatable("cube: loop shape changed")
    idx = idx_expr(s2.iter)
    st = s2.body[0]
    ok = (isinstance(st, ast.Expr) and isinstance(st.value, ast.Call) and dotted(st.value.func) == "grouping_columns.extend"
          and len(st.value.args) == 1)
    if not ok:
        raise Untranslatable("cube: loop body is not grouping_columns.extend(...)")
    elt, tgt, it = _single_listcomp(st.value.args[0], "cube loop body")
    ok = (isinstance(elt, ast.Call) and dotted(elt.func) == "list" and len(elt.args) == 1 and dotted(elt.args[0]) == dotted(tgt)
          and isinstance(it, ast.Call) and dotted(it.func) == "itertools.combinations"
          and [dotted(a) for a in it.args] == ["columns", "i"] and not it.keywords)
    if not ok:
        raise Untranslatable("cube: loop body is not [list(x) for x in itertools.combinations(columns, i)]")
    ok3 = (isinstance(s3, ast.Return) and isinstance(s3.value, ast.Call) and dotted(s3.value.func) == "self._group_data"
           and [dotted(a) for a in s3.value.args] == ["self", "grouping_columns", "self.last_op"])
    if not ok3:
        raise Untranslatable("cube: does not return self._group_data(self, grouping_columns, self.last_op)")
    return idx, py2v.norm_hash(f, rename_locals=False), ast.unparse(s2.iter)


# ---- session.py / functions.py -------------------------------------------------------------------------

def sanitize_facts(repo):
    tree, src = py2v.load(os.path.join(repo, "sqlframe/base/session.py"))
    f = _norm(py2v.find_method(tree, "_BaseSession", "_sanitize_column_name"))
    body = _body(f)
    ok = (len(body) == 2 and isinstance(body[0], ast.If) and dotted(body[0].test) == "self.SANITIZE_COLUMN_NAMES"
          and not body[0].orelse and isinstance(body[1], ast.Return) and dotted(body[1].value) == "name"
          and [a.arg for a in f.args.args] == ["self", "name"])
    if not ok:
        raise Untranslatable("_sanitize_column_name: not `if self.SANITIZE_COLUMN_NAMES: ...; return name`")
    base = py2v.class_constants(py2v.find_class(tree, "_BaseSession")).get("SANITIZE_COLUMN_NAMES")
    dtree, _ = py2v.load(os.path.join(repo, "sqlframe/duckdb/session.py"))
    dcls = py2v.find_class(dtree, "DuckDBSession")
    flag = py2v.class_constants(dcls).get("SANITIZE_COLUMN_NAMES", base)
    for st in ast.walk(dcls):
        if isinstance(st, ast.FunctionDef) and st.name == "_sanitize_column_name":
            raise Untranslatable("DuckDBSession overrides _sanitize_column_name")
    if not isinstance(flag, bool):
        raise Untranslatable("SANITIZE_COLUMN_NAMES is not a boolean literal")
    return flag, py2v.norm_hash(f, rename_locals=False)


def function_classes(repo):
    tree, src = py2v.load(os.path.join(repo, "sqlframe/base/functions.py"))
    defs, aliases = {}, {}
    for st in tree.body:
        if isinstance(st, ast.FunctionDef) and st.name in ("count", "sum", "avg", "mean", "min", "max", "count_distinct"):
            st = _norm(st)
        if isinstance(st, ast.FunctionDef) and st.name in ("count", "sum", "avg", "mean", "min", "max"):
            body = _body(st)
            r = body[0] if len(body) == 1 else None
            ok = (isinstance(r, ast.Return) and isinstance(r.value, ast.Call)
                  and dotted(r.value.func) == "Column.invoke_expression_over_column" and len(r.value.args) == 2
                  and not r.value.keywords and dotted(r.value.args[0]) == st.args.args[0].arg
                  and (dotted(r.value.args[1]) or "").startswith("expression."))
            if not ok:
                raise Untranslatable(f"functions.{st.name}: not Column.invoke_expression_over_column(col, expression.X)")
            defs[st.name] = dotted(r.value.args[1]).split(".", 1)[1]
        elif isinstance(st, ast.FunctionDef) and st.name == "count_distinct":
            # the same tree on every engine: no early return, no engine-specific alternative
            body = _body(st)
            want = ["columns = [Column.ensure_col(x) for x in [col] + list(cols)]",
                    "return Column(expression.Count(this=expression.Distinct(expressions=[x.column_expression for x in columns])))"]
            got = [ast.unparse(x) for x in body]
            if got != want or [a.arg for a in st.args.args] != ["col"] or st.args.vararg is None or st.args.vararg.arg != "cols":
                raise Untranslatable("functions.count_distinct: body is not `columns = [...]; return Column(expression.Count(this="
                                     "expression.Distinct(expressions=[x.column_expression for x in columns])))`: " + " | ".join(got)[:200])
            defs["count_distinct"] = "CountDistinct"
        elif isinstance(st, ast.Assign) and len(st.targets) == 1 and isinstance(st.targets[0], ast.Name) \
                and st.targets[0].id in ("count", "sum", "avg", "mean", "min", "max", "count_distinct", "countDistinct") \
                and isinstance(st.value, ast.Name):
            aliases[st.targets[0].id] = st.value.id
    out = {}
    for fn in ("count", "sum", "avg", "mean", "min", "max", "count_distinct"):
        if fn in aliases:                      # a later module-level assignment wins
            tgt = aliases[fn]
            if tgt not in defs:
                raise Untranslatable(f"functions.{fn} aliases unknown {tgt}")
            out[fn] = defs[tgt]
        elif fn in defs:
            out[fn] = defs[fn]
        else:
            raise Untranslatable(f"functions.{fn} not found")
    return out


# ---- emit ---------------------------------------------------------------------------------------------

def optk(k):
    return f"(Some {k})" if k else "None"


def b(x):
    return "true" if x else "false"


def generate(repo: str):
    gr_tree, gr_src = py2v.load(os.path.join(repo, "sqlframe/base/group.py"))
    df_tree, df_src = py2v.load(os.path.join(repo, "sqlframe/base/dataframe.py"))
    nm = naming(gr_tree, gr_src)
    ag = agg_facts(gr_tree, gr_src)
    lits, count_arg, count_alias = shortcuts(gr_tree)
    k_groupby, k_cube, k_dfagg = (decorator_of(df_tree, m) for m in ("groupBy", "cube", "agg"))
    dfagg_shape(df_tree)
    groupby_shape(df_tree)
    idx, idx_hash, idx_text = cube_loop(df_tree, df_src)
    san_flag, san_hash = sanitize_facts(repo)
    classes = function_classes(repo)
    L = ["(* GENERATED from /repo on every run by translate/c06_facts.py -- do not edit *)",
         "From SF Require Import C06.AggCheck.",
         "From Gen Require Import C01Facts.",
         f"Definition agg_select_append : bool := {b(ag['append'])}.",
         f"Definition agg_select_keys_first : bool := {b(ag['keys_first'])}.",
         f"Definition group_uses_unaliased : bool := {b(ag['group_unaliased'])}.",
         f"Definition sets_use_unaliased : bool := {b(ag['sets_unaliased'])}.",
         f"Definition dict_key_is_col : bool := {b(ag['dict_key_is_col'])}.",
         "Definition short_lit (m : shortfn) : string := match m with " +
         " | ".join(f"{SHORT[m]} => {strlit(lits[m])}" for m in SHORT) + " end.",
         f"Definition canon_fn (func_name : string) : string := {nm['canon']}.",
         f"Definition name_fmt (func_name name : string) : string := {nm['fmt']}.",
         f"Definition cube_having : bool := {b(ag['cube_having'])}.",
         f"Definition gid_guard (is_gid old_empty : bool) : bool := {ag['gid_guard']}.",
         f"Definition fmt_lowers_fn : bool := {b(nm['lowers'])}.",
         f"Definition through_sanitize : bool := {b(nm['through'])}.",
         f"Definition sanitize_on_duckdb : bool := {b(san_flag)}.",
         "Definition fn_class (fn : string) : option string := " +
         " else ".join(f"if String.eqb fn {strlit(fn)} then Some {strlit(cls)}" for fn, cls in classes.items()) + " else None.",
         f"Definition count_star : bool := {b(count_arg == '*')}.",
         f"Definition count_arg : string := {strlit(count_arg)}.",
         f"Definition count_alias : string := {strlit(count_alias)}.",
         "Definition dfagg_is_groupby_agg : bool := true.",
         f"Definition cube_idx (n : nat) : list nat := {idx}.",
         f"Definition k_groupBy_gen : option opk := {optk(k_groupby)}.",
         f"Definition k_cube_gen : option opk := {optk(k_cube)}.",
         f"Definition k_dfagg_gen : option opk := {optk(k_dfagg)}.",
         "Definition gen_gcfg : gcfg := mkGcfg wrap_needed_group init_wraps_group group_agg_kind k_groupBy_gen k_cube_gen "
         "k_dfagg_gen agg_select_append cube_having (gid_guard true false).",
         "Definition gen_ncfg : ncfg := mkNcfg short_lit canon_fn name_fmt through_sanitize sanitize_on_duckdb fn_class count_star "
         "count_alias dict_key_is_col.",
         "Definition group_cfg : cfg := mkCfg wrap_needed_group kind_of init_wraps_group order_append limit_merge."]
    facts = [
        {"name": "name_fmt", "from": "group.py: _get_function_applied_columns f-string", "hash": nm["hash"], "text": nm["text"],
         "lowers": nm["lowers"], "through_sanitize": nm["through"], "canon": nm["canon"], "coq": nm["fmt"]},
        {"name": "agg_select_append / keys_first / group_uses_unaliased / sets_use_unaliased / dict_key_is_col",
         "from": "group.py: _BaseGroupedData.agg", "hash": ag["hash"],
         "value": {k: ag[k] for k in ("append", "keys_first", "group_unaliased", "sets_unaliased", "dict_key_is_col", "cube_having")}},
        {"name": "gid_guard", "from": "group.py: agg, GROUPING_ID expansion loop", "coq": ag["gid_guard"]},
        {"name": "short_lit", "from": "group.py: avg/mean/max/min/sum", "value": lits},
        {"name": "count shortcut", "from": "group.py: count", "value": {"arg": count_arg, "alias": count_alias}},
        {"name": "decorators", "from": "dataframe.py", "value": {"groupBy": k_groupby, "cube": k_cube, "agg": k_dfagg}},
        {"name": "dfagg_is_groupby_agg", "from": "dataframe.py: agg returns self.groupBy().agg(*cols)", "value": True},
        {"name": "cube_idx", "from": "dataframe.py: cube loop", "hash": idx_hash, "text": idx_text, "coq": idx},
        {"name": "sanitize_on_duckdb", "from": "session.py: _sanitize_column_name + SANITIZE_COLUMN_NAMES", "hash": san_hash,
         "value": san_flag},
        {"name": "fn_class", "from": "functions.py", "value": classes},
    ]
    return "\n".join(L) + "\n", facts


# ---- the part of Gen.C01Facts C06 depends on ------------------------------------------------------------------
# (built from translate/c01_facts.py's own translators of the Operation enum, the two wrappers, the decorators, orderBy's
# append flag and limit's merge; C01's further facts -- order-key flags etc. -- are not C06's and are left out, so that
# work in progress there does not move this check)

C01_NAMES = {"NSelect": "select", "NWhere": "where", "NOrderBy": "orderBy", "NLimit": "limit", "NDistinct": "distinct"}


def generate_c01_core(repo: str):
    from translate import c01_facts as c1
    ops_tree, ops_src = py2v.load(os.path.join(repo, "sqlframe/base/operations.py"))
    df_tree, df_src = py2v.load(os.path.join(repo, "sqlframe/base/dataframe.py"))
    gr_tree, _ = py2v.load(os.path.join(repo, "sqlframe/base/group.py"))
    vals = c1.enum_values(ops_tree)
    w_df = c1.wrapper_facts(ops_tree, ops_src, "operation", "self")
    w_gr = c1.wrapper_facts(ops_tree, ops_src, "group_operation", "self._df")
    decos = c1.method_decorators(df_tree, "BaseDataFrame", "operation")
    gdecos = c1.method_decorators(gr_tree, "_BaseGroupedData", "group_operation")
    oa = c1.order_append(df_tree)
    lm, lm_hash = c1.limit_merge(df_tree, df_src)
    for n, m in C01_NAMES.items():
        if decos.get(m) is None:
            raise Untranslatable(f"method {m} has no @operation decorator")
    L = ["(* GENERATED from /repo on every run by translate/c06_facts.py (generate_c01_core) -- do not edit *)",
         "From SF Require Import Model.Chain.",
         "Open Scope Z_scope.",
         "Definition rank (k : opk) : Z := match k with " + " | ".join(f"{k} => ({vals[k]})" for k in OPK) + " end.",
         "Definition opk_ltb a b := Z.ltb (rank a) (rank b).",
         "Definition opk_leb a b := Z.leb (rank a) (rank b).",
         "Definition opk_gtb a b := Z.gtb (rank a) (rank b).",
         "Definition opk_geb a b := Z.geb (rank a) (rank b).",
         f"Definition wrap_needed_df (last_op new_op : opk) : bool := {w_df['test']}.",
         f"Definition wrap_needed_group (last_op new_op : opk) : bool := {w_gr['test']}.",
         f"Definition new_kind_df (op last_op : opk) : opk := {w_df['new_kind']}.",
         f"Definition new_kind_group (op last_op : opk) : opk := {w_gr['new_kind']}.",
         f"Definition init_wraps_df : bool := {b(w_df['init_wraps'])}.",
         f"Definition init_wraps_group : bool := {b(w_gr['init_wraps'])}.",
         "Definition kind_of (n : opname) : opk := match n with " + " | ".join(f"{n} => {decos[m]}" for n, m in C01_NAMES.items()) + " end.",
         f"Definition order_append : bool := {b(oa)}.",
         f"Definition limit_merge (num m : Z) : Z := {lm}.",
         "Definition gen_cfg : cfg := mkCfg wrap_needed_df kind_of init_wraps_df order_append limit_merge.",
         f"Definition group_agg_kind : option opk := {optk(gdecos.get('agg'))}."]
    facts = [
        {"name": "rank", "from": "operations.py: class Operation", "value": vals},
        {"name": "wrap_needed_df", "from": "operations.py: operation.wrapper", "hash": w_df["hash"], "text": w_df["test"]},
        {"name": "wrap_needed_group", "from": "operations.py: group_operation.wrapper", "hash": w_gr["hash"], "text": w_gr["test"]},
        {"name": "new_kind / init_wraps", "value": {"new_kind": w_gr["new_kind"], "init_wraps_df": w_df["init_wraps"], "init_wraps_group": w_gr["init_wraps"]}},
        {"name": "kind_of / group_agg_kind", "from": "dataframe.py / group.py decorators",
         "value": {**{m: decos[m] for m in C01_NAMES.values()}, "GroupedData.agg": gdecos.get("agg")}},
        {"name": "order_append / limit_merge", "from": "dataframe.py: orderBy, limit", "value": {"order_append": oa, "limit_merge": lm}, "hash": lm_hash},
    ]
    return "\n".join(L) + "\n", facts

