"""T1 for C13: regenerate from /repo (fail-closed) the facts the temp-view theorems are parametric in.

  catalog.py      _BaseCatalog.add_table          early `return` when the table is already cached (add-if-absent)
  dataframe.py    createOrReplaceTempView         key normalisation; what is stored (frozen? fresh object?);
                                                  that the registry is written before catalog.add_table
                  _convert_leaf_to_cte            returns a copy
  readerwriter.py _BaseDataFrameReader.table      key normalisation; temp views consulted before the catalog
  session.py      _BaseSession.sql                shape of the splice: lookup key `<table>.name`, target = last CTE of the
                                                  view's chain, CTE names already present are skipped, added CTEs go after
                                                  the query's own, qualify defaults to True and runs before the splice
Anything that does not have one of the recognised shapes raises Untranslatable (reported as a broken T1 tie).
"""
from __future__ import annotations

import ast
import os

from vlib import py2v
from vlib.py2v import Untranslatable, dotted


def _body(fn):
    return [s for s in fn.body if not (isinstance(s, ast.Expr) and isinstance(s.value, ast.Constant))]


def _kw(call: ast.Call) -> dict:
    out = {}
    for k in call.keywords:
        if k.arg is None:
            out["**"] = k.value
        else:
            out[k.arg] = k.value
    return out


def norm_call_kind(value, var: str, where: str) -> str:
    """normalize_string(<var>, from_dialect="input"[, is_table=True]) -> NLower;  anything else is refused"""
    if not (isinstance(value, ast.Call) and dotted(value.func) == "normalize_string"):
        raise Untranslatable(f"{where}: key is computed by {ast.dump(value)[:80]}")
    if len(value.args) != 1 or dotted(value.args[0]) != var:
        raise Untranslatable(f"{where}: normalize_string is not applied to `{var}`")
    kw = _kw(value)
    fd = kw.pop("from_dialect", None)
    if not (isinstance(fd, ast.Constant) and fd.value == "input"):
        raise Untranslatable(f"{where}: from_dialect is not \"input\"")
    it = kw.pop("is_table", None)
    if it is not None and not (isinstance(it, ast.Constant) and it.value is True):
        raise Untranslatable(f"{where}: is_table is not the literal True")
    if kw:
        raise Untranslatable(f"{where}: unexpected normalize_string arguments {sorted(kw)}")
    return "NLower"


# ---- catalog.add_table ---------------------------------------------------------------------------------

def add_table_facts(tree, src):
    """Does add_table keep the first column list of a key it already has (add-if-absent) when it is GIVEN a column list?
    Recognised shapes:
      A  table = self.ensure_table(table); if self._schema.find(table): return; ...          -> True
      B  table = ...; [existing = self._schema.find(table)]; if column_mapping is None: <block whose returns are all
         guarded by `existing`>; ...  no other return                                         -> False (update-or-add)"""
    fn = py2v.find_method(tree, "_BaseCatalog", "add_table")
    body = _body(fn)
    if not body or not (isinstance(body[0], ast.Assign) and dotted(body[0].targets[0]) == "table"
                        and isinstance(body[0].value, ast.Call) and dotted(body[0].value.func) == "self.ensure_table"):
        raise Untranslatable("add_table: does not start with `table = self.ensure_table(table)`")
    early = False
    rest = body[1:]

    def is_find(t):
        return isinstance(t, ast.Call) and dotted(t.func) == "self._schema.find" and len(t.args) == 1 \
            and dotted(t.args[0]) == "table" and not t.keywords
    if rest and isinstance(rest[0], ast.If) and is_find(rest[0].test):
        iff = rest[0]
        if iff.orelse or len(iff.body) != 1 or not isinstance(iff.body[0], ast.Return) or iff.body[0].value is not None:
            raise Untranslatable("add_table: the `if self._schema.find(table)` branch is not a bare early return")
        early = True
        rest = rest[1:]
    existing_var = None
    if rest and isinstance(rest[0], ast.Assign) and isinstance(rest[0].targets[0], ast.Name) and is_find(rest[0].value):
        existing_var = rest[0].targets[0].id
        rest = rest[1:]

    def guarded_by_existing(test):
        if existing_var is None:
            return False
        if dotted(test) == existing_var:
            return True
        return isinstance(test, ast.BoolOp) and isinstance(test.op, ast.And) and dotted(test.values[0]) == existing_var

    def check_none_block(node, guarded):
        """inside `if column_mapping is None:` a return is allowed only under a test that starts with `existing`"""
        for ch in ast.iter_child_nodes(node):
            if isinstance(ch, ast.Return):
                if not guarded or ch.value is not None:
                    raise Untranslatable("add_table: a return in the `column_mapping is None` path that `existing` does not guard")
            elif isinstance(ch, ast.If):
                g = guarded or guarded_by_existing(ch.test)
                for st in ch.body:
                    check_none_block(ast.Module(body=[st], type_ignores=[]), g)
                for st in ch.orelse:
                    check_none_block(ast.Module(body=[st], type_ignores=[]), guarded)
            else:
                check_none_block(ch, guarded)
    for st in rest:
        if isinstance(st, ast.Return):
            raise Untranslatable("add_table: another top-level return")
        if isinstance(st, ast.If) and any(isinstance(x, ast.Return) for x in ast.walk(st)):
            t = st.test
            none_path = (isinstance(t, ast.Compare) and dotted(t.left) == "column_mapping" and len(t.ops) == 1
                         and isinstance(t.ops[0], ast.Is) and isinstance(t.comparators[0], ast.Constant)
                         and t.comparators[0].value is None and not st.orelse)
            if not none_path:
                raise Untranslatable("add_table: a conditional return of an unrecognised shape")
            for x in st.body:
                check_none_block(ast.Module(body=[x], type_ignores=[]), False)
    last = rest[-1] if rest else None
    ok_last = (isinstance(last, ast.Expr) and isinstance(last.value, ast.Call)
               and dotted(last.value.func) == "self._schema.add_table"
               and [dotted(a) for a in last.value.args[:2]] == ["table", "column_mapping"])
    if not ok_last:
        raise Untranslatable("add_table: does not end with self._schema.add_table(table, column_mapping, ...)")
    return early, py2v.src_hash(fn, src)


# ---- createOrReplaceTempView ---------------------------------------------------------------------------

def convert_leaf_returns_copy(tree) -> bool:
    fn = py2v.find_method(tree, "BaseDataFrame", "_convert_leaf_to_cte")
    body = _body(fn)
    last = body[-1]
    return (isinstance(last, ast.Return) and isinstance(last.value, ast.Call)
            and isinstance(last.value.func, ast.Attribute) and last.value.func.attr == "copy")


def register_facts(tree, src):
    fn = py2v.find_method(tree, "BaseDataFrame", "createOrReplaceTempView")
    args = [a.arg for a in fn.args.args]
    if args != ["self", "name"]:
        raise Untranslatable(f"createOrReplaceTempView: parameters {args}")
    body = _body(fn)
    key_var, norm = "name", "NRaw"
    stored_var = None
    frozen = copy = None
    i_assign = i_add = None
    cache_cols_from = None
    for i, st in enumerate(body):
        if isinstance(st, ast.Assign) and len(st.targets) == 1 and isinstance(st.targets[0], ast.Name):
            tgt = st.targets[0].id
            if isinstance(st.value, ast.Call) and dotted(st.value.func) == "normalize_string":
                if tgt != "name" or stored_var is not None or i_assign is not None:
                    raise Untranslatable("createOrReplaceTempView: normalisation in an unexpected place")
                norm = norm_call_kind(st.value, "name", "createOrReplaceTempView")
                continue
            # df = self.copy()._convert_leaf_to_cte() | self._convert_leaf_to_cte() | self.copy() | self
            v = st.value
            if stored_var is not None:
                raise Untranslatable("createOrReplaceTempView: more than one local DataFrame")
            stored_var = tgt
            if dotted(v) == "self":
                frozen, copy = False, False
            elif isinstance(v, ast.Call) and dotted(v.func) == "self.copy" and not v.args and not v.keywords:
                frozen, copy = False, True
            elif isinstance(v, ast.Call) and isinstance(v.func, ast.Attribute) and v.func.attr == "_convert_leaf_to_cte" \
                    and not v.args and not v.keywords:
                recv = v.func.value
                if dotted(recv) == "self":
                    frozen, copy = True, convert_leaf_returns_copy(tree)
                elif isinstance(recv, ast.Call) and dotted(recv.func) == "self.copy" and not recv.args and not recv.keywords:
                    frozen, copy = True, True
                else:
                    raise Untranslatable("createOrReplaceTempView: receiver of _convert_leaf_to_cte")
            else:
                raise Untranslatable("createOrReplaceTempView: stored value " + ast.dump(v)[:80])
            continue
        if isinstance(st, ast.Assign) and len(st.targets) == 1 and isinstance(st.targets[0], ast.Subscript):
            sub = st.targets[0]
            if dotted(sub.value) != "self.session.temp_views" or dotted(sub.slice) != key_var:
                raise Untranslatable("createOrReplaceTempView: registry write has another shape")
            val = dotted(st.value)
            if val == "self" and stored_var is None:
                frozen, copy, stored_var = False, False, "self"
            elif val != stored_var:
                raise Untranslatable("createOrReplaceTempView: registry stores something else than the local DataFrame")
            i_assign = i
            continue
        if isinstance(st, ast.Expr) and isinstance(st.value, ast.Call) \
                and dotted(st.value.func) == "self.session.catalog.add_table":
            call = st.value
            if len(call.args) != 2 or dotted(call.args[0]) != key_var or call.keywords:
                raise Untranslatable("createOrReplaceTempView: catalog.add_table arguments")
            lc = call.args[1]
            ok = (isinstance(lc, ast.ListComp) and dotted(lc.elt) == "x.alias_or_name" and len(lc.generators) == 1
                  and isinstance(lc.generators[0].iter, ast.Call)
                  and dotted(lc.generators[0].iter.func) == "self._get_outer_select_columns"
                  and len(lc.generators[0].iter.args) == 1)
            if not ok:
                raise Untranslatable("createOrReplaceTempView: column list given to the schema cache")
            cache_cols_from = dotted(lc.generators[0].iter.args[0])
            i_add = i
            continue
        raise Untranslatable("createOrReplaceTempView: statement " + type(st).__name__)
    if i_assign is None:
        raise Untranslatable("createOrReplaceTempView: no write to session.temp_views")
    if i_add is None:
        raise Untranslatable("createOrReplaceTempView: no catalog.add_table call")
    if cache_cols_from != (stored_var or "self") + ".expression":
        raise Untranslatable(f"createOrReplaceTempView: cached columns come from {cache_cols_from}")
    return {"norm": norm, "frozen": bool(frozen), "copy": bool(copy), "assign_first": i_assign < i_add,
            "hash": py2v.src_hash(fn, src)}


# ---- reader.table --------------------------------------------------------------------------------------

def reader_facts(tree, src):
    fn = py2v.find_method(tree, "_BaseDataFrameReader", "table")
    args = [a.arg for a in fn.args.args]
    if args != ["self", "tableName"]:
        raise Untranslatable(f"reader.table: parameters {args}")
    body = _body(fn)
    norm = "NRaw"
    i_views = i_catalog = None
    for i, st in enumerate(body):
        if isinstance(st, ast.Assign) and dotted(st.targets[0]) == "tableName":
            if i_views is not None or i_catalog is not None:
                raise Untranslatable("reader.table: tableName is re-assigned after a lookup")
            norm = norm_call_kind(st.value, "tableName", "reader.table")
            continue
        if isinstance(st, ast.If):
            t = st.test
            if isinstance(t, ast.NamedExpr) and isinstance(t.value, ast.Call) \
                    and dotted(t.value.func) == "self.session.temp_views.get" \
                    and len(t.value.args) == 1 and dotted(t.value.args[0]) == "tableName" and not t.value.keywords:
                var = t.target.id
                if st.orelse or len(st.body) != 1 or not isinstance(st.body[0], ast.Return) or dotted(st.body[0].value) != var:
                    raise Untranslatable("reader.table: the temp-view branch does not return the stored frame")
                if i_views is None:
                    i_views = i
                continue
        if any(dotted(n) == "self.session.catalog" for n in ast.walk(st)) or \
                any(isinstance(n, ast.Call) and dotted(n.func) == "self.session._create_table" for n in ast.walk(st)):
            if i_catalog is None:
                i_catalog = i
            continue
        if isinstance(st, ast.Assign) and dotted(st.targets[0]) == "table":
            continue
        raise Untranslatable("reader.table: statement " + type(st).__name__)
    if i_views is None:
        raise Untranslatable("reader.table: session.temp_views is not consulted")
    if i_catalog is None:
        raise Untranslatable("reader.table: catalog path not found")
    return {"norm": norm, "views_first": i_views < i_catalog, "hash": py2v.src_hash(fn, src)}


# ---- session.sql: shape of the splice --------------------------------------------------------------------

def sql_facts(tree, src):
    """Shape of the splice in session.sql.  Recognised variants (anything else is refused):
       lookup key `<table>.name`; target `<view>.expression.ctes[-1].alias_or_name`; CTE names already present skipped;
       added CTEs appended after the query's own; qualify defaults to True and runs first on the catalog's schema cache;
       skip_own   : `if <table>.name in <own cte names> [and not <table>.db]: continue` with
                    <own cte names> = {cte.alias_or_name for cte in <q>.ctes} computed before the loop        (True | absent: False)
       hash_user  : in the SELECT branch, between _create_df and _convert_leaf_to_cte:
                    df.expression = df._replace_cte_names_with_hashes(df.expression, <own cte names>)          (True | absent: False)
       user_only  : the (table node, target) pairs are collected in a list and exactly those nodes are retargeted
                    after the loop (True)  |  a dict keyed by the node + <q>.transform(...) over every equal node (False)"""
    fn = py2v.find_method(tree, "_BaseSession", "sql")
    names = [a.arg for a in fn.args.args]
    defaults = dict(zip(names[len(names) - len(fn.args.defaults):], fn.args.defaults))
    if "qualify" not in defaults or not (isinstance(defaults["qualify"], ast.Constant) and defaults["qualify"].value is True):
        raise Untranslatable("session.sql: `qualify` does not default to True")
    blocks = [s for s in fn.body if isinstance(s, ast.If) and dotted(s.test) == "self.temp_views"]
    if len(blocks) != 1:
        raise Untranslatable("session.sql: the `if self.temp_views:` block was not found exactly once")
    blk = blocks[0]
    qual_ifs = [s for s in fn.body if isinstance(s, ast.If) and dotted(s.test) == "qualify"]
    if len(qual_ifs) != 1 or fn.body.index(qual_ifs[0]) > fn.body.index(blk):
        raise Untranslatable("session.sql: qualify block missing or after the splice")
    qcalls = [n for n in ast.walk(qual_ifs[0]) if isinstance(n, ast.Call) and dotted(n.func) == "qualify_func"]
    if len(qcalls) != 1 or dotted(_kw(qcalls[0]).get("schema")) != "self.catalog._schema":
        raise Untranslatable("session.sql: qualify is not given the catalog's schema cache")
    if "expand_alias_refs" in _kw(qcalls[0]):
        raise Untranslatable("session.sql: qualify is called with expand_alias_refs (not a modelled variant)")
    loops = [s for s in blk.body if isinstance(s, ast.For)]
    main_loops = [l for l in loops if isinstance(l.iter, ast.Call) and isinstance(l.iter.func, ast.Attribute)
                  and l.iter.func.attr == "find_all"]
    if len(main_loops) != 1:
        raise Untranslatable("session.sql: expected one loop over the table references")
    loop = main_loops[0]
    it = loop.iter
    if not (len(it.args) == 1 and dotted(it.args[0]) == "exp.Table" and isinstance(loop.target, ast.Name)):
        raise Untranslatable("session.sql: the loop does not range over find_all(exp.Table)")
    tvar = loop.target.id
    qd = dotted(it.func.value)
    gets = [n for n in ast.walk(loop) if isinstance(n, ast.Call) and dotted(n.func) == "self.temp_views.get"]
    if len(gets) != 1 or len(gets[0].args) != 1 or dotted(gets[0].args[0]) != tvar + ".name":
        raise Untranslatable("session.sql: registry lookup key is not `<table>.name`")

    def is_last_cte_name(v):
        if isinstance(v, ast.Attribute) and v.attr == "alias_or_name" and isinstance(v.value, ast.Subscript):
            idx = v.value.slice
            neg1 = isinstance(idx, ast.UnaryOp) and isinstance(idx.op, ast.USub) and isinstance(idx.operand, ast.Constant) \
                and idx.operand.value == 1
            d = dotted(v.value.value)
            return bool(neg1 and d and d.endswith(".expression.ctes"))
        return False

    # ---- how the target is recorded and applied
    user_only = None
    pair_list = None
    for n in ast.walk(loop):
        if isinstance(n, ast.Assign) and isinstance(n.targets[0], ast.Subscript) and dotted(n.targets[0].slice) == tvar \
                and is_last_cte_name(n.value):
            user_only = False
        if isinstance(n, ast.Call) and isinstance(n.func, ast.Attribute) and n.func.attr == "append" and len(n.args) == 1 \
                and isinstance(n.args[0], ast.Tuple) and len(n.args[0].elts) == 2 and dotted(n.args[0].elts[0]) == tvar \
                and is_last_cte_name(n.args[0].elts[1]):
            user_only = True
            pair_list = dotted(n.func.value)
    if user_only is None:
        raise Untranslatable("session.sql: the reference is not retargeted to `<view>.expression.ctes[-1]`")
    after = blk.body[blk.body.index(loop) + 1:]
    if user_only:
        # for <a>, <b> in <pair_list>: <a>.set("this", exp.to_identifier(<b>))   and nothing else rewrites tables
        ok = False
        for st in after:
            if isinstance(st, ast.For) and dotted(st.iter) == pair_list and isinstance(st.target, ast.Tuple) \
                    and len(st.target.elts) == 2 and len(st.body) == 1 and isinstance(st.body[0], ast.Expr):
                a, b = (dotted(x) for x in st.target.elts)
                c = st.body[0].value
                if isinstance(c, ast.Call) and dotted(c.func) == f"{a}.set" and len(c.args) == 2 \
                        and isinstance(c.args[0], ast.Constant) and c.args[0].value == "this" \
                        and isinstance(c.args[1], ast.Call) and dotted(c.args[1].func) == "exp.to_identifier" \
                        and [dotted(x) for x in c.args[1].args] == [b]:
                    ok = True
        if not ok or any(isinstance(n, ast.Attribute) and n.attr == "transform" for st in after for n in ast.walk(st)):
            raise Untranslatable("session.sql: the collected table nodes are not retargeted one by one after the loop")
    else:
        if not any(isinstance(n, ast.Attribute) and n.attr == "transform" for st in after for n in ast.walk(st)):
            raise Untranslatable("session.sql: node-keyed mapping without the transform that applies it")
    # ---- skip references to the query's own CTEs
    skip_own = False
    own_set = None
    for st in loop.body:
        if isinstance(st, ast.If) and len(st.body) == 1 and isinstance(st.body[0], ast.Continue) and not st.orelse:
            t = st.test
            first = t.values[0] if isinstance(t, ast.BoolOp) and isinstance(t.op, ast.And) else t
            if isinstance(first, ast.Compare) and dotted(first.left) == tvar + ".name" and len(first.ops) == 1 \
                    and isinstance(first.ops[0], ast.In) and isinstance(first.comparators[0], ast.Name):
                setname = first.comparators[0].id
                extra_ok = True
                if isinstance(t, ast.BoolOp):
                    rest_ = t.values[1:]
                    extra_ok = len(rest_) == 1 and isinstance(rest_[0], ast.UnaryOp) and isinstance(rest_[0].op, ast.Not) \
                        and dotted(rest_[0].operand) == tvar + ".db"
                # the set must be the query's own CTE names, computed before the loop
                defs = [x for x in blk.body[: blk.body.index(loop)] + fn.body[: fn.body.index(blk)]
                        if isinstance(x, ast.Assign) and dotted(x.targets[0]) == setname]
                ok = (len(defs) == 1 and isinstance(defs[0].value, ast.SetComp)
                      and dotted(defs[0].value.elt) == "cte.alias_or_name" and len(defs[0].value.generators) == 1
                      and dotted(defs[0].value.generators[0].iter) == (qd or "") + ".ctes"
                      and not defs[0].value.generators[0].ifs)
                if not (ok and extra_ok):
                    raise Untranslatable("session.sql: a `continue` on the table name of an unrecognised shape")
                skip_own = True
                own_set = setname
            elif not (isinstance(t, ast.UnaryOp) and isinstance(t.op, ast.Not) and isinstance(t.operand, ast.NamedExpr)
                      and isinstance(t.operand.value, ast.Call) and dotted(t.operand.value.func) == "self.temp_views.get"):
                raise Untranslatable("session.sql: an unrecognised `continue` in the splice loop")
    # ---- skip CTE names already present: per table reference, the names of <q>.ctes at that moment (a dict keyed by the
    # name or a set of the names), and the view's CTEs whose name is not among them are collected -- by a loop with
    # append or by a list comprehension -- [as copies]
    def present_names(var):
        defs = [x for x in loop.body if isinstance(x, ast.Assign) and dotted(x.targets[0]) == var]
        if len(defs) != 1:
            return False
        v = defs[0].value
        if isinstance(v, ast.DictComp):
            elt, gens = v.key, v.generators
        elif isinstance(v, ast.SetComp):
            elt, gens = v.elt, v.generators
        else:
            return False
        return (len(gens) == 1 and not gens[0].ifs and isinstance(gens[0].target, ast.Name)
                and dotted(elt) == gens[0].target.id + ".alias_or_name" and dotted(gens[0].iter) == (qd or "") + ".ctes")

    def kept(elt, var):
        return dotted(elt) == var or (isinstance(elt, ast.Call) and dotted(elt.func) == var + ".copy" and not elt.args
                                      and not elt.keywords)

    def not_in_present(test, var):
        return (isinstance(test, ast.Compare) and len(test.ops) == 1 and isinstance(test.ops[0], ast.NotIn)
                and dotted(test.left) == var + ".alias_or_name" and isinstance(test.comparators[0], ast.Name)
                and present_names(test.comparators[0].id))
    added_var = None
    for st in loop.body:
        # ctes_to_add = [cte[.copy()] for cte in <df>.expression.ctes if cte.alias_or_name not in <present>]
        if isinstance(st, ast.Assign) and isinstance(st.targets[0], ast.Name) and isinstance(st.value, ast.ListComp):
            lc = st.value
            if len(lc.generators) == 1 and isinstance(lc.generators[0].target, ast.Name):
                g0 = lc.generators[0]
                d = dotted(g0.iter)
                if d and d.endswith(".expression.ctes") and len(g0.ifs) == 1 and not_in_present(g0.ifs[0], g0.target.id) \
                        and kept(lc.elt, g0.target.id):
                    added_var = st.targets[0].id
        # ctes_to_add = []; for cte in <df>.expression.ctes: if cte.alias_or_name not in <present>: ctes_to_add.append(cte[.copy()])
        if isinstance(st, ast.For) and isinstance(st.target, ast.Name) and dotted(st.iter) and dotted(st.iter).endswith(".expression.ctes") \
                and len(st.body) == 1 and isinstance(st.body[0], ast.If) and not st.body[0].orelse and not st.orelse:
            iff = st.body[0]
            if not_in_present(iff.test, st.target.id) and len(iff.body) == 1 and isinstance(iff.body[0], ast.Expr) \
                    and isinstance(iff.body[0].value, ast.Call) and isinstance(iff.body[0].value.func, ast.Attribute) \
                    and iff.body[0].value.func.attr == "append" and len(iff.body[0].value.args) == 1 \
                    and kept(iff.body[0].value.args[0], st.target.id):
                lst = dotted(iff.body[0].value.func.value)
                inits = [x for x in loop.body if isinstance(x, ast.Assign) and dotted(x.targets[0]) == lst
                         and isinstance(x.value, ast.List) and not x.value.elts]
                if len(inits) == 1:
                    added_var = lst
    if added_var is None:
        raise Untranslatable("session.sql: the view's CTEs whose name is not yet in <q>.ctes are not collected in a recognised way")
    app_ok = False
    for n in ast.walk(loop):
        if isinstance(n, ast.Call) and dotted(n.func) == "exp.With":
            e = _kw(n).get("expressions")
            if isinstance(e, ast.BinOp) and isinstance(e.op, ast.Add) and dotted(e.left) == (qd or "") + ".ctes" \
                    and dotted(e.right) == added_var:
                app_ok = True
    if not app_ok:
        raise Untranslatable("session.sql: added CTEs are not appended after the query's own (`<q>.ctes + ctes_to_add`)")
    # ---- the SELECT branch that wraps the spliced query as a DataFrame
    sel_ifs = [st for st in fn.body if isinstance(st, ast.If) and isinstance(st.test, ast.Call)
               and dotted(st.test.func) == "isinstance" and [dotted(a) for a in st.test.args] == ["expression", "exp.Select"]]
    if len(sel_ifs) != 1:
        raise Untranslatable("session.sql: `if isinstance(expression, exp.Select):` not found exactly once")
    wrap = _body(sel_ifs[0])

    def is_assign(st, target, callee, args):
        return (isinstance(st, ast.Assign) and len(st.targets) == 1 and dotted(st.targets[0]) == target
                and isinstance(st.value, ast.Call) and dotted(st.value.func) == callee
                and [dotted(a) for a in st.value.args] == args and not st.value.keywords)
    ok_first = wrap and is_assign(wrap[0], "df", "self._create_df", ["expression"])
    ok_last = wrap and is_assign(wrap[-1], "df", "df._convert_leaf_to_cte", [])
    mid = wrap[1:-1] if ok_first and ok_last else None
    if mid == []:
        hash_user = False
    elif mid is not None and len(mid) == 1 and own_set is not None \
            and is_assign(mid[0], "df.expression", "df._replace_cte_names_with_hashes", ["df.expression", own_set]):
        hash_user = True      # exactly the query's own CTEs (the set the splice loop skips) are renamed
    else:
        raise Untranslatable("session.sql: the SELECT branch is not create / [rename the CTEs to hash names] / freeze")
    return {"hash": py2v.src_hash(fn, src), "skip_own": skip_own, "user_only": user_only, "hash_user": hash_user}


def hash_rename_facts(tree, src):
    """dataframe._replace_cte_names_with_hashes: after the renaming loop, are CTEs that ended with the same name AND the
    same body reduced to the first one?   old: mapping = {}; for ...; return            -> False
                                           new: ... + the de-duplication block           -> True"""
    fn = py2v.find_method(tree, "BaseDataFrame", "_replace_cte_names_with_hashes")
    body = _body(fn)
    if len(body) < 3 or not isinstance(body[1], ast.For) or not isinstance(body[-1], ast.Return) \
            or dotted(body[-1].value) != "expression":
        raise Untranslatable("_replace_cte_names_with_hashes: body shape")
    extra = body[2:-1]
    if not extra:
        return {"dedupe": False, "hash": py2v.src_hash(fn, src)}
    loops = [st for st in extra if isinstance(st, ast.For)]
    ifs = [st for st in extra if isinstance(st, ast.If)]
    if len(loops) != 1 or len(ifs) != 1 or len(extra) != 4:
        raise Untranslatable("_replace_cte_names_with_hashes: unrecognised statements after the renaming loop")
    lp = loops[0]
    keep = [n for n in ast.walk(lp) if isinstance(n, ast.If)]
    same_name = any(isinstance(n, ast.Call) and isinstance(n.func, ast.Attribute) and n.func.attr == "setdefault"
                    and n.args and dotted(n.args[0]) == "cte.alias_or_name" for n in ast.walk(lp))
    ok_keep = False
    if len(keep) == 1 and isinstance(keep[0].test, ast.BoolOp) and isinstance(keep[0].test.op, ast.Or) and len(keep[0].test.values) == 2:
        a, b = keep[0].test.values
        ok_keep = (isinstance(a, ast.Compare) and isinstance(a.ops[0], ast.Is) and dotted(a.comparators[0]) == "cte"
                   and isinstance(b, ast.Compare) and isinstance(b.ops[0], ast.NotEq)
                   and {dotted(b.left), dotted(b.comparators[0])} == {dotted(a.left) + ".this", "cte.this"})
    sets = [n for n in ast.walk(ifs[0]) if isinstance(n, ast.Call) and isinstance(n.func, ast.Attribute) and n.func.attr == "set"
            and n.args and isinstance(n.args[0], ast.Constant) and n.args[0].value == "expressions"]
    if dotted(lp.iter) == "expression.ctes" and same_name and ok_keep and len(sets) == 1:
        return {"dedupe": True, "hash": py2v.src_hash(fn, src)}
    raise Untranslatable("_replace_cte_names_with_hashes: the de-duplication does not keep the first of equal (name, body) CTEs")


def rename_facts(tree, src):
    """transforms.replace_id_value: does renaming a CTE touch only identifiers that name a table?
       old:  if isinstance(node, exp.Identifier) and node in replacement_mapping: node = node.replace(...)        -> False
       new:  the same, with the replacement under `if names_a_table:` where names_a_table is built from
             isinstance(parent, (exp.Table, exp.TableAlias)) / exp.Column with node.arg_key == "table"            -> True"""
    fn = py2v.find_func(tree, "replace_id_value")
    body = _body(fn)
    if len(body) != 2 or not isinstance(body[0], ast.If) or not isinstance(body[1], ast.Return) or body[0].orelse:
        raise Untranslatable("replace_id_value: body shape")
    inner = [s for s in body[0].body if not (isinstance(s, ast.Expr) and isinstance(s.value, ast.Constant))]

    def is_replace(st):
        return (isinstance(st, ast.Assign) and dotted(st.targets[0]) == "node" and isinstance(st.value, ast.Call)
                and dotted(st.value.func) == "node.replace")
    if len(inner) == 1 and is_replace(inner[0]):
        return {"tables_only": False, "hash": py2v.src_hash(fn, src)}
    guards = [s for s in inner if isinstance(s, ast.If)]
    if len(guards) == 1 and dotted(guards[0].test) == "names_a_table" and not guards[0].orelse \
            and len(guards[0].body) == 1 and is_replace(guards[0].body[0]):
        defs = [s for s in inner if isinstance(s, ast.Assign) and dotted(s.targets[0]) == "names_a_table"]
        if len(defs) == 1:
            txt = ast.get_source_segment(src, defs[0].value) or ""
            mentioned = {dotted(n) for n in ast.walk(defs[0].value) if dotted(n)}
            keys = {n.value for n in ast.walk(defs[0].value) if isinstance(n, ast.Constant) and isinstance(n.value, str)}
            if {"exp.Table", "exp.TableAlias", "exp.Column"} <= mentioned and keys == {"this", "table"} \
                    and "exp.Alias" not in mentioned and txt:
                return {"tables_only": True, "hash": py2v.src_hash(fn, src)}
    raise Untranslatable("replace_id_value: neither the unconditional nor the tables-only shape")


def generate(repo: str):
    cat_tree, cat_src = py2v.load(os.path.join(repo, "sqlframe/base/catalog.py"))
    df_tree, df_src = py2v.load(os.path.join(repo, "sqlframe/base/dataframe.py"))
    rw_tree, rw_src = py2v.load(os.path.join(repo, "sqlframe/base/readerwriter.py"))
    se_tree, se_src = py2v.load(os.path.join(repo, "sqlframe/base/session.py"))
    early, h_add = add_table_facts(cat_tree, cat_src)
    reg = register_facts(df_tree, df_src)
    rd = reader_facts(rw_tree, rw_src)
    sq = sql_facts(se_tree, se_src)
    tr_tree, tr_src = py2v.load(os.path.join(repo, "sqlframe/base/transforms.py"))
    rn = rename_facts(tr_tree, tr_src)
    hr = hash_rename_facts(df_tree, df_src)
    b = lambda x: "true" if x else "false"  # noqa: E731
    L = [
        "(* GENERATED from /repo on every run by translate/c13_facts.py -- do not edit *)",
        "From SF Require Import C13.Session.",
        f"Definition gen_cfg : cfg := mkCfg {b(early)} {b(reg['frozen'])} {b(reg['copy'])} {b(rd['views_first'])} "
        f"{reg['norm']} {rd['norm']} {b(reg['assign_first'])} {b(sq['skip_own'])} {b(sq['user_only'])} {b(sq['hash_user'])}.",
        "(* session.sql: lookup key <table>.name; target = last CTE of the view's chain; CTE names already present are",
        "   skipped; added CTEs follow the query's own; qualify (default True) runs first on the catalog's schema cache *)",
        "Definition splice_shape_recognised : bool := true.",
        "(* transforms.replace_id_value renames only identifiers that name a table (not part of the Coq model: CTE hash names) *)",
        f"Definition cte_rename_tables_only : bool := {b(rn['tables_only'])}.",
        "(* dataframe._replace_cte_names_with_hashes keeps one of several CTEs with the same hash name and body *)",
        f"Definition cte_hash_dedupe : bool := {b(hr['dedupe'])}.",
    ]
    facts = [
        {"name": "c_add_if_absent", "from": "catalog.py: _BaseCatalog.add_table (early return)", "value": early, "hash": h_add},
        {"name": "c_frozen/c_copy/c_assign_first/c_reg_norm", "from": "dataframe.py: createOrReplaceTempView",
         "value": {k: reg[k] for k in ("frozen", "copy", "assign_first", "norm")}, "hash": reg["hash"]},
        {"name": "c_views_first/c_tbl_norm", "from": "readerwriter.py: _BaseDataFrameReader.table",
         "value": {k: rd[k] for k in ("views_first", "norm")}, "hash": rd["hash"]},
        {"name": "splice_shape_recognised/c_skip_own_ctes/c_user_refs_only", "from": "session.py: _BaseSession.sql",
         "value": {"skip_own": sq["skip_own"], "user_only": sq["user_only"], "hash_user": sq["hash_user"]}, "hash": sq["hash"]},
        {"name": "cte_rename_tables_only", "from": "transforms.py: replace_id_value", "value": rn["tables_only"], "hash": rn["hash"]},
        {"name": "cte_hash_dedupe", "from": "dataframe.py: _replace_cte_names_with_hashes", "value": hr["dedupe"], "hash": hr["hash"]},
    ]
    return "\n".join(L) + "\n", facts


if __name__ == "__main__":
    import sys
    t, f = generate(sys.argv[1] if len(sys.argv) > 1 else "/repo")
    print(t)
    for x in f:
        print(x)
