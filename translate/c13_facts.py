"""T1 for C13: regenerate from /repo (fail-closed) the facts the temp-view theorems are parametric in.

  catalog.py      _BaseCatalog.add_table          early `return` when the table is already cached (add-if-absent)
  dataframe.py    createOrReplaceTempView         key normalisation; what is stored (frozen? fresh object?);
                                                  that the registry is written before catalog.add_table
                  _convert_leaf_to_cte            returns a copy
  readerwriter.py _BaseDataFrameReader.table      key normalisation; temp views consulted before the catalog
  session.py      _BaseSession.sql                shape of the splice: lookup key `<table>.name`, target = last CTE of the
                                                  view's chain, CTE names already present are skipped, added CTEs go after
                                                  the query's own, qualify defaults to True and runs before the splice
Anything that does not have one of the recognised shapes raises Untranslatable (reported as a broken T1 tie).
"""
from __future__ import annotations

import ast
import os

from vlib import py2v
from vlib.py2v import Untranslatable, dotted


def _body(fn):
    return [s for s in fn.body if not (isinstance(s, ast.Expr) and isinstance(s.value, ast.Constant))]


def _kw(call: ast.Call) -> dict:
    out = {}
    for k in call.keywords:
        if k.arg is None:
            out["**"] = k.value
        else:
            out[k.arg] = k.value
    return out


def norm_call_kind(value, var: str, where: str) -> str:
    """normalize_string(<var>, from_dialect="input"[, is_table=True]) -> NLower;  anything else is refused"""
    if not (isinstance(value, ast.Call) and dotted(value.func) == "normalize_string"):
        raise Untranslatable(f"{where}: key is computed by {ast.dump(value)[:80]}")
    if len(value.args) != 1 or dotted(value.args[0]) != var:
        raise Untranslatable(f"{where}: normalize_string is not applied to `{var}`")
    kw = _kw(value)
    fd = kw.pop("from_dialect", None)
    if not (isinstance(fd, ast.Constant) and fd.value == "input"):
        raise Untranslatable(f"{where}: from_dialect is not \"input\"")
    it = kw.pop("is_table", None)
    if it is not None and not (isinstance(it, ast.Constant) and it.value is True):
        raise Untranslatable(f"{where}: is_table is not the literal True")
    if kw:
        raise Untranslatable(f"{where}: unexpected normalize_string arguments {sorted(kw)}")
    return "NLower"


# ---- catalog.add_table ---------------------------------------------------------------------------------

def add_table_facts(tree, src):
    fn = py2v.find_method(tree, "_BaseCatalog", "add_table")
    body = _body(fn)
    if not body or not (isinstance(body[0], ast.Assign) and dotted(body[0].targets[0]) == "table"
                        and isinstance(body[0].value, ast.Call) and dotted(body[0].value.func) == "self.ensure_table"):
        raise Untranslatable("add_table: does not start with `table = self.ensure_table(table)`")
    early = False
    rest = body[1:]
    if rest and isinstance(rest[0], ast.If):
        iff = rest[0]
        t = iff.test
        is_find = isinstance(t, ast.Call) and dotted(t.func) == "self._schema.find" and len(t.args) == 1 \
            and dotted(t.args[0]) == "table" and not t.keywords
        if is_find:
            if iff.orelse or len(iff.body) != 1 or not isinstance(iff.body[0], ast.Return) or iff.body[0].value is not None:
                raise Untranslatable("add_table: the `if self._schema.find(table)` branch is not a bare early return")
            early = True
            rest = rest[1:]
    # no other early return at top level
    for st in rest:
        if isinstance(st, ast.Return):
            raise Untranslatable("add_table: another top-level return")
        if isinstance(st, ast.If) and any(isinstance(x, ast.Return) for x in ast.walk(st)):
            raise Untranslatable("add_table: a conditional return of an unrecognised shape")
    last = rest[-1] if rest else None
    ok_last = (isinstance(last, ast.Expr) and isinstance(last.value, ast.Call)
               and dotted(last.value.func) == "self._schema.add_table"
               and [dotted(a) for a in last.value.args[:2]] == ["table", "column_mapping"])
    if not ok_last:
        raise Untranslatable("add_table: does not end with self._schema.add_table(table, column_mapping, ...)")
    return early, py2v.src_hash(fn, src)


# ---- createOrReplaceTempView ---------------------------------------------------------------------------

def convert_leaf_returns_copy(tree) -> bool:
    fn = py2v.find_method(tree, "BaseDataFrame", "_convert_leaf_to_cte")
    body = _body(fn)
    last = body[-1]
    return (isinstance(last, ast.Return) and isinstance(last.value, ast.Call)
            and isinstance(last.value.func, ast.Attribute) and last.value.func.attr == "copy")


def register_facts(tree, src):
    fn = py2v.find_method(tree, "BaseDataFrame", "createOrReplaceTempView")
    args = [a.arg for a in fn.args.args]
    if args != ["self", "name"]:
        raise Untranslatable(f"createOrReplaceTempView: parameters {args}")
    body = _body(fn)
    key_var, norm = "name", "NRaw"
    stored_var = None
    frozen = copy = None
    i_assign = i_add = None
    cache_cols_from = None
    for i, st in enumerate(body):
        if isinstance(st, ast.Assign) and len(st.targets) == 1 and isinstance(st.targets[0], ast.Name):
            tgt = st.targets[0].id
            if isinstance(st.value, ast.Call) and dotted(st.value.func) == "normalize_string":
                if tgt != "name" or stored_var is not None or i_assign is not None:
                    raise Untranslatable("createOrReplaceTempView: normalisation in an unexpected place")
                norm = norm_call_kind(st.value, "name", "createOrReplaceTempView")
                continue
            # df = self.copy()._convert_leaf_to_cte() | self._convert_leaf_to_cte() | self.copy() | self
            v = st.value
            if stored_var is not None:
                raise Untranslatable("createOrReplaceTempView: more than one local DataFrame")
            stored_var = tgt
            if dotted(v) == "self":
                frozen, copy = False, False
            elif isinstance(v, ast.Call) and dotted(v.func) == "self.copy" and not v.args and not v.keywords:
                frozen, copy = False, True
            elif isinstance(v, ast.Call) and isinstance(v.func, ast.Attribute) and v.func.attr == "_convert_leaf_to_cte" \
                    and not v.args and not v.keywords:
                recv = v.func.value
                if dotted(recv) == "self":
                    frozen, copy = True, convert_leaf_returns_copy(tree)
                elif isinstance(recv, ast.Call) and dotted(recv.func) == "self.copy" and not recv.args and not recv.keywords:
                    frozen, copy = True, True
                else:
                    raise Untranslatable("createOrReplaceTempView: receiver of _convert_leaf_to_cte")
            else:
                raise Untranslatable("createOrReplaceTempView: stored value " + ast.dump(v)[:80])
            continue
        if isinstance(st, ast.Assign) and len(st.targets) == 1 and isinstance(st.targets[0], ast.Subscript):
            sub = st.targets[0]
            if dotted(sub.value) != "self.session.temp_views" or dotted(sub.slice) != key_var:
                raise Untranslatable("createOrReplaceTempView: registry write has another shape")
            val = dotted(st.value)
            if val == "self" and stored_var is None:
                frozen, copy, stored_var = False, False, "self"
            elif val != stored_var:
                raise Untranslatable("createOrReplaceTempView: registry stores something else than the local DataFrame")
            i_assign = i
            continue
        if isinstance(st, ast.Expr) and isinstance(st.value, ast.Call) \
                and dotted(st.value.func) == "self.session.catalog.add_table":
            call = st.value
            if len(call.args) != 2 or dotted(call.args[0]) != key_var or call.keywords:
                raise Untranslatable("createOrReplaceTempView: catalog.add_table arguments")
            lc = call.args[1]
            ok = (isinstance(lc, ast.ListComp) and dotted(lc.elt) == "x.alias_or_name" and len(lc.generators) == 1
                  and isinstance(lc.generators[0].iter, ast.Call)
                  and dotted(lc.generators[0].iter.func) == "self._get_outer_select_columns"
                  and len(lc.generators[0].iter.args) == 1)
            if not ok:
                raise Untranslatable("createOrReplaceTempView: column list given to the schema cache")
            cache_cols_from = dotted(lc.generators[0].iter.args[0])
            i_add = i
            continue
        raise Untranslatable("createOrReplaceTempView: statement " + type(st).__name__)
    if i_assign is None:
        raise Untranslatable("createOrReplaceTempView: no write to session.temp_views")
    if i_add is None:
        raise Untranslatable("createOrReplaceTempView: no catalog.add_table call")
    if cache_cols_from != (stored_var or "self") + ".expression":
        raise Untranslatable(f"createOrReplaceTempView: cached columns come from {cache_cols_from}")
    return {"norm": norm, "frozen": bool(frozen), "copy": bool(copy), "assign_first": i_assign < i_add,
            "hash": py2v.src_hash(fn, src)}


# ---- reader.table --------------------------------------------------------------------------------------

def reader_facts(tree, src):
    fn = py2v.find_method(tree, "_BaseDataFrameReader", "table")
    args = [a.arg for a in fn.args.args]
    if args != ["self", "tableName"]:
        raise Untranslatable(f"reader.table: parameters {args}")
    body = _body(fn)
    norm = "NRaw"
    i_views = i_catalog = None
    for i, st in enumerate(body):
        if isinstance(st, ast.Assign) and dotted(st.targets[0]) == "tableName":
            if i_views is not None or i_catalog is not None:
                raise Untranslatable("reader.table: tableName is re-assigned after a lookup")
            norm = norm_call_kind(st.value, "tableName", "reader.table")
            continue
        if isinstance(st, ast.If):
            t = st.test
            if isinstance(t, ast.NamedExpr) and isinstance(t.value, ast.Call) \
                    and dotted(t.value.func) == "self.session.temp_views.get" \
                    and len(t.value.args) == 1 and dotted(t.value.args[0]) == "tableName" and not t.value.keywords:
                var = t.target.id
                if st.orelse or len(st.body) != 1 or not isinstance(st.body[0], ast.Return) or dotted(st.body[0].value) != var:
                    raise Untranslatable("reader.table: the temp-view branch does not return the stored frame")
                if i_views is None:
                    i_views = i
                continue
        if any(dotted(n) == "self.session.catalog" for n in ast.walk(st)) or \
                any(isinstance(n, ast.Call) and dotted(n.func) == "self.session._create_table" for n in ast.walk(st)):
            if i_catalog is None:
                i_catalog = i
            continue
        if isinstance(st, ast.Assign) and dotted(st.targets[0]) == "table":
            continue
        raise Untranslatable("reader.table: statement " + type(st).__name__)
    if i_views is None:
        raise Untranslatable("reader.table: session.temp_views is not consulted")
    if i_catalog is None:
        raise Untranslatable("reader.table: catalog path not found")
    return {"norm": norm, "views_first": i_views < i_catalog, "hash": py2v.src_hash(fn, src)}


# ---- session.sql: shape of the splice --------------------------------------------------------------------

def sql_facts(tree, src):
    fn = py2v.find_method(tree, "_BaseSession", "sql")
    qd = None
    names = [a.arg for a in fn.args.args]
    defaults = dict(zip(names[len(names) - len(fn.args.defaults):], fn.args.defaults))
    if "qualify" not in defaults or not (isinstance(defaults["qualify"], ast.Constant) and defaults["qualify"].value is True):
        raise Untranslatable("session.sql: `qualify` does not default to True")
    # the `if self.temp_views:` block
    blocks = [s for s in fn.body if isinstance(s, ast.If) and dotted(s.test) == "self.temp_views"]
    if len(blocks) != 1:
        raise Untranslatable("session.sql: the `if self.temp_views:` block was not found exactly once")
    blk = blocks[0]
    # qualify runs before the splice
    qual_ifs = [s for s in fn.body if isinstance(s, ast.If) and dotted(s.test) == "qualify"]
    if len(qual_ifs) != 1 or fn.body.index(qual_ifs[0]) > fn.body.index(blk):
        raise Untranslatable("session.sql: qualify block missing or after the splice")
    qcalls = [n for n in ast.walk(qual_ifs[0]) if isinstance(n, ast.Call) and dotted(n.func) == "qualify_func"]
    if len(qcalls) != 1 or dotted(_kw(qcalls[0]).get("schema")) != "self.catalog._schema":
        raise Untranslatable("session.sql: qualify is not given the catalog's schema cache")
    loops = [s for s in blk.body if isinstance(s, ast.For)]
    if len(loops) != 1:
        raise Untranslatable("session.sql: expected one loop over the table references")
    loop = loops[0]
    it = loop.iter
    if not (isinstance(it, ast.Call) and isinstance(it.func, ast.Attribute) and it.func.attr == "find_all"
            and len(it.args) == 1 and dotted(it.args[0]) == "exp.Table" and isinstance(loop.target, ast.Name)):
        raise Untranslatable("session.sql: the loop does not range over find_all(exp.Table)")
    tvar = loop.target.id
    qd = dotted(it.func.value)
    # lookup key
    gets = [n for n in ast.walk(loop) if isinstance(n, ast.Call) and dotted(n.func) == "self.temp_views.get"]
    if len(gets) != 1 or len(gets[0].args) != 1 or dotted(gets[0].args[0]) != tvar + ".name":
        raise Untranslatable("session.sql: registry lookup key is not `<table>.name`")
    # target: <df>.expression.ctes[-1].alias_or_name stored under the table node
    tgt_ok = False
    for n in ast.walk(loop):
        if isinstance(n, ast.Assign) and isinstance(n.targets[0], ast.Subscript) and dotted(n.targets[0].slice) == tvar:
            v = n.value
            if isinstance(v, ast.Attribute) and v.attr == "alias_or_name" and isinstance(v.value, ast.Subscript):
                sub = v.value
                idx = sub.slice
                neg1 = isinstance(idx, ast.UnaryOp) and isinstance(idx.op, ast.USub) and isinstance(idx.operand, ast.Constant) \
                    and idx.operand.value == 1
                d = dotted(sub.value)
                if neg1 and d and d.endswith(".expression.ctes"):
                    tgt_ok = True
    if not tgt_ok:
        raise Untranslatable("session.sql: the reference is not retargeted to `<view>.expression.ctes[-1]`")
    # skip CTE names already present
    skip_ok = False
    for n in ast.walk(loop):
        if isinstance(n, ast.If) and isinstance(n.test, ast.Compare) and len(n.test.ops) == 1 \
                and isinstance(n.test.ops[0], ast.NotIn) and dotted(n.test.left) and dotted(n.test.left).endswith(".alias_or_name"):
            if any(isinstance(x, ast.Call) and isinstance(x.func, ast.Attribute) and x.func.attr == "append" for x in ast.walk(n)) \
                    and not n.orelse:
                skip_ok = True
    if not skip_ok:
        raise Untranslatable("session.sql: `if cte.alias_or_name not in <present>: append` not found")
    # appended after the query's own CTEs
    app_ok = False
    for n in ast.walk(loop):
        if isinstance(n, ast.Call) and dotted(n.func) == "exp.With":
            e = _kw(n).get("expressions")
            if isinstance(e, ast.BinOp) and isinstance(e.op, ast.Add) and dotted(e.left) == (qd or "") + ".ctes" \
                    and isinstance(e.right, ast.Name):
                app_ok = True
    if not app_ok:
        raise Untranslatable("session.sql: added CTEs are not appended after the query's own (`<q>.ctes + ctes_to_add`)")
    return {"hash": py2v.src_hash(fn, src)}


def generate(repo: str):
    cat_tree, cat_src = py2v.load(os.path.join(repo, "sqlframe/base/catalog.py"))
    df_tree, df_src = py2v.load(os.path.join(repo, "sqlframe/base/dataframe.py"))
    rw_tree, rw_src = py2v.load(os.path.join(repo, "sqlframe/base/readerwriter.py"))
    se_tree, se_src = py2v.load(os.path.join(repo, "sqlframe/base/session.py"))
    early, h_add = add_table_facts(cat_tree, cat_src)
    reg = register_facts(df_tree, df_src)
    rd = reader_facts(rw_tree, rw_src)
    sq = sql_facts(se_tree, se_src)
    b = lambda x: "true" if x else "false"  # noqa: E731
    L = [
        "(* GENERATED from /repo on every run by translate/c13_facts.py -- do not edit *)",
        "From SF Require Import C13.Session.",
        f"Definition gen_cfg : cfg := mkCfg {b(early)} {b(reg['frozen'])} {b(reg['copy'])} {b(rd['views_first'])} "
        f"{reg['norm']} {rd['norm']} {b(reg['assign_first'])}.",
        "(* session.sql: lookup key <table>.name; target = last CTE of the view's chain; CTE names already present are",
        "   skipped; added CTEs follow the query's own; qualify (default True) runs first on the catalog's schema cache *)",
        "Definition splice_shape_recognised : bool := true.",
    ]
    facts = [
        {"name": "c_add_if_absent", "from": "catalog.py: _BaseCatalog.add_table (early return)", "value": early, "hash": h_add},
        {"name": "c_frozen/c_copy/c_assign_first/c_reg_norm", "from": "dataframe.py: createOrReplaceTempView",
         "value": {k: reg[k] for k in ("frozen", "copy", "assign_first", "norm")}, "hash": reg["hash"]},
        {"name": "c_views_first/c_tbl_norm", "from": "readerwriter.py: _BaseDataFrameReader.table",
         "value": {k: rd[k] for k in ("views_first", "norm")}, "hash": rd["hash"]},
        {"name": "splice_shape_recognised", "from": "session.py: _BaseSession.sql", "value": True, "hash": sq["hash"]},
    ]
    return "\n".join(L) + "\n", facts


if __name__ == "__main__":
    import sys
    t, f = generate(sys.argv[1] if len(sys.argv) > 1 else "/repo")
    print(t)
    for x in f:
        print(x)
