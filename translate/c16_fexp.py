"""C16 / T1: base/functions.py + base/function_alternatives.py  ->  the `fexp`/`stm` DSL of coq/theories/C16/Fexp.v.

FAIL-CLOSED.  Every Python construct is either translated according to the table in this file or becomes
`EOpaque why` / `SOpaque why` (which the Coq semantics evaluates to "unknown": the entry is then NOT decided by
the theorem and is listed in the evidence).  Nothing is guessed: a name that cannot be resolved, an unknown
decorator, an import with an unknown role, a non-ASCII constant ... all end as Opaque with the reason.
Facts about the coercing primitives (base/column.py, functions.col, functions.lit), about the engines' sessions
and about what each engine's functions module exports are read by exact shape; a shape that is not recognised
raises `Untranslatable` (= broken T1 tie).
"""
from __future__ import annotations

import ast
import hashlib
import os

from vlib.core import strlit, zlit, listlit
from vlib.py2v import Untranslatable

ENGINES = ["standalone", "spark", "duckdb", "bigquery", "postgres", "redshift", "snowflake", "databricks"]

BINOPS = {ast.Add: "add", ast.Sub: "sub", ast.Mult: "mul", ast.Div: "truediv", ast.Mod: "mod", ast.Pow: "pow",
          ast.BitAnd: "and", ast.BitOr: "or", ast.FloorDiv: "floordiv", ast.BitXor: "xor",
          ast.LShift: "lshift", ast.RShift: "rshift", ast.MatMult: "matmul"}
CMPOPS = {ast.Eq: "eq", ast.NotEq: "ne", ast.Lt: "lt", ast.LtE: "le", ast.Gt: "gt", ast.GtE: "ge",
          ast.Is: "is", ast.IsNot: "isnot", ast.In: "in", ast.NotIn: "notin"}
UNOPS = {ast.USub: "neg", ast.Invert: "invert", ast.UAdd: "pos"}

# module-level imports whose role the translator knows: (module, imported name) -> role
IMPORT_ROLES = {
    ("sqlglot", "exp"): "EXP",
    ("sqlframe.base.column", "Column"): "COLUMN",
    ("sqlframe.base.util", "get_func_from_session"): "GETFUNC",
    ("sqlglot.helper", "ensure_list"): "ENSURE_LIST",
    ("sqlglot.helper", "flatten"): "FLATTEN",
    ("sqlframe.base.decorators", "func_metadata"): "META",
    ("sqlframe.base.session", "_BaseSession"): "SESSION_CLS",
}
BUILTIN_TYPES = {"str", "int", "float", "bool", "list", "tuple", "set", "dict", "bytes"}
BUILTIN_PRIMS = {"len": "len", "list": "list", "tuple": "tuple", "str": "str", "reversed": "reversed"}
MUTATORS = {"append": "append", "extend": "extend"}


def dotted(node):
    if isinstance(node, ast.Name):
        return node.id
    if isinstance(node, ast.Attribute):
        b = dotted(node.value)
        return None if b is None else b + "." + node.attr
    return None


# ---------------------------------------------------------------------------------------------------
# Coq term builders (plain strings)
# ---------------------------------------------------------------------------------------------------

def c_str(s):
    return strlit(s)          # raises ValueError on non-ASCII: caught per function


def c_list(xs):
    return listlit(xs)


def c_kw(kws):
    return c_list([f"({c_str(k)}, {v})" for k, v in kws])


def c_opt(x):
    return "None" if x is None else f"(Some {x})"


def E_const(v):
    if v is None:
        return "(EConst KNone)"
    if isinstance(v, bool):
        return f"(EConst (KBool {'true' if v else 'false'}))"
    if isinstance(v, int):
        return f"(EConst (KInt {zlit(v)}))"
    if isinstance(v, float):
        return f"(EConst (KFloat {c_str(repr(v))}))"
    if isinstance(v, str):
        return f"(EConst (KStr {c_str(v)}))"
    raise Opaque(f"constant of type {type(v).__name__}")


class Opaque(Exception):
    """construct outside the subset: becomes EOpaque/SOpaque (never a guess)"""


def E_opaque(why):
    return f"(EOpaque {c_str(ascii(why)[1:-1][:120])})"


def S_opaque(why):
    return f"(SOpaque {c_str(ascii(why)[1:-1][:120])})"


# ---------------------------------------------------------------------------------------------------
# module environment
# ---------------------------------------------------------------------------------------------------

class ModuleEnv:
    def __init__(self, path, modname):
        with open(path) as f:
            self.src = f.read()
        self.path = path
        self.modname = modname
        self.tree = ast.parse(self.src)
        self.roles = {}        # local name -> role
        self.consts = {}       # module-level simple names with a role "MODULE:<name>" (math, re, logging ...)
        self.defs = {}         # name -> FunctionDef
        self.aliases = {}      # alias -> canonical def name
        self.order = []
        for n in self.tree.body:
            self._top(n)

    def _top(self, n):
        if isinstance(n, ast.ImportFrom):
            for a in n.names:
                local = a.asname or a.name
                role = IMPORT_ROLES.get((n.module, a.name))
                self.roles[local] = role or f"UNKNOWN:{n.module}.{a.name}"
        elif isinstance(n, ast.Import):
            for a in n.names:
                local = a.asname or a.name
                self.roles[local] = f"MODULE:{a.name}"
        elif isinstance(n, ast.FunctionDef):
            self.defs[n.name] = n
            self.aliases.pop(n.name, None)
            self.roles.pop(n.name, None)
            self.order.append(n.name)
        elif isinstance(n, ast.Assign) and len(n.targets) == 1 and isinstance(n.targets[0], ast.Name):
            tgt = n.targets[0].id
            if isinstance(n.value, ast.Name) and (n.value.id in self.defs or n.value.id in self.aliases):
                self.aliases[tgt] = self.aliases.get(n.value.id, n.value.id)
                self.defs.pop(tgt, None)
                self.order.append(tgt)
            else:
                self.roles[tgt] = "UNKNOWN:module-assign"       # logger = ..., etc.
                if tgt == "logger":
                    self.roles[tgt] = "LOGGER"
                else:
                    try:                                         # a module-level constant table / literal
                        ast.literal_eval(n.value)
                        self.roles[tgt] = "CONST"
                    except (ValueError, SyntaxError):
                        pass
        elif isinstance(n, ast.If):
            # `if t.TYPE_CHECKING:` block: typing-only imports -> names exist only for annotations
            if dotted(n.test) in ("t.TYPE_CHECKING", "typing.TYPE_CHECKING", "TYPE_CHECKING"):
                for m in n.body:
                    if isinstance(m, ast.ImportFrom):
                        for a in m.names:
                            self.roles[a.asname or a.name] = "TYPING_ONLY"
                    else:
                        raise Untranslatable(f"{self.modname}: unexpected statement under TYPE_CHECKING")
            else:
                raise Untranslatable(f"{self.modname}: module-level if that is not TYPE_CHECKING (line {n.lineno})")
        elif isinstance(n, ast.Expr) and isinstance(n.value, ast.Constant):
            pass
        else:
            raise Untranslatable(f"{self.modname}: unexpected module-level statement {type(n).__name__} (line {n.lineno})")

    def canonical(self, name):
        if name in self.defs:
            return name
        return self.aliases.get(name)


# ---------------------------------------------------------------------------------------------------
# function translator
# ---------------------------------------------------------------------------------------------------

class FuncTranslator:
    def __init__(self, menv: ModuleEnv, fn: ast.FunctionDef, all_funcs: set):
        self.m = menv
        self.fn = fn
        self.all_funcs = all_funcs        # names with a body in the table (both modules)
        self.opaque = []                  # reasons
        self.local_roles = {}             # names bound by imports inside the body
        self.locals = set()
        a = fn.args
        for x in a.posonlyargs + a.args + a.kwonlyargs:
            self.locals.add(x.arg)
        if a.vararg:
            self.locals.add(a.vararg.arg)
        if a.kwarg:
            self.locals.add(a.kwarg.arg)
        for n in ast.walk(fn):
            if n is fn:
                continue
            if isinstance(n, (ast.Assign, ast.AnnAssign, ast.AugAssign, ast.For)):
                tgts = n.targets if isinstance(n, ast.Assign) else [n.target]
                for tg in tgts:
                    for nm in ast.walk(tg):
                        if isinstance(nm, ast.Name):
                            self.locals.add(nm.id)
            elif isinstance(n, (ast.FunctionDef, ast.ClassDef)):
                self.locals.add(n.name)
            elif isinstance(n, ast.NamedExpr):
                self.locals.add(n.target.id)
            elif isinstance(n, (ast.Global, ast.Nonlocal)):
                raise Opaque("global/nonlocal")
        self.comp_vars = []

    # ---- names ---------------------------------------------------------------------------------
    def role_of(self, name):
        """role of a NON-local name, or None"""
        if name in self.local_roles:
            return self.local_roles[name]
        return self.m.roles.get(name)

    def is_local(self, name):
        return name in self.locals or name in self.comp_vars

    def name_expr(self, name):
        if self.is_local(name):
            return f"(EVar {c_str(name)})"
        if name in self.local_roles:
            r = self.local_roles[name]
            if r.startswith("FUN:"):
                return f"(EFun {c_str(r[4:])})"
            raise Opaque(f"bare use of imported name {name} ({r})")
        canon = self.m.canonical(name)
        if canon is not None:
            return f"(EFun {c_str(canon)})"
        if self.m.roles.get(name) == "CONST":
            # a module-level literal (never re-assigned at module level: a second assignment overwrites the role)
            return f"(EPrim \"modconst\" [{E_const(name)}] [])"
        raise Opaque(f"bare use of name {name}")

    # ---- expressions -----------------------------------------------------------------------------
    def tr(self, e) -> str:
        try:
            return self._tr(e)
        except Opaque as o:
            self.opaque.append(f"line {getattr(e, 'lineno', '?')}: {o}")
            return E_opaque(str(o))
        except ValueError as ve:       # non-ASCII literal
            self.opaque.append(f"line {getattr(e, 'lineno', '?')}: {ve}")
            return E_opaque("non-ascii constant")

    def args_of(self, call: ast.Call):
        args = []
        for a in call.args:
            if isinstance(a, ast.Starred):
                args.append(f"(EStar {self.tr(a.value)})")
            else:
                args.append(self.tr(a))
        kws = []
        for k in call.keywords:
            if k.arg is None:
                # **{...} with constant string keys only
                if isinstance(k.value, ast.Dict) and all(
                        isinstance(kk, ast.Constant) and isinstance(kk.value, str) for kk in k.value.keys):
                    for kk, vv in zip(k.value.keys, k.value.values):
                        kws.append((kk.value, self.tr(vv)))
                else:
                    raise Opaque("**kwargs expansion of a non-literal")
            else:
                kws.append((k.arg, self.tr(k.value)))
        return args, kws

    def type_names(self, node):
        elts = node.elts if isinstance(node, ast.Tuple) else [node]
        out = []
        for el in elts:
            if isinstance(el, ast.Call) and isinstance(el.func, ast.Name) and el.func.id == "type" \
                    and not self.is_local("type") and self.m.canonical("type") is None and "type" not in self.m.roles \
                    and len(el.args) == 1 and not el.keywords and isinstance(el.args[0], ast.Constant) \
                    and type(el.args[0].value) is str:
                out.append("str")           # type("") is str (written so where a parameter is called `str`)
                continue
            d = dotted(el)
            if d is None:
                raise Opaque("isinstance against a computed type")
            head = d.split(".")[0]
            if self.is_local(head):
                raise Opaque(f"isinstance against a local name {head}")
            if d in BUILTIN_TYPES:
                if self.m.canonical(d) is not None or d in self.m.roles:
                    raise Opaque(f"builtin type name {d} is shadowed at module level")
                out.append(d)
            elif self.role_of(head) == "COLUMN" and d == head:
                out.append("Column")
            elif self.role_of(head) == "EXP":
                out.append("expression." + d.split(".", 1)[1])
            else:
                out.append("other:" + d)
        return out

    def _tr(self, e) -> str:
        if isinstance(e, ast.Constant):
            return E_const(e.value)
        if isinstance(e, ast.Name):
            return self.name_expr(e.id)
        if isinstance(e, ast.Attribute):
            d = dotted(e)
            if d is not None:
                head = d.split(".")[0]
                if not self.is_local(head):
                    role = self.role_of(head)
                    if role == "EXP":
                        return f"(EPrim \"exp\" [{E_const(d.split('.', 1)[1])}] [])"
                    if role == "MODULE:math" and d in ("math.e", "math.pi"):
                        return f"(EConst (KFloat {c_str(d)}))"
                    if role == "CONST":
                        return f"(EAttr {self.tr(e.value)} {c_str(e.attr)})"
                    if role is not None or self.m.canonical(head) is None:
                        raise Opaque(f"attribute of module-level name {d}")
            return f"(EAttr {self.tr(e.value)} {c_str(e.attr)})"
        if isinstance(e, ast.Call):
            return self.tr_call(e)
        if isinstance(e, ast.BinOp):
            op = BINOPS.get(type(e.op))
            if op is None:
                raise Opaque("operator " + type(e.op).__name__)
            return f"(EBin {c_str(op)} {self.tr(e.left)} {self.tr(e.right)})"
        if isinstance(e, ast.UnaryOp):
            if isinstance(e.op, ast.Not):
                return f"(ENot {self.tr(e.operand)})"
            if isinstance(e.op, ast.USub) and isinstance(e.operand, ast.Constant) and isinstance(e.operand.value, int) \
                    and not isinstance(e.operand.value, bool):
                return E_const(-e.operand.value)
            return f"(EUn {c_str(UNOPS[type(e.op)])} {self.tr(e.operand)})"
        if isinstance(e, ast.Compare):
            if len(e.ops) != 1:
                raise Opaque("chained comparison")
            return f"(ECmp {c_str(CMPOPS[type(e.ops[0])])} {self.tr(e.left)} {self.tr(e.comparators[0])})"
        if isinstance(e, ast.BoolOp):
            ctor = "EAnd" if isinstance(e.op, ast.And) else "EOr"
            vals = [self.tr(v) for v in e.values]
            acc = vals[-1]
            for v in reversed(vals[:-1]):
                acc = f"({ctor} {v} {acc})"
            return acc
        if isinstance(e, ast.IfExp):
            return f"(EIf {self.tr(e.test)} {self.tr(e.body)} {self.tr(e.orelse)})"
        if isinstance(e, (ast.List, ast.Tuple)):
            items = []
            for x in e.elts:
                if isinstance(x, ast.Starred):
                    items.append(f"(EStar {self.tr(x.value)})")
                else:
                    items.append(self.tr(x))
            return f"(EList {'true' if isinstance(e, ast.Tuple) else 'false'} {c_list(items)})"
        if isinstance(e, ast.Subscript):
            if isinstance(e.slice, ast.Slice):
                s = e.slice
                return (f"(ESlice {self.tr(e.value)} {c_opt(self.tr(s.lower) if s.lower else None)} "
                        f"{c_opt(self.tr(s.upper) if s.upper else None)} {c_opt(self.tr(s.step) if s.step else None)})")
            return f"(ESub {self.tr(e.value)} {self.tr(e.slice)})"
        if isinstance(e, ast.ListComp):
            if len(e.generators) != 1:
                raise Opaque("nested comprehension")
            g = e.generators[0]
            if g.is_async or not isinstance(g.target, ast.Name) or len(g.ifs) > 1:
                raise Opaque("comprehension shape")
            it = self.tr(g.iter)
            self.comp_vars.append(g.target.id)
            try:
                elt = self.tr(e.elt)
                cond = self.tr(g.ifs[0]) if g.ifs else None
            finally:
                self.comp_vars.pop()
            return f"(EComp {c_str(g.target.id)} {it} {elt} {c_opt(cond)})"
        if isinstance(e, ast.JoinedStr):
            parts = []
            for v in e.values:
                if isinstance(v, ast.Constant):
                    parts.append(E_const(v.value))
                elif isinstance(v, ast.FormattedValue) and v.conversion == -1 and v.format_spec is None:
                    parts.append(self.tr(v.value))
                else:
                    raise Opaque("f-string with conversion/format spec")
            return f"(EPrim \"fstr\" {c_list(parts)} [])"
        raise Opaque("expression " + type(e).__name__)

    def tr_call(self, c: ast.Call) -> str:
        f = c.func
        d = dotted(f)
        head = d.split(".")[0] if d else None
        if d is not None and not self.is_local(head):
            role = self.role_of(head)
            # ---- Column.<classmethod>(...) / Column(...)
            if role == "COLUMN":
                if d == head:
                    args, kws = self.args_of(c)
                    if kws or len(args) != 1:
                        raise Opaque("Column(...) with unusual arguments")
                    return f"(EPrim \"Column\" {c_list(args)} [])"
                meth = d.split(".", 1)[1]
                if meth == "ensure_col":
                    args, kws = self.args_of(c)
                    if kws or len(args) != 1:
                        raise Opaque("ensure_col with unusual arguments")
                    return f"(EPrim \"ensure_col\" {c_list(args)} [])"
                if meth == "invoke_anonymous_function":
                    args, kws = self.args_of(c)
                    kw = dict(kws)
                    if set(kw) - {"column", "func_name"}:
                        raise Opaque("invoke_anonymous_function with unknown keywords")
                    if "column" in kw:
                        args = [kw.pop("column")] + args
                    if "func_name" in kw:
                        if len(args) != 1:
                            raise Opaque("invoke_anonymous_function keyword mix")
                        args = args + [kw.pop("func_name")]
                    if len(args) < 2 or args[0].startswith("(EStar") or args[1].startswith("(EStar"):
                        raise Opaque("invoke_anonymous_function arity")
                    return f"(EPrim \"anon\" {c_list(args)} [])"
                if meth == "invoke_expression_over_column":
                    pos = list(c.args)
                    kwn = {k.arg: k.value for k in c.keywords if k.arg in ("column", "callable_expression")}
                    rest = [k for k in c.keywords if k.arg not in ("column", "callable_expression")]
                    if any(isinstance(a, ast.Starred) for a in pos):
                        raise Opaque("invoke_expression_over_column with *args")
                    if "column" in kwn:
                        pos = [kwn["column"]] + pos
                    if "callable_expression" in kwn:
                        pos = pos + [kwn["callable_expression"]]
                    if len(pos) != 2:
                        raise Opaque("invoke_expression_over_column arity")
                    cd = dotted(pos[1])
                    if cd is None or self.is_local(cd.split(".")[0]) or self.role_of(cd.split(".")[0]) != "EXP":
                        raise Opaque("invoke_expression_over_column with a computed class")
                    fake = ast.Call(func=f, args=[], keywords=rest)
                    _, kws = self.args_of(fake)
                    return (f"(EPrim \"over\" [{self.tr(pos[0])}; {E_const(cd.split('.', 1)[1])}] {c_kw(kws)})")
                raise Opaque(f"Column.{meth}")
            # ---- sqlglot constructors / helpers: free symbols
            if role == "EXP":
                if d == head:
                    raise Opaque("call of the sqlglot module object")
                args, kws = self.args_of(c)
                return f"(EPrim \"exp\" {c_list([E_const(d.split('.', 1)[1])] + args)} {c_kw(kws)})"
            if role == "GETFUNC" and d == head:
                if not c.args or c.keywords and any(k.arg not in ("session", "fallback") for k in c.keywords):
                    raise Opaque("get_func_from_session shape")
                for extra in c.args[1:] + [k.value for k in c.keywords]:
                    ok = isinstance(extra, ast.Name) or (
                        isinstance(extra, ast.Call) and dotted(extra.func) is not None
                        and self.role_of(dotted(extra.func)) == "SESSION_CLS" and not extra.args)
                    if not ok:
                        raise Opaque("get_func_from_session with a computed session")
                return f"(EPrim \"get_func\" [{self.tr(c.args[0])}] [])"
            if role == "SESSION_CLS" and d == head:
                if c.args or c.keywords:
                    raise Opaque("_BaseSession(...) with arguments")
                return "(EPrim \"session\" [] [])"
            if role == "ENSURE_LIST" and d == head:
                args, kws = self.args_of(c)
                if kws or len(args) != 1:
                    raise Opaque("ensure_list arity")
                return f"(EPrim \"ensure_list\" {c_list(args)} [])"
            if role == "FLATTEN" and d == head:
                args, kws = self.args_of(c)
                if kws or len(args) != 1:
                    raise Opaque("flatten arity")
                return f"(EPrim \"flatten\" {c_list(args)} [])"
            if role == "LOGGER" and d in (head + ".warning", head + ".info", head + ".debug"):
                return "(EPrim \"warn\" [] [])"
            if role is not None and role.startswith("FUN:") and d == head:
                args, kws = self.args_of(c)
                return f"(ECall (EFun {c_str(role[4:])}) {c_list(args)} {c_kw(kws)})"
            if role == "CONST" and d != head and isinstance(f, ast.Attribute):
                args, kws = self.args_of(c)
                return f"(EMethod {self.tr(f.value)} {c_str(f.attr)} {c_list(args)} {c_kw(kws)})"
            if role == "MODULE:re" and d in ("re.sub", "re.escape"):
                # pure functions of the standard library over str arguments: an opaque deterministic str
                args, kws = self.args_of(c)
                if kws:
                    raise Opaque(f"{d} with keywords")
                return f"(EPrim \"pure\" {c_list([E_const(d)] + args)} [])"
            if role == "TYPING_ONLY" and d == head:
                # imported under `if TYPE_CHECKING:` only: the name does not exist at run time
                return "(EPrim \"nameerror\" [] [])"
            if role is not None:
                raise Opaque(f"call of {d} ({role})")
            canon = self.m.canonical(head)
            if canon is not None and d == head:
                if canon == "_get_session":
                    return "(EPrim \"session\" [] [])"
                args, kws = self.args_of(c)
                return f"(ECall (EFun {c_str(canon)}) {c_list(args)} {c_kw(kws)})"
            if canon is None and d == head:
                # builtins
                if head == "isinstance":
                    if len(c.args) != 2 or c.keywords:
                        raise Opaque("isinstance arity")
                    tys = self.type_names(c.args[1])
                    return f"(EIsInst {self.tr(c.args[0])} {c_list([c_str(x) for x in tys])})"
                if head in BUILTIN_PRIMS:
                    args, kws = self.args_of(c)
                    if kws:
                        raise Opaque(f"{head}() with keywords")
                    return f"(EPrim {c_str(BUILTIN_PRIMS[head])} {c_list(args)} [])"
                if head == "float" and len(c.args) == 1 and isinstance(c.args[0], ast.Constant) \
                        and isinstance(c.args[0].value, str):
                    return f"(EConst (KFloat {c_str(c.args[0].value)}))"
                raise Opaque(f"call of builtin/unknown {head}")
            if canon is None:
                raise Opaque(f"call of {d}")
        # ---- method call on a value
        if isinstance(f, ast.Attribute):
            args, kws = self.args_of(c)
            return f"(EMethod {self.tr(f.value)} {c_str(f.attr)} {c_list(args)} {c_kw(kws)})"
        # ---- call of a local variable / computed callee
        args, kws = self.args_of(c)
        return f"(ECall {self.tr(f)} {c_list(args)} {c_kw(kws)})"

    # ---- statements ------------------------------------------------------------------------------
    def block(self, stmts) -> str:
        if not stmts:
            return "SFall"
        s, rest = stmts[0], stmts[1:]
        try:
            return self._stmt(s, rest)
        except Opaque as o:
            self.opaque.append(f"line {s.lineno}: {o}")
            return S_opaque(str(o))
        except ValueError as ve:
            self.opaque.append(f"line {s.lineno}: {ve}")
            return S_opaque("non-ascii constant")

    def _stmt(self, s, rest) -> str:
        if isinstance(s, ast.Return):
            return f"(SRet {self.tr(s.value) if s.value is not None else E_const(None)})"
        if isinstance(s, ast.Pass):
            return self.block(rest)
        if isinstance(s, ast.Expr):
            v = s.value
            if isinstance(v, ast.Constant):
                return self.block(rest)        # docstring
            if isinstance(v, ast.Call):
                d = dotted(v.func)
                if d is not None:
                    head = d.split(".")[0]
                    if not self.is_local(head) and self.role_of(head) == "LOGGER":
                        return self.block(rest)
                    if self.is_local(head) and d.count(".") == 1:
                        meth = d.split(".")[1]
                        if meth in MUTATORS and len(v.args) == 1 and not v.keywords:
                            return (f"(SAssign {c_str(head)} (EPrim {c_str(MUTATORS[meth])} "
                                    f"[EVar {c_str(head)}; {self.tr(v.args[0])}] []) {self.block(rest)})")
                        if meth == "set":
                            args, kws = self.args_of(v)
                            return (f"(SAssign {c_str(head)} (EMethod (EVar {c_str(head)}) \"set\" {c_list(args)} "
                                    f"{c_kw(kws)}) {self.block(rest)})")
            raise Opaque("expression statement")
        if isinstance(s, (ast.Assign, ast.AnnAssign)):
            if isinstance(s, ast.Assign):
                if len(s.targets) != 1:
                    raise Opaque("multiple assignment targets")
                tgt, val = s.targets[0], s.value
            else:
                tgt, val = s.target, s.value
                if val is None:
                    return self.block(rest)
            if not isinstance(tgt, ast.Name):
                raise Opaque("assignment to " + type(tgt).__name__)
            return f"(SAssign {c_str(tgt.id)} {self.tr(val)} {self.block(rest)})"
        if isinstance(s, ast.If):
            return f"(SIf {self.tr(s.test)} {self.block(s.body)} {self.block(s.orelse)} {self.block(rest)})"
        if isinstance(s, ast.ImportFrom):
            for a in s.names:
                local = a.asname or a.name
                if local in self.locals:
                    raise Opaque(f"imported name {local} is also assigned")
                if s.module in ("sqlframe.base.function_alternatives", "sqlframe.base.functions"):
                    if a.name not in self.all_funcs:
                        raise Opaque(f"import of unknown function {a.name}")
                    self.local_roles[local] = "FUN:" + a.name
                else:
                    self.local_roles[local] = IMPORT_ROLES.get((s.module, a.name), f"UNKNOWN:{s.module}.{a.name}")
            return self.block(rest)
        if isinstance(s, ast.For):
            if s.orelse or not isinstance(s.target, ast.Name):
                raise Opaque("for loop with else / tuple target")
            return f"(SFor {c_str(s.target.id)} {self.tr(s.iter)} {self.block(s.body)} {self.block(rest)})"
        if isinstance(s, ast.Break):
            return "SBreak"
        if isinstance(s, ast.Raise):
            name = "exception"
            if s.exc is not None:
                name = dotted(s.exc.func if isinstance(s.exc, ast.Call) else s.exc) or "exception"
            return f"(SRaise {c_str(name)})"
        raise Opaque("statement " + type(s).__name__)

    # ---- whole function -------------------------------------------------------------------------
    def params(self):
        a = self.fn.args
        if a.kwarg:
            raise Opaque("**kwargs parameter")
        pos = a.posonlyargs + a.args
        out = []
        nd = len(a.defaults)
        for i, x in enumerate(pos):
            d = a.defaults[i - (len(pos) - nd)] if i >= len(pos) - nd else None
            out.append(f"(mkParam {c_str(x.arg)} PPos {c_opt(self.tr(d) if d is not None else None)})")
        if a.vararg:
            out.append(f"(mkParam {c_str(a.vararg.arg)} PVar None)")
        for x, d in zip(a.kwonlyargs, a.kw_defaults):
            out.append(f"(mkParam {c_str(x.arg)} PKwOnly {c_opt(self.tr(d) if d is not None else None)})")
        return out


def decorator_unsupported(menv: ModuleEnv, fn: ast.FunctionDef):
    """unsupported_engines of @meta(...); [] when undecorated; raises Opaque on any other decorator"""
    if not fn.decorator_list:
        return [], False
    if len(fn.decorator_list) != 1:
        raise Opaque("several decorators")
    d = fn.decorator_list[0]
    if not (isinstance(d, ast.Call) and isinstance(d.func, ast.Name) and menv.roles.get(d.func.id) == "META"):
        raise Opaque("unknown decorator " + ast.unparse(d))
    if d.args:
        raise Opaque("positional decorator argument")
    uns = []
    for k in d.keywords:
        if k.arg != "unsupported_engines":
            raise Opaque("unknown decorator keyword " + str(k.arg))
        v = k.value
        if isinstance(v, ast.Constant) and isinstance(v.value, str):
            uns = [v.value]
        elif isinstance(v, ast.List) and all(isinstance(x, ast.Constant) and isinstance(x.value, str) for x in v.elts):
            uns = [x.value for x in v.elts]
        else:
            raise Opaque("computed unsupported_engines")
    return uns, True


def translate_module(menv: ModuleEnv, all_funcs: set):
    """{name: {"coq": fdef term, "unsupported": [...], "decorated": bool, "opaque": [reasons], "line", "hash"}}"""
    out = {}
    for name, fn in menv.defs.items():
        seg = ast.get_source_segment(menv.src, fn) or ""
        info = {"line": fn.lineno, "hash": hashlib.sha1(seg.encode()).hexdigest()[:12], "module": menv.modname}
        try:
            uns, decorated = decorator_unsupported(menv, fn)
            ft = FuncTranslator(menv, fn, all_funcs)
            params = ft.params()
            body = ft.block(fn.body)
            info.update(unsupported=uns, decorated=decorated, opaque=ft.opaque,
                        coq=f"(mkFdef {c_list(params)} {c_list([c_str(u) for u in uns])} {body})")
        except (Opaque, ValueError) as o:
            uns = []
            try:
                uns, _ = decorator_unsupported(menv, fn)
            except Opaque:
                pass
            info.update(unsupported=uns, decorated=bool(fn.decorator_list), opaque=[f"whole function: {o}"],
                        coq=f"(mkFdef [] {c_list([c_str(u) for u in uns])} {S_opaque('whole function: ' + str(o))})",
                        whole_opaque=True)
        out[name] = info
    return out


# ---------------------------------------------------------------------------------------------------
# facts about the coercing primitives (exact shapes; anything else -> Untranslatable)
# ---------------------------------------------------------------------------------------------------

def _norm(fn):
    """the function without docstrings, comments, annotations, typing.cast, logging statements and `pass`
    (vlib.py2v.normalize_func; local names are kept, the recognisers below leave them free)"""
    from vlib import py2v
    return py2v.normalize_func(fn, rename_locals=False)


def _method(cls: ast.ClassDef, name):
    for n in cls.body:
        if isinstance(n, ast.FunctionDef) and n.name == name:
            return _norm(n)
    raise Untranslatable(f"Column.{name} not found")


def _body(fn):
    b = fn.body
    if b and isinstance(b[0], ast.Expr) and isinstance(b[0].value, ast.Constant) and isinstance(b[0].value.value, str):
        b = b[1:]
    return b


def _is_call(n, d, nargs=None):
    return isinstance(n, ast.Call) and dotted(n.func) == d and (nargs is None or len(n.args) == nargs)


def primitive_facts(repo):
    path = os.path.join(repo, "sqlframe/base/column.py")
    with open(path) as f:
        src = f.read()
    tree = ast.parse(src)
    cls = next((n for n in tree.body if isinstance(n, ast.ClassDef) and n.name == "Column"), None)
    if cls is None:
        raise Untranslatable("class Column not found")
    facts = {}
    why = {}

    # ensure_col:  col = get_func_from_session("col"); return col(value)      (any local name)
    fn = _method(cls, "ensure_col")
    b = _body(fn)
    p = fn.args.args[1].arg
    ok = False
    if len(b) == 2 and isinstance(b[0], ast.Assign) and isinstance(b[0].targets[0], ast.Name) \
            and _is_call(b[0].value, "get_func_from_session", 1) and isinstance(b[0].value.args[0], ast.Constant) \
            and b[0].value.args[0].value == "col" and isinstance(b[1], ast.Return) \
            and _is_call(b[1].value, b[0].targets[0].id, 1) and dotted(b[1].value.args[0]) == p:
        ok = True
    if len(b) == 1 and isinstance(b[0], ast.Return) and isinstance(b[0].value, ast.Call) \
            and _is_call(b[0].value.func, "get_func_from_session", 1) \
            and getattr(b[0].value.func.args[0], "value", None) == "col" and dotted(b[0].value.args[0]) == p:
        ok = True
    if not ok:
        if len(b) == 1 and isinstance(b[0], ast.Return) and _is_call(b[0].value, "cls", 1) and dotted(b[0].value.args[0]) == p:
            facts["ensure_col_calls_col"] = False       # Column(value): still coerces a simple name (ctor fact)
        else:
            raise Untranslatable("Column.ensure_col has an unrecognised body: " + ast.unparse(fn)[:200])
    else:
        facts["ensure_col_calls_col"] = True

    # Column.__init__: `elif not isinstance(expression, exp.Column): expression = sqlglot.maybe_parse(expression, ...)`
    # reached for a str; and `_lit` for None / non-(str, Expression)
    init = _method(cls, "__init__")
    txt = ast.unparse(init)
    facts["ctor_str_is_parsed"] = ("elif expression is None or not isinstance(expression, (str, exp.Expression)):" in txt
                                   and "sqlglot.maybe_parse(expression" in txt
                                   and "expression = self._lit(expression).expression" in txt)
    if not facts["ctor_str_is_parsed"]:
        raise Untranslatable("Column.__init__ has an unrecognised dispatch: " + txt[:300])

    # invoke_anonymous_function: every statement must be one of the recognised shapes (local names are free)
    import re
    W = r"[A-Za-z_]\w*"
    fn = _method(cls, "invoke_anonymous_function")
    a = fn.args
    pnames = [x.arg for x in a.args]
    if len(pnames) != 3 or a.vararg is None or a.kwarg or a.kwonlyargs:
        raise Untranslatable("invoke_anonymous_function signature changed")
    col_p, name_p, var_p = pnames[1], pnames[2], a.vararg.arg
    st = [ast.unparse(x) for x in _body(fn)]
    if len(st) != 5:
        raise Untranslatable("invoke_anonymous_function: unrecognised body: " + " ; ".join(st)[:300])
    m0 = re.fullmatch(rf"({W}) = \[\] if {col_p} is None else \[(cls\.ensure_col|cls|Column|cls\._lit)\({col_p}\)\]", st[0])
    m1 = re.fullmatch(rf"({W}) = \[(cls\.ensure_col|cls\._lit|cls|Column)\(({W})\) for \3 in {var_p}\]", st[1])
    if not m0 or not m1:
        raise Untranslatable("invoke_anonymous_function: cannot see how column/args are coerced: " + " ; ".join(st[:2]))
    m2 = re.fullmatch(rf"({W}) = \[({W})\.column_expression for \2 in {m0.group(1)} \+ {m1.group(1)}\]", st[2])
    m3 = m2 and re.fullmatch(rf"({W}) = exp\.Anonymous\(this={name_p}\.upper\(\), expressions={m2.group(1)}\)", st[3])
    m4 = m3 and re.fullmatch(rf"return Column\({m3.group(1)}\)", st[4])
    if not m4:
        raise Untranslatable("invoke_anonymous_function: unrecognised construction: " + " ; ".join(st[2:]))
    if m0.group(2) not in ("cls.ensure_col", "cls", "Column") or m1.group(2) not in ("cls.ensure_col", "cls._lit"):
        raise Untranslatable("invoke_anonymous_function: coercion outside the modelled alternatives")
    facts["anon_coerces_this"] = m0.group(2) == "cls.ensure_col"
    facts["anon_coerces_args"] = m1.group(2) == "cls.ensure_col"

    # invoke_expression_over_column
    fn = _method(cls, "invoke_expression_over_column")
    if len(fn.args.args) != 3 or fn.args.vararg or not fn.args.kwarg:
        raise Untranslatable("invoke_expression_over_column signature changed")
    col_p, cls_p, kw_p = fn.args.args[1].arg, fn.args.args[2].arg, fn.args.kwarg.arg
    st = [ast.unparse(x) for x in _body(fn)]
    if len(st) != 4:
        raise Untranslatable("invoke_expression_over_column: unrecognised body: " + " ; ".join(st)[:300])
    m0 = re.fullmatch(rf"({W}) = None if {col_p} is None else (cls\.ensure_col|cls|Column)\({col_p}\)", st[0])
    m1 = re.fullmatch(
        rf"({W}) = \{{({W}): \[(cls\.ensure_col|cls\._lit)\(({W})\)\.column_expression for \4 in ({W})\] if is_iterable\(\5\) "
        rf"else \3\(\5\)\.column_expression for \2, \5 in {kw_p}\.items\(\)( if \5 is not None)?\}}", st[1])
    if not m0 or not m1:
        raise Untranslatable("invoke_expression_over_column: cannot see how column/kwargs are coerced: " + " ; ".join(st[:2])[:400])
    m2 = re.fullmatch(
        rf"({W}) = {cls_p}\(\*\*{m1.group(1)}\) if {m0.group(1)} is None else "
        rf"{cls_p}\(this={m0.group(1)}\.column_expression, \*\*{m1.group(1)}\)", st[2])
    m3 = m2 and re.fullmatch(rf"return Column\({m2.group(1)}\)", st[3])
    if not m3:
        raise Untranslatable("invoke_expression_over_column: unrecognised construction: " + " ; ".join(st[2:])[:300])
    facts["over_coerces_this"] = m0.group(2) == "cls.ensure_col"
    facts["over_coerces_kwargs"] = m1.group(3) == "cls.ensure_col"
    facts["over_drops_none"] = m1.group(6) is not None

    # binary_op / inverse_binary_op
    lits = []
    for nm in ("binary_op", "inverse_binary_op"):
        fn = _method(cls, nm)
        b = _body(fn)
        other = fn.args.args[2].arg
        first = ast.unparse(b[0]) if b else ""
        if first == f"{other} = self._lit({other}) if isinstance({other}, str) else Column({other})":
            lits.append(True)
        elif first == f"{other} = Column({other})" or first == f"{other} = Column.ensure_col({other})":
            lits.append(False)
        else:
            raise Untranslatable(f"Column.{nm}: unrecognised operand coercion: {first}")
    if lits[0] != lits[1]:
        raise Untranslatable("binary_op and inverse_binary_op coerce differently")
    facts["binop_str_is_literal"] = lits[0]

    # operator table
    ops = []
    for n in cls.body:
        if isinstance(n, ast.FunctionDef) and n.name.startswith("__") and n.name.endswith("__"):
            nm = n.name[2:-2]
            if nm in ("init", "repr", "hash", "call", "getattr", "div", "rdiv"):
                continue
            b = _body(n)
            if len(b) != 1 or not isinstance(b[0], ast.Return):
                raise Untranslatable(f"Column.{n.name}: unrecognised body")
            r = ast.unparse(b[0].value)
            if not (r.startswith("self.binary_op(") or r.startswith("self.inverse_binary_op(") or r.startswith("self.unary_op(")
                    or r.startswith("Column(exp.Pow(")):
                raise Untranslatable(f"Column.{n.name}: unrecognised body {r[:80]}")
            ops.append(nm)
    facts["col_ops"] = ops
    p1, p2 = ast.unparse(_method(cls, "__pow__")), ast.unparse(_method(cls, "__rpow__"))
    facts["pow_uses_ctor"] = ("expression=Column(power).expression" in p1) and ("this=Column(power).expression" in p2)

    # functions.col / functions.lit
    fpath = os.path.join(repo, "sqlframe/base/functions.py")
    with open(fpath) as f:
        ftree = ast.parse(f.read())
    fdefs = {n.name: n for n in ftree.body if isinstance(n, ast.FunctionDef)}
    for nm in ("col", "lit"):
        if nm not in fdefs:
            raise Untranslatable(f"functions.{nm} not found")
        fdefs[nm] = _norm(fdefs[nm])
    ctxt = ast.unparse(fdefs["col"])
    cp = fdefs["col"].args.args[0].arg
    if f"if isinstance({cp}, str):" in ctxt and "expression.to_column(" in ctxt and f"return Column({cp})" in ctxt:
        facts["col_str_is_column"] = True
    elif f"if isinstance({cp}, str):" in ctxt and "expression.Literal.string(" in ctxt:
        facts["col_str_is_column"] = False
    else:
        raise Untranslatable("functions.col: unrecognised body")
    ltxt = ast.unparse(fdefs["lit"])
    lp = fdefs["lit"].args.args[0].arg
    b = _body(fdefs["lit"])
    first = ast.unparse(b[0]) if b else ""
    if first == f"if isinstance({lp}, str):\n    return Column(expression.Literal.string({lp}))":
        facts["lit_str_is_literal"] = True
    elif first == f"if isinstance({lp}, str):\n    return Column._lit({lp})":
        # Column._lit(str): every branch for a str must build literals (Literal.string pieces / exp.convert)
        lt = ast.unparse(_method(cls, "_lit"))
        str_branches = [ln for ln in lt.splitlines() if "isinstance(value, str)" in ln]
        if not lt.rstrip().endswith("return cls(exp.convert(value))") or any(
                "'\\x00' in value" not in ln for ln in str_branches):
            raise Untranslatable("Column._lit: unrecognised treatment of a str")
        facts["lit_str_is_literal"] = True
    elif f"isinstance({lp}, str)" not in ltxt:
        facts["lit_str_is_literal"] = False      # falls to Column(value): parsed as a column reference
    else:
        raise Untranslatable("functions.lit: unrecognised str branch")
    # session.format_time / format_execution_time: a Column is replaced by value.expression.this (its NAME)
    with open(os.path.join(repo, "sqlframe/base/session.py")) as f:
        stree = ast.parse(f.read())
    fmts = {n.name: ast.unparse(_norm(n)) for n in ast.walk(stree)
            if isinstance(n, ast.FunctionDef) and n.name in ("format_time", "format_execution_time")}
    if set(fmts) != {"format_time", "format_execution_time"}:
        raise Untranslatable("session.format_time / format_execution_time not found")
    uses_this = ["if isinstance(value, Column):\n        value = value.expression.this" in t for t in fmts.values()]
    quotes = ["format_time(f\"'{value}'\")" in t for t in fmts.values()]
    if not all(quotes) or len(set(uses_this)) != 1:
        raise Untranslatable("session.format_time: unrecognised body")
    facts["fmt_col_is_name"] = uses_this[0]
    return facts, hashlib.sha1(src.encode()).hexdigest()[:12]


def engine_facts(repo):
    """execution dialect per engine, _is_<engine> flags, and what each engine's functions module filters"""
    exec_dialect, filters = {}, {}
    # base defaults
    with open(os.path.join(repo, "sqlframe/base/session.py")) as f:
        base = ast.parse(f.read())

    def builder_default(tree, clsname_hint=None):
        for n in ast.walk(tree):
            if isinstance(n, ast.ClassDef) and n.name == "Builder":
                for m in n.body:
                    if isinstance(m, ast.Assign) and isinstance(m.targets[0], ast.Name) \
                            and m.targets[0].id == "DEFAULT_EXECUTION_DIALECT" and isinstance(m.value, ast.Constant):
                        return m.value.value
        return None

    base_default = builder_default(base)
    if base_default is None:
        raise Untranslatable("base Builder.DEFAULT_EXECUTION_DIALECT not found")
    base_flags = {}
    for n in ast.walk(base):
        if isinstance(n, ast.FunctionDef) and n.name.startswith("_is_") and len(n.body) == 1 \
                and isinstance(n.body[0], ast.Return) and isinstance(n.body[0].value, ast.Constant):
            base_flags[n.name] = n.body[0].value.value
    for e in ENGINES:
        if base_flags.get("_is_" + e) is not False:
            raise Untranslatable(f"base session: _is_{e} is not a property returning False")
    for e in ENGINES:
        with open(os.path.join(repo, f"sqlframe/{e}/session.py")) as f:
            tree = ast.parse(f.read())
        exec_dialect[e] = builder_default(tree) or base_default
        trues = []
        for n in ast.walk(tree):
            if isinstance(n, ast.FunctionDef) and n.name.startswith("_is_"):
                if len(n.body) == 1 and isinstance(n.body[0], ast.Return) and isinstance(n.body[0].value, ast.Constant) \
                        and n.body[0].value.value is True:
                    trues.append(n.name)
                else:
                    raise Untranslatable(f"{e} session: {n.name} has an unrecognised body")
        if trues != ["_is_" + e]:
            raise Untranslatable(f"{e} session sets flags {trues}, expected only _is_{e}")
        # functions module
        with open(os.path.join(repo, f"sqlframe/{e}/functions.py")) as f:
            ftree = ast.parse(f.read())
        star = any(isinstance(n, ast.ImportFrom) and n.module == "sqlframe.base.functions"
                   and any(a.name == "*" for a in n.names) for n in ftree.body)
        upd = [n for n in ftree.body if isinstance(n, ast.Expr) and isinstance(n.value, ast.Call)
               and ast.unparse(n.value.func) == "globals().update"]
        other = [n for n in ftree.body if not isinstance(n, (ast.Import, ast.ImportFrom)) and n not in upd
                 and not (isinstance(n, ast.Assign) and ast.unparse(n) == "module = sys.modules['sqlframe.base.functions']")
                 and not (isinstance(n, ast.Expr) and isinstance(n.value, ast.Constant))]
        if other:
            raise Untranslatable(f"{e}/functions.py: unexpected statement {ast.unparse(other[0])[:80]}")
        if star and not upd:
            filters[e] = {"kind": "star"}
        elif len(upd) == 1 and not star:
            comp = upd[0].value.args[0]
            if not isinstance(comp, ast.DictComp) or len(comp.generators) != 1:
                raise Untranslatable(f"{e}/functions.py: update() argument is not a dict comprehension")
            g = comp.generators[0]
            if ast.unparse(g.iter) != "inspect.getmembers(module, inspect.isfunction)":
                raise Untranslatable(f"{e}/functions.py: iterates {ast.unparse(g.iter)}")
            if len(g.ifs) != 1:
                raise Untranslatable(f"{e}/functions.py: filter shape")
            cond = g.ifs[0]
            parts = cond.values if isinstance(cond, ast.BoolOp) and isinstance(cond.op, ast.And) else [cond]
            excl = []
            has_attr = False
            for prt in parts:
                u = ast.unparse(prt)
                if u == "hasattr(func, 'unsupported_engines')":
                    has_attr = True
                elif isinstance(prt, ast.Compare) and len(prt.ops) == 1 and isinstance(prt.ops[0], ast.NotIn) \
                        and isinstance(prt.left, ast.Constant) and ast.unparse(prt.comparators[0]) == "func.unsupported_engines":
                    excl.append(prt.left.value)
                else:
                    raise Untranslatable(f"{e}/functions.py: unrecognised filter part {u}")
            if not has_attr:
                raise Untranslatable(f"{e}/functions.py: filter does not test unsupported_engines")
            filters[e] = {"kind": "filter", "exclude": excl}
        else:
            raise Untranslatable(f"{e}/functions.py: unrecognised structure")
    return exec_dialect, filters


def module_members(filt, funcs_info, base_public_names):
    """names exported by an engine's functions module given its filter"""
    if filt["kind"] == "star":
        return sorted(n for n in base_public_names if not n.startswith("_"))
    out = []
    for name, info in funcs_info.items():
        if not info["decorated"]:
            continue
        if any(x in info["unsupported"] for x in filt["exclude"]):
            continue
        out.append(name)
    return sorted(out)


# ---------------------------------------------------------------------------------------------------
# entry point
# ---------------------------------------------------------------------------------------------------

def generate(repo):
    """returns dict(text=<Gen/C16Table.v>, facts=[...], funcs=<info per function>, members={engine: [names]},
    prims={...}, exec_dialect={...})"""
    fm = ModuleEnv(os.path.join(repo, "sqlframe/base/functions.py"), "functions")
    am = ModuleEnv(os.path.join(repo, "sqlframe/base/function_alternatives.py"), "function_alternatives")
    clash = set(fm.defs) & set(am.defs)
    if clash:
        raise Untranslatable(f"function name defined in both modules: {sorted(clash)[:5]}")
    all_funcs = set(fm.defs) | set(am.defs) | set(fm.aliases) | set(am.aliases)
    finfo = translate_module(fm, all_funcs)
    ainfo = translate_module(am, all_funcs)
    prims, col_hash = primitive_facts(repo)
    exec_dialect, filters = engine_facts(repo)
    # what each engine's module exports: functions.py members (defs + aliases) that carry @meta
    fun_like = dict(finfo)
    for alias, canon in fm.aliases.items():
        fun_like[alias] = finfo[canon]
    public = list(fun_like) + [n for n, r in fm.roles.items()]
    members = {e: module_members(filters[e], fun_like, public) for e in ENGINES}
    dialects = sorted(set(exec_dialect.values()))
    module_funcs = {}
    for d in dialects:
        if d not in ENGINES:
            raise Untranslatable(f"execution dialect {d} has no sqlframe.{d}.functions module in the table")
        module_funcs[d] = members[d]
    # Coq text
    entries = []
    for name, info in list(finfo.items()) + list(ainfo.items()):
        entries.append(f"({c_str(name)}, {info['coq']})")
    for alias, canon in list(fm.aliases.items()) + list(am.aliases.items()):
        src = finfo.get(canon) or ainfo.get(canon)
        entries.append(f"({c_str(alias)}, {src['coq']})")
    str_methods = sorted(n for n in dir(str) if not n.startswith("_"))
    lines = [
        "(* generated by translate/c16_fexp.py from sqlframe/base/functions.py, function_alternatives.py, column.py,",
        "   the engines' session.py and functions.py -- do not edit *)",
        "From SF Require Import C16.Fexp.",
        "From Coq Require Import String List ZArith. Import ListNotations. Open Scope string_scope.",
        "Definition gen_prims : prims := mkPrims",
        f"  {b(prims['ensure_col_calls_col'])} {b(prims['col_str_is_column'])} {b(prims['lit_str_is_literal'])} "
        f"{b(prims['ctor_str_is_parsed'])}",
        f"  {b(prims['anon_coerces_this'])} {b(prims['anon_coerces_args'])} {b(prims['over_coerces_this'])} "
        f"{b(prims['over_coerces_kwargs'])} {b(prims['over_drops_none'])}",
        f"  {b(prims['binop_str_is_literal'])} {b(prims['pow_uses_ctor'])} {b(prims['fmt_col_is_name'])}",
        f"  {c_list([c_str(o) for o in prims['col_ops']])}",
        f"  {c_list([c_str(o) for o in str_methods])}",
        f"  {c_list([f'({c_str(e)}, {c_str(exec_dialect[e])})' for e in ENGINES])}",
        "  " + c_list([f"({c_str(d)}, {c_list([c_str(n) for n in module_funcs[d]])})" for d in dialects]) + ".",
        "Definition gen_table : table := [",
        ";\n".join("  " + x for x in entries),
        "].",
    ]
    facts = [{"name": "prims", "source": "sqlframe/base/column.py + functions.col/lit", "hash": col_hash, "value": prims},
             {"name": "exec_dialect", "source": "sqlframe/<engine>/session.py", "value": exec_dialect},
             {"name": "module_filters", "source": "sqlframe/<engine>/functions.py", "value": filters},
             {"name": "str_methods", "source": "dir(str) of the running interpreter", "value": len(str_methods)}]
    for name, info in list(finfo.items()) + list(ainfo.items()):
        facts.append({"name": "fdef:" + name, "source": f"sqlframe/base/{info['module']}.py:{info['line']}",
                      "hash": info["hash"], "opaque": len(info["opaque"])})
    funcs = dict(ainfo)
    funcs.update(finfo)
    for alias, canon in list(fm.aliases.items()) + list(am.aliases.items()):
        funcs[alias] = dict(funcs[canon], alias_of=canon)
    return {"text": "\n".join(lines) + "\n", "facts": facts, "funcs": funcs, "members": members,
            "prims": prims, "exec_dialect": exec_dialect, "filters": filters}


def b(x):
    return "true" if x else "false"


if __name__ == "__main__":
    import sys
    import json
    r = generate(sys.argv[1] if len(sys.argv) > 1 else "/repo")
    sys.stdout.write(r["text"])
    sys.stderr.write(json.dumps({k: v["opaque"] for k, v in r["funcs"].items() if v["opaque"]}, indent=1))
