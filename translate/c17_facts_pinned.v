(* GENERATED from /repo on every run by translate/c17_facts.py -- do not edit *)
From Coq Require Import ZArith List String.
From SF Require Import C17.Emul C17.Emul2 C17.EmulCheck.
Import ListNotations.
Open Scope Z_scope.
Definition c17_slice : slice_cfg := mkSlice ((1)%Z, (0)%Z, (0)%Z) ((1)%Z, (1)%Z, (-1)%Z).
Definition c17_slice_rebase : slice_rebase := (Rebase (1) (1) (1) (1)).
Definition c17_element_at : shift_cfg := mkShift CondNever (0) (1).
Definition c17_try_element_at : shift_cfg := mkShift CondNever (0) (1).
Definition c17_getitem : shift_cfg := mkShift CondIsLit (1) (0).
Definition c17_array_min_idx : Z := (1).
Definition c17_array_max_idx : Z := (-1).
Definition c17_pos : pos_cfg := mkPos (Some (0)) true.
Definition c17_pos_spark : pos_cfg := mkPos (Some (0)) true.
Definition c17_pos_databricks : pos_cfg := mkPos (Some (0)) true.
Definition c17_fact : fact_cfg := mkFact true TyInteger.
Definition c17_fact_guard : option (Z * Z) := (Some ((0)%Z, (20)%Z)).
Definition c17_rint : rint_cfg := mkRint RoundHalfEven (0).
Definition c17_dow : Z := (1).
Definition c17_overlay : overlay_cfg := mkOverlay (1) ((1)%Z, (0)%Z, (-1)%Z) ((1)%Z, (1)%Z, (0)%Z) true.
Definition c17_overlay_glue : glue := GluePipes.
Definition c17_overlap : overlap_cfg := mkOverlap CGt (0).
Definition c17_union : union_cfg := mkUnion true true true.
Definition c17_union_guard : bool := true.
Definition c17_remove : cmpop := CNe.
Definition c17_nanvl : nanvl_cfg := mkNanvl true true true.
Definition c17_seq_default : seq_default := (SeqBySign CLe (1) (-1)).
Definition c17_date_add : dshift_cfg := mkDshift CLt (0) (-1) true.
Definition c17_date_sub : dshift_cfg := mkDshift CLt (0) (-1) true.
Definition c17_lev : lev_cfg := mkLev CLe (-1) (Some CGt).
Definition c17_unix_millis : millis_cfg := MillisEpochMs.
Definition c17_append_guard : bool := true.
Definition c17_left_floor : option Z := (Some (0)).
Definition c17_right_floor : option Z := (Some (0)).
Definition c17_substr_remap : option (Z * Z) := (Some ((0)%Z, (1)%Z)).
Definition c17_soundex : soundex_cfg := mkSoundex [([66; 70; 80; 86], 49); ([67; 71; 74; 75; 81; 83; 88; 90], 50); ([68; 84], 51); ([76], 52); ([77; 78], 53); ([82], 54)] [72; 87] true.
Definition c17_concat_glue : glue := GluePipes.
Definition c17_trunc_units : list (string * string) := [("dd", "day"); ("mm", "month"); ("mon", "month"); ("yy", "year"); ("yyyy", "year")]%string.
Definition c17_facts : facts := mkFacts c17_slice c17_element_at c17_try_element_at c17_getitem c17_array_min_idx c17_array_max_idx c17_pos c17_fact c17_rint c17_dow c17_overlay c17_overlap c17_union c17_remove c17_nanvl c17_seq_default c17_date_add c17_date_sub c17_lev c17_unix_millis c17_slice_rebase c17_fact_guard c17_union_guard c17_overlay_glue c17_concat_glue c17_append_guard c17_left_floor c17_right_floor c17_substr_remap c17_soundex.

