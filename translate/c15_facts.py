"""T1 for C15: regenerate the facts record `cfg` of coq/theories/C15/Dml.v from /repo (fail-closed).

Reads sqlframe/base/mixins/table_mixins.py (ensure_cte, _ensure_where_condition, update,
_ensure_and_normalize_update_set, delete), sqlframe/base/table.py (LazyExpression) and
sqlframe/duckdb/table.py (base-class order of DuckDBTable) with `ast`.

Method: a few *probes* read the flag-like facts (which literal `where=None` becomes, the operator in the
reduce lambda, whether the re-qualification loop / alias stripping / str parsing are present, ...).  The probes
only select which *template* of the function the source is compared with; the function is then required to be
equal to that template exactly (after a canonicalisation that ignores docstrings, type annotations, logger
calls and the names of local variables).  The message argument of `raise <Type>(<message>)` is
not compared either (type and raise point are).  Any other shape raises Untranslatable -- never a guess.
"""
from __future__ import annotations

import ast
import copy
import os
import textwrap

from vlib import py2v
from vlib.py2v import Untranslatable, dotted

EXEC_ATTRS = {"_collect", "_execute", "execute", "_fetch_rows", "_fetchdf", "collect", "_fetch_row", "sql",
              "toPandas", "show", "count", "_cur", "_conn"}


# ---- canonicalisation ------------------------------------------------------------------------------

def _is_logger_call(st) -> bool:
    return (isinstance(st, ast.Expr) and isinstance(st.value, ast.Call)
            and (dotted(st.value.func) or "").split(".")[0] in ("logger", "logging", "warnings"))


def _is_doc(st) -> bool:
    return isinstance(st, ast.Expr) and isinstance(st.value, ast.Constant) and isinstance(st.value.value, str)


class _Canon(ast.NodeTransformer):
    """drop docstrings / logger calls / annotations; rename local variables by order of first binding"""

    def __init__(self, params):
        self.ren = {p: p for p in params}
        self.n = 0

    def _bind(self, name):
        if name not in self.ren:
            self.ren[name] = f"_v{self.n}"
            self.n += 1

    def _clean(self, body):
        out = []
        for st in body:
            if _is_doc(st) or _is_logger_call(st) or isinstance(st, ast.Pass):
                continue
            out.append(st)
        return out or [ast.Pass()]

    def visit_body(self, body):
        res = []
        for st in self._clean(body):
            r = self.visit(st)
            res.append(r)
        return res

    def generic_visit(self, node):
        for f in ("body", "orelse", "finalbody"):
            if isinstance(getattr(node, f, None), list) and not isinstance(node, (ast.IfExp, ast.Lambda)):
                setattr(node, f, self.visit_body(getattr(node, f)))
        for field, value in ast.iter_fields(node):
            if field in ("body", "orelse", "finalbody") and isinstance(value, list) \
                    and not isinstance(node, (ast.IfExp, ast.Lambda)):
                continue
            if isinstance(value, list):
                setattr(node, field, [self.visit(v) if isinstance(v, ast.AST) else v for v in value])
            elif isinstance(value, ast.AST):
                setattr(node, field, self.visit(value))
        return node

    def visit_AnnAssign(self, node):
        if node.value is None:
            return ast.Pass()
        return self.visit(ast.Assign(targets=[node.target], value=node.value))

    def visit_Raise(self, node):
        """`raise <Type>(<message>)`: the exception type and the raise point stay pinned, the message expression is not
        compared (its text cannot change which rows a statement touches; it is assumed to evaluate without raising)"""
        if isinstance(node.exc, ast.Call) and dotted(node.exc.func) is not None and not node.exc.keywords:
            node.exc = ast.Call(func=self.visit(node.exc.func), args=[], keywords=[])
        elif node.exc is not None:
            node.exc = self.visit(node.exc)
        if node.cause is not None:
            node.cause = self.visit(node.cause)
        return node

    def visit_Assign(self, node):
        node.value = self.visit(node.value)       # value first (uses old bindings)
        for t in node.targets:
            for n in ast.walk(t):
                if isinstance(n, ast.Name):
                    self._bind(n.id)
        node.targets = [self.visit(t) for t in node.targets]
        node.type_comment = None
        return node

    def visit_For(self, node):
        node.iter = self.visit(node.iter)
        for n in ast.walk(node.target):
            if isinstance(n, ast.Name):
                self._bind(n.id)
        node.target = self.visit(node.target)
        node.body = self.visit_body(node.body)
        node.orelse = self.visit_body(node.orelse) if node.orelse else []
        node.type_comment = None
        return node

    def visit_ListComp(self, node):
        for g in node.generators:
            g.iter = self.visit(g.iter)
            for n in ast.walk(g.target):
                if isinstance(n, ast.Name):
                    self._bind(n.id)
            g.target = self.visit(g.target)
            g.ifs = [self.visit(i) for i in g.ifs]
        node.elt = self.visit(node.elt)
        return node

    def visit_Lambda(self, node):
        for a in node.args.args:
            self._bind(a.arg)
            a.arg = self.ren[a.arg]
            a.annotation = None
        node.body = self.visit(node.body)
        return node

    def visit_Name(self, node):
        return ast.Name(id=self.ren.get(node.id, node.id), ctx=ast.Load())

    def visit_Attribute(self, node):
        node.value = self.visit(node.value)
        node.ctx = ast.Load()
        return node

    def visit_Subscript(self, node):
        node.value = self.visit(node.value)
        node.slice = self.visit(node.slice)
        node.ctx = ast.Load()
        return node


def canon_func(fn: ast.FunctionDef) -> str:
    fn = copy.deepcopy(fn)
    params = [a.arg for a in fn.args.posonlyargs + fn.args.args + fn.args.kwonlyargs]
    if fn.args.vararg:
        params.append(fn.args.vararg.arg)
    if fn.args.kwarg:
        params.append(fn.args.kwarg.arg)
    for a in fn.args.posonlyargs + fn.args.args + fn.args.kwonlyargs:
        a.annotation = None
    for a in (fn.args.vararg, fn.args.kwarg):
        if a is not None:
            a.annotation = None
    fn.returns = None
    fn.decorator_list = []
    fn.type_comment = None
    c = _Canon(params)
    fn.body = c.visit_body(fn.body)
    return ast.dump(fn, annotate_fields=True, include_attributes=False)


def canon_text(src: str) -> str:
    tree = ast.parse(textwrap.dedent(src))
    return canon_func(tree.body[0])


def require_equal(fn: ast.FunctionDef, template: str, what: str):
    a, b = canon_func(fn), canon_text(template)
    if a != b:
        # locate the first difference for the message
        i = next((k for k in range(min(len(a), len(b))) if a[k] != b[k]), min(len(a), len(b)))
        raise Untranslatable(f"{what}: source differs from every known shape near ...{a[max(0, i - 80):i + 80]}...")


# ---- probes ---------------------------------------------------------------------------------------

def _stmts(body):
    return [s for s in body if not _is_doc(s) and not _is_logger_call(s)]


def _is_isinstance(test, var_pred, cls: str) -> bool:
    return (isinstance(test, ast.Call) and dotted(test.func) == "isinstance" and len(test.args) == 2
            and var_pred(test.args[0]) and dotted(test.args[1]) == cls)


STR_PARSE = "if isinstance(where, str):\n    where = sqlglot.parse_one(where, dialect=self.session.input_dialect)"
REQUAL_WHERE = ("for col_expr in condition_list[0].expression.find_all(exp.Column):\n"
                "    if col_expr.table == self.expression.args[\"from\"].this.alias_or_name:\n"
                "        col_expr.set(\"table\", exp.to_identifier(self_name))")
STRIP_WHERE = "if isinstance(condition, exp.Alias):\n    condition = condition.this"


def _indent(block: str, n: int) -> str:
    return textwrap.indent(block, " " * n) if block else ""


def where_facts(cls: ast.ClassDef, src: str) -> dict:
    fn = next((n for n in cls.body if isinstance(n, ast.FunctionDef) and n.name == "_ensure_where_condition"), None)
    if fn is None:
        raise Untranslatable("_ensure_where_condition not found in _BaseTableMixins")
    body = _stmts(fn.body)
    # probes
    str_top = any(isinstance(s, ast.If) and _is_isinstance(s.test, lambda a: dotted(a) == "where", "str") for s in body)
    main_if = next((s for s in body if isinstance(s, ast.If) and isinstance(s.test, ast.Compare)
                    and dotted(s.test.left) == "where" and isinstance(s.test.ops[0], ast.Is)), None)
    if main_if is None or not main_if.orelse:
        raise Untranslatable("_ensure_where_condition: `if where is None: ... else: ...` not found")
    none_val = None
    for n in ast.walk(ast.Module(body=main_if.body, type_ignores=[])):
        if isinstance(n, ast.Call) and dotted(n.func) == "exp.Boolean" and len(n.keywords) == 1 \
                and n.keywords[0].arg == "this" and isinstance(n.keywords[0].value, ast.Constant) \
                and isinstance(n.keywords[0].value.value, bool):
            none_val = n.keywords[0].value.value
    if none_val is None:
        raise Untranslatable("_ensure_where_condition: the value used for where=None is not exp.Boolean(this=<literal>)")
    els = _stmts(main_if.orelse)
    str_else = any(isinstance(s, ast.If) and _is_isinstance(s.test, lambda a: dotted(a) == "where", "str") for s in els)
    op = None
    for n in ast.walk(ast.Module(body=els, type_ignores=[])):
        if isinstance(n, ast.Lambda) and isinstance(n.body, ast.BinOp):
            op = {ast.BitAnd: "&", ast.BitOr: "|"}.get(type(n.body.op))
            if op is None:
                raise Untranslatable("_ensure_where_condition: reduce lambda uses an operator other than & or |")
    if op is None:
        raise Untranslatable("_ensure_where_condition: reduce(lambda x, y: x & y, ...) not found")
    requal = any(isinstance(s, ast.For) for s in els)
    strip = any(isinstance(s, ast.If) and _is_isinstance(s.test, lambda a: isinstance(a, ast.Name), "exp.Alias") for s in els)
    template = (
        "def _ensure_where_condition(self, where=None):\n"
        "    self_name = self.expression.ctes[0].this.args[\"from\"].this.alias_or_name\n"
        + (_indent(STR_PARSE, 4) + "\n" if str_top else "") +
        "    if where is None:\n"
        f"        condition = exp.Boolean(this={none_val})\n"
        "    else:\n"
        + (_indent(STR_PARSE, 8) + "\n" if str_else else "") +
        "        condition_list = self._ensure_and_normalize_cols(where, self.expression)\n"
        "        if len(condition_list) > 1:\n"
        f"            condition_list = [functools.reduce(lambda x, y: x {op} y, condition_list)]\n"
        + (_indent(REQUAL_WHERE, 8) + "\n" if requal else "") +
        "        condition = condition_list[0].expression\n"
        + (_indent(STRIP_WHERE, 8) + "\n" if strip else "") +
        "    return condition\n")
    require_equal(fn, template, "_ensure_where_condition")
    return {"none_is_true": none_val, "list_op": {"&": "And", "|": "Or"}[op], "where_requalifies": requal,
            "where_strips_alias": strip, "where_str_is_sql": bool(str_top or str_else),
            "hash": py2v.src_hash(fn, src)}


REQUAL_SET_IF = ("if col_expr.table == self.expression.args[\"from\"].this.alias_or_name:\n"
                 "    col_expr.set(\"table\", exp.to_identifier(self_name))\n")
RAISE_SET = "    raise ValueError(f\"Column `{col_expr.alias_or_name}` does not exist in the table.\")\n"


def set_facts(cls: ast.ClassDef, src: str) -> dict:
    fn = next((n for n in cls.body if isinstance(n, ast.FunctionDef) and n.name == "_ensure_and_normalize_update_set"), None)
    if fn is None:
        raise Untranslatable("_ensure_and_normalize_update_set not found")
    outer = next((s for s in _stmts(fn.body) if isinstance(s, ast.For)), None)
    if outer is None:
        raise Untranslatable("_ensure_and_normalize_update_set: loop over set_.items() not found")
    inner = next((s for s in _stmts(outer.body) if isinstance(s, ast.For)), None)
    if inner is None:
        raise Untranslatable("_ensure_and_normalize_update_set: loop over the value's columns not found")
    ib = _stmts(inner.body)
    # probes on the inner loop: which references raise
    skip_unq_first = (len(ib) == 2 and isinstance(ib[0], ast.If) and isinstance(ib[0].test, ast.UnaryOp)
                      and isinstance(ib[0].test.op, ast.Not) and dotted(ib[0].test.operand) == "col_expr.table"
                      and len(ib[0].body) == 1 and isinstance(ib[0].body[0], ast.Continue))
    main = ib[-1] if ib else None
    if not isinstance(main, ast.If):
        raise Untranslatable("_ensure_and_normalize_update_set: inner loop is not an if/else")
    elif_table = (len(main.orelse) == 1 and isinstance(main.orelse[0], ast.If)
                  and dotted(main.orelse[0].test) == "col_expr.table" and not main.orelse[0].orelse)
    plain_else = bool(main.orelse) and not elif_table
    if not (plain_else or elif_table):
        raise Untranslatable("_ensure_and_normalize_update_set: the ValueError branch is missing")
    ob = _stmts(outer.body)
    strip_kind = None
    for s in ob:
        if isinstance(s, ast.If) and _is_isinstance(s.test, lambda a: dotted(a) == "val_column.expression", "exp.Alias"):
            strip_kind = "if"
    inner_txt = "for col_expr in val_column.expression.find_all(exp.Column):\n"
    if skip_unq_first:
        inner_txt += "    if not col_expr.table:\n        continue\n"
    inner_txt += _indent(REQUAL_SET_IF, 4)
    if elif_table:
        inner_txt += "    elif col_expr.table:\n" + _indent(RAISE_SET, 4)
    else:
        inner_txt += "    else:\n" + _indent(RAISE_SET, 4)
    template = (
        "def _ensure_and_normalize_update_set(self, set_):\n"
        "    self_name = self.expression.ctes[0].this.args[\"from\"].this.alias_or_name\n"
        "    update_set = {}\n"
        "    for key, val in set_.items():\n"
        "        key_column = self._ensure_and_normalize_col(key)\n"
        "        key_expr = list(key_column.expression.find_all(exp.Column))\n"
        "        if len(key_expr) > 1:\n"
        "            raise ValueError(f\"Can only update one a single column at a time.\")\n"
        "        key = key_expr[0].alias_or_name\n"
        "        val_column = self._ensure_and_normalize_col(val)\n"
        + _indent(inner_txt, 8) +
        ("        if isinstance(val_column.expression, exp.Alias):\n"
         "            val_column.expression = val_column.expression.this\n" if strip_kind else "") +
        "        update_set[key] = val_column.expression\n"
        "    return update_set\n")
    require_equal(fn, template, "_ensure_and_normalize_update_set")
    return {"set_requalifies": True, "set_unqualified_raises": not (skip_unq_first or elif_table),
            "set_strips_alias": strip_kind is not None, "hash": py2v.src_hash(fn, src)}


PHYS = "self.expression.ctes[0].this.args[\"from\"].this"
CTE_LEAF = "self.expression.args[\"from\"].this"


def _target_probe(fn: ast.FunctionDef, what: str) -> bool:
    for s in _stmts(fn.body):
        if isinstance(s, ast.Assign) and len(s.targets) == 1 and dotted(s.targets[0]) == "self_expr":
            got = ast.dump(s.value)
            if got == ast.dump(ast.parse(PHYS, mode="eval").body):
                return True
            if got == ast.dump(ast.parse(CTE_LEAF, mode="eval").body):
                return False
            raise Untranslatable(f"{what}: statement target is neither the physical table nor the CTE leaf")
    raise Untranslatable(f"{what}: `self_expr = ...` not found")


def _has_kw(fn, ctor: str, kw: str) -> bool:
    for n in ast.walk(fn):
        if isinstance(n, ast.Call) and dotted(n.func) == ctor:
            return any(k.arg == kw for k in n.keywords)
    raise Untranslatable(f"{fn.name}: {ctor}(...) not found")


def _decorated_with_ensure_cte(fn: ast.FunctionDef) -> bool:
    for d in fn.decorator_list:
        if isinstance(d, ast.Call) and dotted(d.func) == "ensure_cte" and not d.args and not d.keywords:
            return True
    if fn.decorator_list:
        raise Untranslatable(f"{fn.name}: unknown decorator")
    return False


def update_facts(cls: ast.ClassDef, src: str) -> dict:
    fn = next((n for n in cls.body if isinstance(n, ast.FunctionDef) and n.name == "update"), None)
    if fn is None:
        raise Untranslatable("UpdateSupportMixin.update not found")
    phys = _target_probe(fn, "update")
    has_where = _has_kw(fn, "exp.Update", "where")
    # SET key: the bare Python str (emitted unquoted: `SET full name = ...`) or an Identifier (quoted when needed)
    key_ident = None
    for n in ast.walk(fn):
        if isinstance(n, ast.Call) and dotted(n.func) == "exp.EQ":
            kw = {k.arg: k.value for k in n.keywords}
            if dotted(kw.get("this")) == "key":
                key_ident = False
            elif isinstance(kw.get("this"), ast.Call) and dotted(kw["this"].func) == "exp.to_identifier" \
                    and len(kw["this"].args) == 1 and dotted(kw["this"].args[0]) == "key" and not kw["this"].keywords:
                key_ident = True
    if key_ident is None:
        raise Untranslatable("update: the SET target is neither `key` nor exp.to_identifier(key)")
    key_txt = "exp.to_identifier(key)" if key_ident else "key"
    template = (
        "def update(self, set_, where=None):\n"
        f"    self_expr = {PHYS if phys else CTE_LEAF}\n"
        "    condition = self._ensure_where_condition(where)\n"
        "    update_set = self._ensure_and_normalize_update_set(set_)\n"
        f"    update_expr = exp.Update(this=self_expr, expressions=[exp.EQ(this={key_txt}, expression=val) "
        "for key, val in update_set.items()]"
        + (", where=exp.Where(this=condition)" if has_where else "") + ")\n"
        "    return LazyExpression(update_expr, self.session)\n")
    require_equal(fn, template, "UpdateSupportMixin.update")
    return {"target_is_phys": phys, "has_where": has_where, "decorated": _decorated_with_ensure_cte(fn),
            "set_key_is_identifier": key_ident, "hash": py2v.src_hash(fn, src)}


def delete_facts(cls: ast.ClassDef, src: str) -> dict:
    fn = next((n for n in cls.body if isinstance(n, ast.FunctionDef) and n.name == "delete"), None)
    if fn is None:
        raise Untranslatable("DeleteSupportMixin.delete not found")
    phys = _target_probe(fn, "delete")
    has_where = _has_kw(fn, "exp.Delete", "where")
    template = (
        "def delete(self, where=None):\n"
        f"    self_expr = {PHYS if phys else CTE_LEAF}\n"
        "    condition = self._ensure_where_condition(where)\n"
        "    delete_expr = exp.Delete(this=self_expr"
        + (", where=exp.Where(this=condition)" if has_where else "") + ")\n"
        "    return LazyExpression(delete_expr, self.session)\n")
    require_equal(fn, template, "DeleteSupportMixin.delete")
    return {"target_is_phys": phys, "has_where": has_where, "decorated": _decorated_with_ensure_cte(fn),
            "hash": py2v.src_hash(fn, src)}


ENSURE_CTE_WRAPPER = """
def wrapper(self, *args, **kwargs):
    if len(self.expression.ctes) > 0:
        return func(self, *args, **kwargs)
    self_class = self.__class__
    self = self._convert_leaf_to_cte()
    self = self_class(**object_to_dict(self))
    return func(self, *args, **kwargs)
"""


def ensure_cte_facts(tree, src) -> dict:
    deco = next((n for n in tree.body if isinstance(n, ast.FunctionDef) and n.name == "ensure_cte"), None)
    if deco is None:
        raise Untranslatable("ensure_cte not found")
    wrapper = py2v.find_func(deco, "wrapper")
    require_equal(wrapper, ENSURE_CTE_WRAPPER, "ensure_cte.wrapper")
    # decorator plumbing: decorator(func) returns wrapper; ensure_cte() returns decorator
    inner = py2v.find_func(deco, "decorator")
    rets = [s for s in inner.body if isinstance(s, ast.Return)]
    if len(rets) != 1 or dotted(rets[0].value) != "wrapper":
        raise Untranslatable("ensure_cte.decorator does not return wrapper")
    rets = [s for s in deco.body if isinstance(s, ast.Return)]
    if len(rets) != 1 or dotted(rets[0].value) != "decorator":
        raise Untranslatable("ensure_cte does not return decorator")
    return {"converts_leaf_without_cte": True, "hash": py2v.src_hash(deco, src)}


LAZY_INIT = """
def __init__(self, expression, session):
    self._expression = expression
    self._session = session
"""


def lazy_facts(tree, src) -> dict:
    cls = py2v.find_class(tree, "LazyExpression")
    init = next((n for n in cls.body if isinstance(n, ast.FunctionDef) and n.name == "__init__"), None)
    ex = next((n for n in cls.body if isinstance(n, ast.FunctionDef) and n.name == "execute"), None)
    if init is None or ex is None:
        raise Untranslatable("LazyExpression.__init__/execute not found")
    require_equal(init, LAZY_INIT, "LazyExpression.__init__")
    body = _stmts(ex.body)
    # execute: straight-line code; count the calls that reach the session
    n_calls = 0
    for st in body:
        if not isinstance(st, (ast.Return, ast.Assign, ast.Expr)):
            raise Untranslatable("LazyExpression.execute: control flow (loop / branch) -- cannot count session calls")
    for n in ast.walk(ast.Module(body=body, type_ignores=[])):
        if isinstance(n, ast.Call):
            d = dotted(n.func) or ""
            if d == "self._session._collect":
                if len(n.args) != 1 or dotted(n.args[0]) != "self._expression" or n.keywords:
                    raise Untranslatable("LazyExpression.execute: _collect is not called on self._expression alone")
                n_calls += 1
            else:
                raise Untranslatable(f"LazyExpression.execute: unknown call {d or ast.dump(n.func)[:60]}")
    if not body or not isinstance(body[-1], ast.Return):
        raise Untranslatable("LazyExpression.execute: does not end in return")
    return {"execute_session_calls": n_calls, "hash": py2v.src_hash(ex, src)}


def count_exec_calls(funcs) -> int:
    """calls, inside the builder functions, whose callee name is one of the session's execution entry points.  Inside the
    message of a `raise` (the only part of these functions the template match leaves free) only calls on `self...` count:
    `key_column.sql()` there renders a Column for the error text, it does not reach the connection."""
    k = 0
    for fn in funcs:
        in_raise = set()
        for r in ast.walk(fn):
            if isinstance(r, ast.Raise):
                in_raise |= {id(n) for n in ast.walk(r)}
        for n in ast.walk(fn):
            if isinstance(n, ast.Call) and isinstance(n.func, ast.Attribute) and n.func.attr in EXEC_ATTRS:
                if id(n) in in_raise and not (dotted(n.func) or "").startswith("self."):
                    continue
                k += 1
    return k


def mro_fact(tree) -> list:
    cls = py2v.find_class(tree, "DuckDBTable")
    names = []
    for b in cls.bases:
        names.append(dotted(b.value) if isinstance(b, ast.Subscript) else dotted(b))
    need = ["UpdateSupportMixin", "DeleteSupportMixin", "_BaseTable"]
    if any(n not in names for n in need):
        raise Untranslatable(f"DuckDBTable bases {names} lack one of {need}")
    if not (names.index("UpdateSupportMixin") < names.index("_BaseTable")
            and names.index("DeleteSupportMixin") < names.index("_BaseTable")):
        raise Untranslatable("DuckDBTable: _BaseTable precedes a support mixin (update/delete would raise NotImplementedError)")
    return names


def b(x: bool) -> str:
    return "true" if x else "false"


def generate(repo: str):
    mx_tree, mx_src = py2v.load(os.path.join(repo, "sqlframe/base/mixins/table_mixins.py"))
    tb_tree, tb_src = py2v.load(os.path.join(repo, "sqlframe/base/table.py"))
    dk_tree, _ = py2v.load(os.path.join(repo, "sqlframe/duckdb/table.py"))
    base = py2v.find_class(mx_tree, "_BaseTableMixins")
    upd = py2v.find_class(mx_tree, "UpdateSupportMixin")
    dele = py2v.find_class(mx_tree, "DeleteSupportMixin")
    w = where_facts(base, mx_src)
    s = set_facts(upd, mx_src)
    u = update_facts(upd, mx_src)
    d = delete_facts(dele, mx_src)
    e = ensure_cte_facts(mx_tree, mx_src)
    lz = lazy_facts(tb_tree, tb_src)
    bases = mro_fact(dk_tree)
    builders = [py2v.find_method(mx_tree, "_BaseTableMixins", "_ensure_where_condition"),
                py2v.find_method(mx_tree, "UpdateSupportMixin", "update"),
                py2v.find_method(mx_tree, "UpdateSupportMixin", "_ensure_and_normalize_update_set"),
                py2v.find_method(mx_tree, "DeleteSupportMixin", "delete"),
                next(n for n in mx_tree.body if isinstance(n, ast.FunctionDef) and n.name == "ensure_cte"),
                py2v.find_method(tb_tree, "LazyExpression", "__init__")]
    build_calls = count_exec_calls(builders)
    L = ["(* GENERATED from /repo on every run by translate/c15_facts.py -- do not edit *)",
         "From SF Require Import Base.Val Base.Expr C15.Dml.",
         "Definition gen_cfg : cfg := mkCfg",
         f"  {b(w['none_is_true'])}  (* none_is_true *)",
         f"  {w['list_op']}  (* list_op *)",
         f"  {b(w['where_requalifies'])}  (* where_requalifies *)",
         f"  {b(w['where_strips_alias'])}  (* where_strips_alias *)",
         f"  {b(w['where_str_is_sql'])}  (* where_str_is_sql *)",
         f"  {b(s['set_requalifies'])}  (* set_requalifies *)",
         f"  {b(s['set_unqualified_raises'])}  (* set_unqualified_raises *)",
         f"  {b(s['set_strips_alias'])}  (* set_strips_alias *)",
         f"  {'TScan' if u['target_is_phys'] else 'TCte'}  (* target_update: the scanned Table node itself (keeps schema/catalog) *)",
         f"  {'TScan' if d['target_is_phys'] else 'TCte'}  (* target_delete *)",
         f"  {b(u['has_where'])}  (* update_has_where *)",
         f"  {b(d['has_where'])}  (* delete_has_where *)",
         f"  {b(u['decorated'])}  (* ensure_cte_update *)",
         f"  {b(d['decorated'])}  (* ensure_cte_delete *)",
         f"  {build_calls}  (* build_session_calls *)",
         f"  {lz['execute_session_calls']}  (* execute_session_calls *).",
         "(* the SET target handed to exp.EQ is an Identifier (quoted by the generator when the name needs it), not a bare str *)",
         f"Definition set_key_is_identifier : bool := {b(u['set_key_is_identifier'])}.",
         ""]
    facts = [
        {"name": "none_is_true/list_op/where_requalifies/where_strips_alias/where_str_is_sql",
         "from": "table_mixins.py: _BaseTableMixins._ensure_where_condition", "hash": w["hash"],
         "value": {k: v for k, v in w.items() if k != "hash"}},
        {"name": "set_requalifies/set_unqualified_raises/set_strips_alias",
         "from": "table_mixins.py: UpdateSupportMixin._ensure_and_normalize_update_set", "hash": s["hash"],
         "value": {k: v for k, v in s.items() if k != "hash"}},
        {"name": "target_is_phys/stmt_has_where/ensure_cte_update", "from": "table_mixins.py: UpdateSupportMixin.update",
         "hash": u["hash"], "value": {k: v for k, v in u.items() if k != "hash"}},
        {"name": "target_is_phys/stmt_has_where/ensure_cte_delete", "from": "table_mixins.py: DeleteSupportMixin.delete",
         "hash": d["hash"], "value": {k: v for k, v in d.items() if k != "hash"}},
        {"name": "ensure_cte wrapper shape", "from": "table_mixins.py: ensure_cte", "hash": e["hash"], "value": True},
        {"name": "build_session_calls", "from": "builder functions + LazyExpression.__init__", "value": build_calls},
        {"name": "execute_session_calls", "from": "table.py: LazyExpression.execute", "hash": lz["hash"],
         "value": lz["execute_session_calls"]},
        {"name": "DuckDBTable bases", "from": "duckdb/table.py", "value": bases},
    ]
    flags = {**{k: v for k, v in w.items() if k != "hash"}, **{k: v for k, v in s.items() if k != "hash"},
             "set_key_is_identifier": u["set_key_is_identifier"]}
    return "\n".join(L), facts, flags
