(* GENERATED from /repo on every run by translate/c01_facts.py -- do not edit *)
From SF Require Import Model.Chain.
Open Scope Z_scope.
Definition rank (k : opk) : Z := match k with INIT => (-1) | NO_OP => (0) | FROM => (1) | WHERE => (2) | GROUP_BY => (3) | HAVING => (4) | SELECT => (5) | ORDER_BY => (6) | LIMIT => (7) end.
Definition opk_ltb a b := Z.ltb (rank a) (rank b).
Definition opk_leb a b := Z.leb (rank a) (rank b).
Definition opk_gtb a b := Z.gtb (rank a) (rank b).
Definition opk_geb a b := Z.geb (rank a) (rank b).
Definition wrap_needed_df (last_op new_op : opk) : bool := (orb (opk_ltb new_op last_op) (andb (opk_eqb last_op new_op) (opk_eqb new_op SELECT))).
Definition wrap_needed_group (last_op new_op : opk) : bool := (orb (opk_ltb new_op last_op) (andb (opk_eqb last_op new_op) (opk_eqb new_op SELECT))).
Definition new_kind_df (op last_op : opk) : opk := (if (negb (opk_eqb op NO_OP)) then op else last_op).
Definition new_kind_group (op last_op : opk) : opk := (if (negb (opk_eqb op NO_OP)) then op else last_op).
Definition init_wraps_df : bool := true.
Definition init_wraps_group : bool := true.
Definition kind_of (n : opname) : opk := match n with NSelect => SELECT | NWhere => WHERE | NOrderBy => ORDER_BY | NLimit => LIMIT | NDistinct => SELECT end.
Definition order_append : bool := false.
Definition select_append_default : bool := false.
Definition limit_merge (num m : Z) : Z := (Z.min num m).
Definition gen_cfg : cfg := mkCfg wrap_needed_df kind_of init_wraps_df order_append limit_merge.
Definition decorator_table : list (string * option opk) := [
  ("_add_ctes_to_expression"%string, None);
  ("_cache"%string, None);
  ("_collect"%string, None);
  ("_columns"%string, None);
  ("_convert_leaf_to_cte"%string, None);
  ("_create_cte_from_expression"%string, None);
  ("_create_hash_from_expression"%string, None);
  ("_ensure_and_normalize_col"%string, None);
  ("_ensure_and_normalize_cols"%string, None);
  ("_ensure_list_of_columns"%string, None);
  ("_expand_star"%string, None);
  ("_get_explain_plan_rows"%string, None);
  ("_get_expressions"%string, None);
  ("_get_outer_select_columns"%string, None);
  ("_get_select_expressions"%string, None);
  ("_handle_join_column_names_only"%string, None);
  ("_handle_self_join"%string, None);
  ("_hint"%string, None);
  ("_normalize_join_clause"%string, None);
  ("_replace_cte_names_with_hashes"%string, None);
  ("_resolve_ambiguous_columns"%string, None);
  ("_resolve_pending_hints"%string, None);
  ("_set_display_names"%string, None);
  ("_set_operation"%string, None);
  ("_typed_columns"%string, None);
  ("_update_display_name_mapping"%string, None);
  ("agg"%string, Some SELECT);
  ("alias"%string, Some NO_OP);
  ("approxQuantile"%string, None);
  ("cache"%string, Some NO_OP);
  ("coalesce"%string, Some NO_OP);
  ("collect"%string, None);
  ("columns"%string, None);
  ("copy"%string, None);
  ("corr"%string, None);
  ("count"%string, None);
  ("cov"%string, None);
  ("createGlobalTempView"%string, None);
  ("createOrReplaceTempView"%string, None);
  ("crossJoin"%string, Some FROM);
  ("cube"%string, None);
  ("distinct"%string, Some SELECT);
  ("drop"%string, Some SELECT);
  ("dropDuplicates"%string, Some SELECT);
  ("dropna"%string, Some FROM);
  ("exceptAll"%string, Some FROM);
  ("explain"%string, None);
  ("fillna"%string, Some FROM);
  ("first"%string, None);
  ("groupBy"%string, Some GROUP_BY);
  ("head"%string, None);
  ("hint"%string, Some NO_OP);
  ("intersect"%string, Some FROM);
  ("intersectAll"%string, Some FROM);
  ("isEmpty"%string, None);
  ("join"%string, Some FROM);
  ("latest_cte_name"%string, None);
  ("limit"%string, Some LIMIT);
  ("lineage"%string, None);
  ("na"%string, None);
  ("orderBy"%string, Some ORDER_BY);
  ("pending_join_hints"%string, None);
  ("pending_partition_hints"%string, None);
  ("persist"%string, Some NO_OP);
  ("printSchema"%string, None);
  ("repartition"%string, Some NO_OP);
  ("replace"%string, Some FROM);
  ("schema"%string, None);
  ("select"%string, Some SELECT);
  ("show"%string, None);
  ("sparkSession"%string, None);
  ("sql"%string, None);
  ("stat"%string, None);
  ("toArrow"%string, None);
  ("toDF"%string, None);
  ("toPandas"%string, None);
  ("transform"%string, None);
  ("union"%string, Some FROM);
  ("unionByName"%string, Some FROM);
  ("unpivot"%string, Some SELECT);
  ("where"%string, Some WHERE);
  ("withColumn"%string, Some SELECT);
  ("withColumnRenamed"%string, Some SELECT);
  ("withColumns"%string, Some SELECT);
  ("write"%string, None)
].
Definition group_agg_kind : option opk := Some SELECT.
(* environment: a sort key written as SQL text and parsed with the session's input dialect (Spark) gets Spark's default NULL placement: ASC -> NULLS FIRST, DESC -> NULLS LAST *)
Definition spark_text_nulls_first (desc : bool) : bool := negb desc.
Definition order_flag_desc (asc : bool) : bool := (negb asc).
Definition order_flag_nulls_first (asc : bool) : bool := (spark_text_nulls_first (negb asc)).
Definition order_default_asc : bool := true.
Definition column_order_methods : list (string * (bool * bool)) := [("asc"%string, (false, true)); ("asc_nulls_first"%string, (false, true)); ("asc_nulls_last"%string, (false, false)); ("desc"%string, (true, false)); ("desc_nulls_first"%string, (true, true)); ("desc_nulls_last"%string, (true, false))].
