(* GENERATED from /repo on every run by translate/c11_facts.chain_cfg (readers of translate/c01_facts.py) *)
From SF Require Import Model.Chain.
Open Scope Z_scope.
Definition rank (k : opk) : Z := match k with INIT => (-1) | NO_OP => (0) | FROM => (1) | WHERE => (2) | GROUP_BY => (3) | HAVING => (4) | SELECT => (5) | ORDER_BY => (6) | LIMIT => (7) end.
Definition opk_ltb a b := Z.ltb (rank a) (rank b).
Definition opk_leb a b := Z.leb (rank a) (rank b).
Definition opk_gtb a b := Z.gtb (rank a) (rank b).
Definition opk_geb a b := Z.geb (rank a) (rank b).
Definition wrap_needed_df (last_op new_op : opk) : bool := (orb (opk_ltb new_op last_op) (andb (opk_eqb last_op new_op) (opk_eqb new_op SELECT))).
Definition new_kind_df (op last_op : opk) : opk := (if (negb (opk_eqb op NO_OP)) then op else last_op).
Definition init_wraps_df : bool := true.
Definition kind_of (n : opname) : opk := match n with NSelect => SELECT | NWhere => WHERE | NOrderBy => ORDER_BY | NLimit => LIMIT | NDistinct => SELECT end.
Definition order_append : bool := false.
Definition limit_merge (num m : Z) : Z := (Z.min num m).
Definition gen_cfg : cfg := mkCfg wrap_needed_df kind_of init_wraps_df order_append limit_merge.
