"""T1 for C17: regenerate, from /repo's current source, the SHAPE of every DuckDB emulation that the Coq development
models (coq/theories/C17/Emul.v) -- which primitive, which +1/-1, which comparison, which default, which argument
order -- as configuration values for Gen.C17Facts.  FAIL-CLOSED: the bodies are evaluated symbolically by a small
interpreter over Python's `ast` that knows a fixed set of constructs; anything else raises Untranslatable.

The interpreter resolves the engine dispatch (`session._is_<engine>` tests, DuckDB = True, every other engine =
False), inlines the helpers of base/function_alternatives.py, treats `.column_expression` / `.expression` /
`Column(...)` / `Column.ensure_col(...)` / `col_func(...)` as transparent coercions (they do not change the value),
and returns a term:
    ('param', name) | ('const', v) | ('call', fname, [args]) | ('anon', NAME, [args]) | ('exp', Class, {kw: term})
    | ('bin', op, l, r) | ('cmp', op, l, r) | ('un', op, x) | ('cast', x, type) | ('method', recv, name, [args])
    | ('list', [..]) | ('coerce', x)            x if isinstance(x, Column) else lit(x)
    | ('ifthen', cond_kind, new, old)           conditional re-binding on a literal test (index shifts)
    | ('ifpresent', name, a, b) | ('ident', s) | ('opaque', text)
Local variable names, the order of independent assignments, the spelling of imports and the helper a body is split
into do not matter; the primitive, the constants, the comparison and the argument order do.
"""
from __future__ import annotations

import ast
import math
import os

from vlib import py2v
from vlib.py2v import Untranslatable, dotted

ENGINE_ATTR = "_is_"
COERCIONS = {"Column.ensure_col", "Column"}
BIN = {ast.Add: "add", ast.Sub: "sub", ast.Mult: "mul", ast.Div: "div", ast.BitOr: "or", ast.BitAnd: "and"}
CMP = {ast.Eq: "eq", ast.NotEq: "ne", ast.Lt: "lt", ast.LtE: "le", ast.Gt: "gt", ast.GtE: "ge"}


class _Return(Exception):
    def __init__(self, v):
        self.v = v


class Interp:
    def __init__(self, repo):
        self.fn_tree, self.fn_src = py2v.load(os.path.join(repo, "sqlframe/base/functions.py"))
        self.alt_tree, self.alt_src = py2v.load(os.path.join(repo, "sqlframe/base/function_alternatives.py"))
        self.col_tree, self.col_src = py2v.load(os.path.join(repo, "sqlframe/base/column.py"))
        self.FN = {n.name: n for n in self.fn_tree.body if isinstance(n, ast.FunctionDef)}
        self.ALT = {n.name: n for n in self.alt_tree.body if isinstance(n, ast.FunctionDef)}
        # module-level aliases such as  ceiling = ceil
        for n in self.fn_tree.body:
            if isinstance(n, ast.Assign) and len(n.targets) == 1 and isinstance(n.targets[0], ast.Name) \
                    and isinstance(n.value, ast.Name) and n.value.id in self.FN:
                self.FN.setdefault(n.targets[0].id, self.FN[n.value.id])
        self.used = {}      # name -> (file, hash) of every function body the facts were read from
        self.engine = "duckdb"   # the engine whose `session._is_<engine>` tests are true (the others are false)

    # -- entry points ---------------------------------------------------------------------------------------
    def function(self, name, present=None, args=None):
        """DuckDB value term of functions.<name>(params...) ; `present` says which optional params are given."""
        if name not in self.FN:
            raise Untranslatable(f"functions.{name} not found")
        return self._apply(self.FN[name], self.fn_src, "functions.py", args, present or {})

    def method(self, cls, name, present=None):
        d = py2v.find_method(self.col_tree, cls, name)
        return self._apply(d, self.col_src, "column.py", None, present or {}, is_method=True)

    def duck_statements(self, name):
        """the statements of functions.<name> that run on DuckDB (engine tests resolved), for shape matchers"""
        d = self.FN[name]
        self.used[name] = ("functions.py", py2v.src_hash(d, self.fn_src))
        return self._resolve(self._body(d))

    # -- machinery --------------------------------------------------------------------------------------------
    @staticmethod
    def _body(d):
        return [s for s in d.body if not (isinstance(s, ast.Expr) and isinstance(s.value, ast.Constant))]

    def _apply(self, d, src, fname, args, present, is_method=False, depth=0):
        if depth > 6:
            raise Untranslatable(f"{d.name}: helper nesting too deep")
        self.used[d.name] = (fname, py2v.src_hash(d, src))
        params = [a.arg for a in d.args.args]
        if d.args.kwonlyargs or d.args.kwarg:
            raise Untranslatable(f"{d.name}: keyword-only / ** parameters")
        env = {}
        ndef = len(d.args.defaults)
        for k, p in enumerate(params):
            if args is not None and k < len(args):
                env[p] = args[k]
            elif args is not None:
                # parameter not passed by the caller: its default
                j = k - (len(params) - ndef)
                if j < 0:
                    raise Untranslatable(f"{d.name}: missing argument {p}")
                env[p] = self._expr(d.args.defaults[j], {}, {}, depth)
            else:
                j = k - (len(params) - ndef)
                if j >= 0 and not present.get(p, False):
                    env[p] = self._expr(d.args.defaults[j], {}, {}, depth)
                else:
                    env[p] = ("param", p)
        if d.args.vararg:
            env[d.args.vararg.arg] = ("opaque", "*" + d.args.vararg.arg)
        try:
            self._stmts(self._body(d), env, present, depth)
        except _Return as r:
            return r.v
        raise Untranslatable(f"{d.name}: no return reached on the DuckDB path")

    def _engine_test(self, t):
        """3-valued: True/False when the test is decided by the engine alone, None otherwise"""
        if isinstance(t, ast.Attribute) and t.attr.startswith(ENGINE_ATTR):
            return t.attr == "_is_" + self.engine
        if isinstance(t, ast.BoolOp):
            vals = [self._engine_test(v) for v in t.values]
            if isinstance(t.op, ast.Or):
                return True if True in vals else (None if None in vals else False)
            return False if False in vals else (None if None in vals else True)
        if isinstance(t, ast.UnaryOp) and isinstance(t.op, ast.Not):
            v = self._engine_test(t.operand)
            return None if v is None else (not v)
        return None

    def _resolve(self, stmts):
        out = []
        for s in stmts:
            if isinstance(s, ast.If):
                v = self._engine_test(s.test)
                if v is True:
                    out += self._resolve(s.body)
                    if any(isinstance(x, ast.Return) for x in s.body):
                        return out
                    continue
                if v is False:
                    out += self._resolve(s.orelse)
                    continue
            out.append(s)
        return out

    def _lit_test(self, t, env):
        """recognise the two literal tests; returns (kind, variable) or None"""
        src = ast.unparse(t)
        if isinstance(t, ast.ListComp):
            # [x for x in V.column_expression.find_all(expression.Literal) if x.is_number]
            g = t.generators
            if len(g) == 1 and isinstance(g[0].iter, ast.Call) and isinstance(g[0].iter.func, ast.Attribute) \
                    and g[0].iter.func.attr == "find_all" and len(g[0].ifs) == 1 and ast.unparse(g[0].ifs[0]).endswith(".is_number") \
                    and ast.unparse(g[0].iter.args[0]).endswith("Literal"):
                base = g[0].iter.func.value
                while isinstance(base, ast.Attribute) and base.attr in ("column_expression", "expression"):
                    base = base.value
                if isinstance(base, ast.Name):
                    return "has_lit", base.id
            raise Untranslatable(f"unknown list-comprehension test: {src}")
        if isinstance(t, ast.BoolOp) and isinstance(t.op, ast.And) and len(t.values) == 2:
            a, b = t.values
            if isinstance(a, ast.Call) and dotted(a.func) == "isinstance" and ast.unparse(a.args[1]).endswith("Literal") \
                    and ast.unparse(b).endswith(".is_number"):
                base = a.args[0]
                while isinstance(base, ast.Attribute) and base.attr in ("column_expression", "expression"):
                    base = base.value
                base_b = b.value
                while isinstance(base_b, ast.Attribute) and base_b.attr in ("column_expression", "expression"):
                    base_b = base_b.value
                if isinstance(base, ast.Name) and isinstance(base_b, ast.Name) and base.id == base_b.id:
                    return "is_lit", base.id
        return None

    def _stmts(self, stmts, env, present, depth):
        for s in stmts:
            if isinstance(s, (ast.Import, ast.ImportFrom, ast.Pass)):
                continue
            if isinstance(s, ast.Expr) and isinstance(s.value, ast.Call) and (dotted(s.value.func) or "").startswith("logger."):
                continue
            if isinstance(s, ast.Assign) and len(s.targets) == 1 and isinstance(s.targets[0], ast.Name):
                env[s.targets[0].id] = self._expr(s.value, env, present, depth)
                continue
            if isinstance(s, ast.Assign) and len(s.targets) == 1 and isinstance(s.targets[0], ast.Tuple) \
                    and isinstance(s.value, ast.Tuple) and len(s.value.elts) == len(s.targets[0].elts) \
                    and all(isinstance(x, ast.Name) for x in s.targets[0].elts):
                vals = [self._expr(v, env, present, depth) for v in s.value.elts]      # right side first, as Python does
                for x, v in zip(s.targets[0].elts, vals):
                    env[x.id] = v
                continue
            if isinstance(s, ast.AnnAssign) and isinstance(s.target, ast.Name) and s.value is not None:
                env[s.target.id] = self._expr(s.value, env, present, depth)
                continue
            if isinstance(s, ast.Return) and s.value is not None:
                raise _Return(self._expr(s.value, env, present, depth))
            if isinstance(s, ast.If):
                v = self._engine_test(s.test)
                if v is None:
                    v = self._presence_test(s.test, env, present)
                if v is True:
                    self._stmts(s.body, env, present, depth)
                    continue
                if v is False:
                    self._stmts(s.orelse, env, present, depth)
                    continue
                lt = self._lit_test(s.test, env)
                if lt and not s.orelse and len(s.body) == 1 and isinstance(s.body[0], ast.Assign) \
                        and len(s.body[0].targets) == 1 and isinstance(s.body[0].targets[0], ast.Name) \
                        and s.body[0].targets[0].id == lt[1]:
                    old = env[lt[1]]
                    new = self._expr(s.body[0].value, env, present, depth)
                    env[lt[1]] = ("ifthen", lt[0], new, old)
                    continue
                raise Untranslatable(f"undecidable `if {ast.unparse(s.test)}`")
            raise Untranslatable(f"statement not understood: {ast.unparse(s)[:80]}")

    def _presence_test(self, t, env, present):
        """tests on optional parameters: `p is not None`, `p is None`, `p` , `not p`"""
        def pname(n):
            if isinstance(n, ast.Name) and env.get(n.id) in (("param", n.id), ("const", None)):
                return n.id
            return None
        if isinstance(t, ast.Compare) and len(t.ops) == 1 and isinstance(t.comparators[0], ast.Constant) \
                and t.comparators[0].value is None and pname(t.left):
            here = env[pname(t.left)] != ("const", None)
            return here if isinstance(t.ops[0], ast.IsNot) else (not here if isinstance(t.ops[0], ast.Is) else None)
        if pname(t):
            return env[pname(t)] != ("const", None)
        if isinstance(t, ast.UnaryOp) and isinstance(t.op, ast.Not) and pname(t.operand):
            return env[pname(t.operand)] == ("const", None)
        return None

    def _expr(self, n, env, present, depth):
        E = lambda x: self._expr(x, env, present, depth)
        if isinstance(n, ast.Constant):
            return ("const", n.value)
        if isinstance(n, ast.Name):
            if n.id in env:
                return env[n.id]
            if n.id in self.ALT:
                return ("altfunc", n.id)
            if n.id in self.FN:
                return ("func", n.id)
            if n.id in ("Column", "expression", "exp", "math", "float", "isinstance", "int", "str", "list"):
                return ("global", n.id)
            raise Untranslatable(f"unknown name {n.id}")
        if isinstance(n, ast.Attribute):
            if n.attr in ("column_expression", "expression") and not (isinstance(n.value, ast.Name) and n.value.id in ("exp",)):
                return E(n.value)
            d = dotted(n)
            if d == "math.e":
                return ("const", math.e)
            if d and (d.startswith("expression.") or d.startswith("exp.")):
                return ("expcls", d.split(".", 1)[1])
            raise Untranslatable(f"attribute not understood: {ast.unparse(n)}")
        if isinstance(n, ast.List) or isinstance(n, ast.Tuple):
            return ("list", [E(x) for x in n.elts])
        if isinstance(n, ast.BinOp) and type(n.op) in BIN:
            return ("bin", BIN[type(n.op)], E(n.left), E(n.right))
        if isinstance(n, ast.UnaryOp) and isinstance(n.op, ast.Invert):
            return ("un", "invert", E(n.operand))
        if isinstance(n, ast.UnaryOp) and isinstance(n.op, ast.USub):
            v = E(n.operand)
            return ("const", -v[1]) if v[0] == "const" and isinstance(v[1], (int, float)) else ("un", "neg", v)
        if isinstance(n, ast.Compare) and len(n.ops) == 1 and type(n.ops[0]) in CMP:
            return ("cmp", CMP[type(n.ops[0])], E(n.left), E(n.comparators[0]))
        if isinstance(n, ast.IfExp):
            t = n.test
            if isinstance(t, ast.UnaryOp) and isinstance(t.op, ast.Not) and isinstance(t.operand, ast.Call) \
                    and dotted(t.operand.func) == "isinstance":
                t = t.operand          # both branches are inspected symmetrically below
            # x if isinstance(x, Column) else lit(x)      |     lit(x) if isinstance(x, (int, float)) else x
            if isinstance(t, ast.Call) and dotted(t.func) == "isinstance" and isinstance(t.args[0], ast.Name):
                a, b = E(n.body), E(n.orelse)
                x = env.get(t.args[0].id)
                def is_lit_of(v):
                    return v[0] == "call" and v[1] == "lit" and v[2] == [x]
                if (a == x and is_lit_of(b)) or (b == x and is_lit_of(a)):
                    return ("coerce", x)
                raise Untranslatable(f"isinstance conditional not a literal coercion: {ast.unparse(n)}")
            v = self._presence_test(t, env, present)
            if v is True:
                return E(n.body)
            if v is False:
                return E(n.orelse)
            raise Untranslatable(f"undecidable conditional expression: {ast.unparse(n)[:80]}")
        if isinstance(n, ast.Call):
            return self._call(n, env, present, depth)
        if isinstance(n, ast.JoinedStr):
            return ("opaque", ast.unparse(n))
        raise Untranslatable(f"expression not understood: {ast.unparse(n)[:80]}")

    def _call(self, n, env, present, depth):
        E = lambda x: self._expr(x, env, present, depth)
        d = dotted(n.func)
        if any(isinstance(a, ast.Starred) for a in n.args) or any(k.arg is None for k in n.keywords):
            raise Untranslatable(f"star arguments: {ast.unparse(n)[:80]}")
        if d == "get_func_from_session":
            if not (n.args and isinstance(n.args[0], ast.Constant) and isinstance(n.args[0].value, str)):
                raise Untranslatable("get_func_from_session of a non-constant")
            return ("func", n.args[0].value)
        if d in ("_get_session", "_BaseSession"):
            return ("opaque", "session")
        if d == "Column.invoke_anonymous_function":
            if len(n.args) < 2 or not (isinstance(n.args[1], ast.Constant) and isinstance(n.args[1].value, str)):
                raise Untranslatable("invoke_anonymous_function with a non-constant name")
            return ("anon", n.args[1].value.upper(), [E(n.args[0])] + [E(a) for a in n.args[2:]])
        if d == "Column.invoke_expression_over_column":
            cls = E(n.args[1])
            if cls[0] != "expcls" or len(n.args) != 2:
                raise Untranslatable("invoke_expression_over_column of a non-class")
            kw = {"this": E(n.args[0])}
            kw.update({k.arg: E(k.value) for k in n.keywords})
            return ("exp", cls[1], kw)
        if d in COERCIONS and len(n.args) == 1 and not n.keywords:
            return E(n.args[0])
        if d == "float" and len(n.args) == 1 and isinstance(n.args[0], ast.Constant) and n.args[0].value == "nan":
            return ("const", "nan")
        if d and (d.startswith("expression.") or d.startswith("exp.")):
            cls = d.split(".", 1)[1]
            if cls == "Literal.number" or cls == "Literal.string":
                v = E(n.args[0])
                if v[0] != "const":
                    raise Untranslatable("Literal of a non-constant")
                return v
            if cls in ("Identifier", "Var") and len(n.keywords) == 1 and n.keywords[0].arg == "this":
                v = E(n.keywords[0].value)
                return ("ident", v[1]) if v[0] == "const" else v
            if cls == "DataType.build":
                return ("dtype", E(n.args[0])[1])
            if cls == "case" and not n.args:
                return ("case0",)
            if n.args:
                raise Untranslatable(f"positional arguments to {d}")
            kw = {k.arg: E(k.value) for k in n.keywords}
            if cls == "Anonymous":
                name = kw.get("this")
                if not name or name[0] != "const":
                    raise Untranslatable("Anonymous with a non-constant name")
                ex = kw.get("expressions", ("list", []))
                return ("anon", str(name[1]).upper(), ex[1] if ex[0] == "list" else [ex])
            return ("exp", cls, kw)
        # method calls on terms
        if isinstance(n.func, ast.Attribute) and d is None or (isinstance(n.func, ast.Attribute) and d and d.split(".")[0] in env):
            recv = E(n.func.value)
            m = n.func.attr
            args = [E(a) for a in n.args]
            if m == "cast" and args and args[0][0] == "const":
                return ("cast", recv, str(args[0][1]).lower())
            if m in ("isNull", "isNotNull") and not args:
                return ("isnull" if m == "isNull" else "notnull", recv)
            if m in ("when", "otherwise", "else_", "alias", "substr"):
                return ("method", recv, m, args)
            raise Untranslatable(f"method .{m} not understood")
        f = E(n.func) if isinstance(n.func, (ast.Name, ast.Call)) else None
        if f is None:
            raise Untranslatable(f"call not understood: {ast.unparse(n)[:80]}")
        args = [E(a) for a in n.args]
        kws = {k.arg: E(k.value) for k in n.keywords}
        if f[0] == "altfunc" or (f[0] == "func" and f[1] in self.ALT and f[1] not in self.FN):
            if kws:
                raise Untranslatable(f"keyword call of helper {f[1]}")
            return self._apply(self.ALT[f[1]], self.alt_src, "function_alternatives.py", args, {}, depth=depth + 1)
        if f[0] == "func":
            if kws:
                raise Untranslatable(f"keyword call of {f[1]}")
            return ("call", f[1], args)
        raise Untranslatable(f"call of {f}")


# ---------------------------------------------------------------------------------------------------------------
# matchers: term -> configuration
# ---------------------------------------------------------------------------------------------------------------
def strip(t):
    """drop value-preserving wrappers"""
    while t[0] == "coerce" or (t[0] == "call" and t[1] in ("col",) and len(t[2]) == 1):
        t = t[1] if t[0] == "coerce" else t[2][0]
    return t


def int_const(t):
    t = strip(t)
    if t[0] == "call" and t[1] == "lit" and len(t[2]) == 1:
        t = strip(t[2][0])
    if t[0] == "const" and isinstance(t[1], int) and not isinstance(t[1], bool):
        return t[1]
    return None


def affine(t, variables):
    """term -> {var: coef, 1: const} over the named parameters (anything else fails closed)"""
    t = strip(t)
    k = int_const(t)
    if k is not None:
        return {1: k}
    if t[0] == "param" and t[1] in variables:
        return {t[1]: 1}
    if t in variables.values():
        return {[k for k, v in variables.items() if v == t][0]: 1}
    if t[0] == "bin" and t[1] in ("add", "sub"):
        a, b = affine(t[2], variables), affine(t[3], variables)
        sgn = 1 if t[1] == "add" else -1
        out = dict(a)
        for k2, v in b.items():
            out[k2] = out.get(k2, 0) + sgn * v
        return out
    raise Untranslatable(f"not an affine expression of {list(variables)}: {t}")


def aff3(d, v1, v2):
    extra = set(d) - {v1, v2, 1}
    if extra:
        raise Untranslatable(f"unexpected variables {extra}")
    return f"(({d.get(v1, 0)})%Z, ({d.get(v2, 0)})%Z, ({d.get(1, 0)})%Z)"


CMPOP = {"lt": "CLt", "le": "CLe", "gt": "CGt", "ge": "CGe", "eq": "CEq", "ne": "CNe",
         "LT": "CLt", "LTE": "CLe", "GT": "CGt", "GTE": "CGe", "EQ": "CEq", "NEQ": "CNe"}


def is_param(t, name):
    return strip(t) == ("param", name)


def need(cond, msg):
    if not cond:
        raise Untranslatable(msg)


def shift_of(t, var_desc):
    """('ifthen', kind, new, old) with new = old +/- k  ->  (cond, by, old)"""
    if t[0] != "ifthen":
        return "CondNever", 0, t
    kind, new, old = t[1], t[2], t[3]
    need(new[0] == "bin" and new[1] in ("add", "sub") and new[2] == old, f"{var_desc}: shifted value is not old +/- k")
    k = int_const(new[3])
    need(k is not None, f"{var_desc}: shift is not an integer literal")
    return {"has_lit": "CondHasLit", "is_lit": "CondIsLit"}[kind], (k if new[1] == "add" else -k), old


# normalised hash (vlib.py2v.norm_hash) of util.soundex with the replacement table and the for-else branch blanked out
SOUNDEX_SHAPE = "271937a0a520"


def when_only(t):
    """('call','when',[cond, value])  ->  (cond, value)  or None"""
    if t[0] == "call" and t[1] == "when" and len(t[2]) == 2:
        return t[2][0], t[2][1]
    return None


def when_otherwise(t):
    """when(cond, a).otherwise(b)  ->  (cond, a, b)  or None"""
    if t[0] == "method" and t[2] == "otherwise" and len(t[3]) == 1 and when_only(t[1]):
        c, a = when_only(t[1])
        return c, a, t[3][0]
    return None


def conj(t):
    """a & b & ...  ->  [a, b, ...]"""
    if t[0] == "bin" and t[1] == "and":
        return conj(t[2]) + conj(t[3])
    return [t]


def generate(repo: str):
    I = Interp(repo)
    L = ["(* GENERATED from /repo on every run by translate/c17_facts.py -- do not edit *)",
         "From Coq Require Import ZArith List String.", "From SF Require Import C17.Emul C17.Emul2 C17.EmulCheck.",
         "Import ListNotations.", "Open Scope Z_scope."]
    facts = []

    def fact(name, coq_ty, coq, fns, note=""):
        L.append(f"Definition c17_{name} : {coq_ty} := {coq}.")
        facts.append({"name": name, "value": coq, "from": {f: I.used.get(f) for f in fns}, "note": note})

    # ---- slice -------------------------------------------------------------------------------------------
    t = I.function("slice")
    rebase = "NoRebase"
    first_term = None
    wo = when_otherwise(t)
    if wo:
        # when(first < below, LIST_SLICE(x, 1, 0)).otherwise(LIST_SLICE(x, lo(first, length), hi(first, length)))
        cnd, empty, t = wo
        need(cnd[0] == "cmp" and cnd[1] == "lt" and int_const(cnd[3]) is not None, f"slice: outer condition is not `first < k`: {cnd}")
        first_term, below = cnd[2], int_const(cnd[3])
        need(empty[0] == "anon" and empty[1] == "LIST_SLICE" and len(empty[2]) == 3 and is_param(empty[2][0], "x")
             and int_const(empty[2][1]) is not None and int_const(empty[2][2]) is not None and int_const(empty[2][1]) >= 1
             and int_const(empty[2][2]) < int_const(empty[2][1]), f"slice: the out-of-range branch is not an empty LIST_SLICE(x, i, j<i): {empty}")
        fw = when_otherwise(first_term)
        need(fw is not None, f"slice: first index is not when(start < 0, ..).otherwise(start): {first_term}")
        c2, neg, pos_ = fw
        need(c2[0] == "cmp" and c2[1] == "lt" and is_param(c2[2], "start") and int_const(c2[3]) == 0 and is_param(pos_, "start"),
             f"slice: first index does not split on start < 0: {first_term}")
        size = ("exp", "ArraySize", {"this": ("param", "x")})
        d = affine(neg, {"size": size, "start": None})
        need(set(d) <= {"size", "start", 1}, "slice: negative-start index uses other variables")
        rebase = f"(Rebase ({d.get('size', 0)}) ({d.get('start', 0)}) ({d.get(1, 0)}) ({below}))"
    need(t[0] == "anon" and t[1] == "LIST_SLICE" and len(t[2]) == 3 and is_param(t[2][0], "x"),
         f"slice: not LIST_SLICE(x, lo, hi): {t}")
    # with a re-based first index the bounds must be written in terms of IT (the raw `start` is not accepted in its place)
    v1 = "first" if first_term is not None else "start"
    sv = {v1: first_term, "length": None}
    lo = affine(t[2][1], sv)
    hi = affine(t[2][2], sv)
    fact("slice", "slice_cfg", f"mkSlice {aff3(lo, v1, 'length')} {aff3(hi, v1, 'length')}",
         ["slice", "slice_as_list_slice"], "LIST_SLICE(x, lo, hi) as affine forms (first index, length, const)")
    fact("slice_rebase", "slice_rebase", rebase, ["slice_as_list_slice"],
         "first index = CASE WHEN start < 0 THEN a*size + b*start + k ELSE start END; [] when it is < below")

    # ---- element_at / try_element_at / getItem ------------------------------------------------------------------
    def bracket(t, who, colname, valname):
        need(t[0] == "exp" and t[1] == "Bracket", f"{who}: not a Bracket: {t}")
        need(is_param(t[2].get("this"), colname), f"{who}: Bracket.this is not the array argument")
        ex = t[2].get("expressions")
        need(ex and ex[0] == "list" and len(ex[1]) == 1, f"{who}: Bracket.expressions is not a single index")
        cond, by, old = shift_of(strip(ex[1][0]), who)
        need(is_param(old, valname), f"{who}: the index is not the index argument")
        off = t[2].get("offset", ("const", 0))
        need(off[0] == "const" and isinstance(off[1], int) and not isinstance(off[1], bool), f"{who}: Bracket.offset is not an integer literal")
        need(set(t[2]) <= {"this", "expressions", "offset", "safe"}, f"{who}: unexpected Bracket arguments {sorted(t[2])}")
        return cond, by, off[1]
    c, b, o = bracket(I.function("element_at"), "element_at", "col", "value")
    fact("element_at", "shift_cfg", f"mkShift {c} ({b}) ({o})", ["element_at", "element_at_using_brackets"],
         "how the index reaches the Bracket: conditional re-basing by sqlframe and the Bracket's offset argument "
         "(sqlglot's DuckDB generator adds INDEX_OFFSET - offset to integer-typed indices)")
    c, b, o = bracket(I.function("try_element_at"), "try_element_at", "col", "extraction")
    fact("try_element_at", "shift_cfg", f"mkShift {c} ({b}) ({o})", ["try_element_at"])
    t = I.method("Column", "getItem")
    need(t[0] == "call" and t[1] == "element_at" and len(t[2]) == 2 and is_param(t[2][0], "self"),
         f"Column.getItem: not element_at(self, key): {t}")
    key = t[2][1]
    # key = lit(key) if not isinstance(key, Column) else key   -> coercion;  then the conditional shift
    c, b, old = shift_of(key, "Column.getItem")
    need(is_param(old, "key"), "Column.getItem: shifted value is not the key")
    fact("getitem", "shift_cfg", f"mkShift {c} ({b}) (0)", ["getItem"])

    # ---- array_min / array_max --------------------------------------------------------------------------------
    for f in ("array_min", "array_max"):
        t = I.function(f)
        need(t[0] == "call" and t[1] == "element_at" and len(t[2]) == 2, f"{f}: not element_at(.., idx): {t}")
        inner = t[2][0]
        need(inner[0] == "call" and inner[1] == "array_sort" and len(inner[2]) == 1 and is_param(inner[2][0], "col"),
             f"{f}: first argument is not array_sort(col)")
        k = int_const(t[2][1])
        need(k is not None, f"{f}: index is not an integer literal")
        fact(f + "_idx", "Z", f"({k})", [f, f + "_from_sort"], "element_at(array_sort(col), idx)")
    t = I.function("array_sort")
    need(t[0] == "exp" and t[1] == "ArraySort" and is_param(t[2]["this"], "col") and set(t[2]) == {"this"},
         f"array_sort without comparator is not a plain ArraySort(col): {t}")

    # ---- array_position -------------------------------------------------------------------------------------
    def pos_shape(engine):
        I.engine = engine
        try:
            t = I.function("array_position")
        finally:
            I.engine = "duckdb"
        guard = False
        if t[0] == "call" and t[1] == "when" and len(t[2]) == 2:
            need(t[2][0][0] == "notnull" and is_param(t[2][0][1], "col"), f"array_position[{engine}]: guard is not `col IS NOT NULL`: {t[2][0]}")
            guard, t = True, t[2][1]
        need(t[0] == "call" and t[1] == "coalesce" and len(t[2]) == 2,
             f"array_position[{engine}]: not [when(col.isNotNull(),] coalesce(prim, default)[)]: {t}")
        p = t[2][0]
        need(p[0] == "anon" and p[1] == "ARRAY_POSITION" and len(p[2]) == 2 and is_param(p[2][0], "col") and is_param(p[2][1], "value"),
             f"array_position[{engine}]: primitive is not ARRAY_POSITION(col, value): {p}")
        k = int_const(t[2][1])
        return f"mkPos {'None' if k is None else f'(Some ({k}))'} {'true' if guard else 'false'}"
    fact("pos", "pos_cfg", pos_shape("duckdb"), ["array_position"])
    # the same call rendered for a Spark / Databricks session (their ARRAY_POSITION is NULL for a NULL array, so the COALESCE
    # needs the same guard there): the thorough tier runs these sessions live, the quick tier pins the shape
    fact("pos_spark", "pos_cfg", pos_shape("spark"), ["array_position"], "shape under session._is_spark")
    fact("pos_databricks", "pos_cfg", pos_shape("databricks"), ["array_position"], "shape under session._is_databricks")

    # ---- factorial --------------------------------------------------------------------------------------------
    t = I.function("factorial")
    guard = "None"
    wo = when_only(t)
    if wo:
        # when((v >= lo) & (v <= hi), FACTORIAL(v))
        cs, inner = conj(wo[0]), wo[1]
        need(inner[0] == "anon" and len(inner[2]) == 1, f"factorial: guarded value is not a one-argument function: {inner}")
        v = inner[2][0]
        lo_ = [int_const(c[3]) for c in cs if c[0] == "cmp" and c[1] == "ge" and c[2] == v]
        hi_ = [int_const(c[3]) for c in cs if c[0] == "cmp" and c[1] == "le" and c[2] == v]
        need(len(cs) == 2 and len(lo_) == 1 and len(hi_) == 1 and None not in lo_ + hi_,
             f"factorial: guard is not (v >= lo) & (v <= hi) on the argument of FACTORIAL: {wo[0]}")
        guard, t = f"(Some (({lo_[0]})%Z, ({hi_[0]})%Z))", inner
    need(t[0] == "anon" and len(t[2]) == 1, f"factorial: not a one-argument function: {t}")
    a = t[2][0]
    ty = "TyOther"
    if a[0] == "cast":
        need(is_param(a[1], "col"), "factorial: cast of something else")
        ty = {"integer": "TyInteger", "int": "TyInteger", "bigint": "TyBigint", "long": "TyBigint", "double": "TyDouble"}.get(a[2], "TyOther")
    else:
        need(is_param(a, "col"), "factorial: argument is not col")
        ty = "TyBigint"
    fact("fact", "fact_cfg", f"mkFact {'true' if t[1] == 'FACTORIAL' else 'false'} {ty}", ["factorial", "factorial_ensure_int"])
    fact("fact_guard", "option (Z * Z)", guard, ["factorial_ensure_int"], "CASE WHEN lo <= v AND v <= hi THEN FACTORIAL(v) END")

    # ---- rint -------------------------------------------------------------------------------------------------
    t = I.function("rint")
    if t[0] == "anon" and t[1] == "ROUND_EVEN":
        need(len(t[2]) == 2 and is_param(t[2][0], "col"), f"rint: not ROUND_EVEN(col, k): {t}")
        k = int_const(t[2][1])
        need(k is not None, "rint: scale is not an integer literal")
        fact("rint", "rint_cfg", f"mkRint RoundHalfEven ({k})", ["rint"])
    else:
        need(t[0] == "call" and t[1] == "round" and len(t[2]) == 2 and is_param(t[2][0], "col"), f"rint: not round(col, k) / ROUND_EVEN(col, k): {t}")
        k = int_const(t[2][1])
        need(k is not None, "rint: scale is not an integer literal")
        r = I.function("round", present={"scale": True})
        need(r[0] == "exp" and r[1] == "Round" and is_param(r[2]["this"], "col") and is_param(r[2].get("decimals"), "scale"),
             f"round(col, scale) is not Round(this=col, decimals=scale): {r}")
        fact("rint", "rint_cfg", f"mkRint RoundHalfAway ({k})", ["rint", "rint_from_round", "round"])

    # ---- dayofweek --------------------------------------------------------------------------------------------
    t = I.function("dayofweek")
    shift = 0
    if t[0] == "bin" and t[1] in ("add", "sub"):
        k = int_const(t[3])
        need(k is not None, "dayofweek: shift is not an integer literal")
        shift, t = (k if t[1] == "add" else -k), t[2]
    need(t[0] == "exp" and t[1] == "DayOfWeek", f"dayofweek: not DayOfWeek: {t}")
    inner = t[2]["this"]
    need(inner[0] == "exp" and inner[1] == "TsOrDsToDate" and is_param(inner[2]["this"], "col"), "dayofweek: argument is not TsOrDsToDate(col)")
    fact("dow", "Z", f"({shift})", ["dayofweek"])

    # ---- overlay ----------------------------------------------------------------------------------------------
    glue = []

    def overlay(present):
        t = I.function("overlay", present=present)
        if t[0] == "exp" and t[1] == "DPipe":
            # (a || b) || c
            inner = t[2].get("this")
            need(inner and inner[0] == "exp" and inner[1] == "DPipe" and set(t[2]) == {"this", "expression"} and set(inner[2]) == {"this", "expression"},
                 f"overlay: not (a || b) || c: {t}")
            a, b, c = inner[2]["this"], inner[2]["expression"], t[2]["expression"]
            glue.append("GluePipes")
        else:
            need(t[0] == "exp" and t[1] == "Concat" and t[2]["expressions"][0] == "list" and len(t[2]["expressions"][1]) == 3,
                 f"overlay: neither a 3-part Concat nor (a || b) || c: {t}")
            a, b, c = t[2]["expressions"][1]
            glue.append("GlueConcat")
        for part in (a, c):
            need(part[0] == "call" and part[1] == "substring" and len(part[2]) == 3 and is_param(part[2][0], "src"),
                 f"overlay: part is not substring(src, .., ..): {part}")
        need(is_param(b, "replace"), "overlay: middle part is not `replace`")
        ln = c[2][2]
        need(ln[0] == "call" and ln[1] == "length" and is_param(ln[2][0], "src"), "overlay: suffix length is not length(src)")
        return a, c
    a, c = overlay({"len": True})
    fs = int_const(a[2][1])
    need(fs is not None, "overlay: prefix start is not an integer literal")
    fl = affine(a[2][2], {"pos": None, "len": None})
    ss = affine(c[2][1], {"pos": None, "len": None})
    # without `len` the length of `replace` takes its place (Spark's default, too)
    a2, c2 = overlay({})
    dflt = ("call", "length", [("param", "replace")])
    ss2 = affine(c2[2][1], {"pos": None, "len": dflt})
    order_ok = (ss2 == ss and affine(a2[2][2], {"pos": None, "len": dflt}) == fl and int_const(a2[2][1]) == fs)
    s = I.function("substring")
    need(s[0] == "method" and s[2] == "substr" and is_param(s[1], "str") and [strip(x) for x in s[3]] == [("param", "pos"), ("param", "len")],
         f"substring is not Column.substr(pos, len): {s}")
    fact("overlay", "overlay_cfg", f"mkOverlay ({fs}) {aff3(fl, 'pos', 'len')} {aff3(ss, 'pos', 'len')} {'true' if order_ok else 'false'}",
         ["overlay", "overlay_from_substr", "substring"], "CONCAT(SUBSTRING(src, s1, len1), replace, SUBSTRING(src, s2, LENGTH(src)))")
    need(len(set(glue)) == 1, "overlay: the two call forms are glued differently")
    fact("overlay_glue", "glue", glue[0], ["overlay_from_substr"], "how the three parts are joined: CONCAT(..) skips NULL parts on DuckDB, || does not")

    # ---- arrays_overlap ---------------------------------------------------------------------------------------
    t = I.function("arrays_overlap")
    need(t[0] == "exp" and t[1] in CMPOP, f"arrays_overlap: not a comparison: {t}")
    sz = t[2]["this"]
    need(sz[0] == "exp" and sz[1] == "ArraySize", "arrays_overlap: left side is not ArraySize")
    it = sz[2]["this"]
    need(it[0] == "anon" and it[1] == "ARRAY_INTERSECT" and len(it[2]) == 2 and {strip(it[2][0]), strip(it[2][1])} == {("param", "col1"), ("param", "col2")},
         f"arrays_overlap: not ARRAY_INTERSECT(col1, col2): {it}")
    k = int_const(t[2]["expression"])
    need(k is not None, "arrays_overlap: threshold is not an integer literal")
    fact("overlap", "overlap_cfg", f"mkOverlap {CMPOP[t[1]]} ({k})", ["arrays_overlap", "arrays_overlap_using_intersect"])

    # ---- array_union ------------------------------------------------------------------------------------------
    t = I.function("array_union")
    uguard = False
    wo = when_only(t)
    if wo:
        cs = conj(wo[0])
        need(len(cs) == 2 and all(c[0] == "notnull" for c in cs) and {strip(c[1]) for c in cs} == {("param", "col1"), ("param", "col2")},
             f"array_union: guard is not col1 IS NOT NULL AND col2 IS NOT NULL: {wo[0]}")
        uguard, t = True, wo[1]
    outer = t[0] == "anon" and t[1] == "LIST_DISTINCT" and len(t[2]) == 1
    inner = outer and t[2][0][0] == "anon" and t[2][0][1] in ("LIST_CONCAT", "ARRAY_CONCAT", "LIST_CAT", "ARRAY_CAT")
    both = inner and len(t[2][0][2]) == 2 and {strip(x) for x in t[2][0][2]} == {("param", "col1"), ("param", "col2")}
    fact("union", "union_cfg", f"mkUnion {'true' if outer else 'false'} {'true' if inner else 'false'} {'true' if both else 'false'}",
         ["array_union", "array_union_using_list_concat"])
    fact("union_guard", "bool", "true" if uguard else "false", ["array_union_using_list_concat"])

    # ---- array_remove -----------------------------------------------------------------------------------------
    t = I.function("array_remove")
    need(t[0] == "anon" and t[1] == "LIST_FILTER" and len(t[2]) == 2 and is_param(t[2][0], "col"), f"array_remove: not LIST_FILTER(col, f): {t}")
    lam = t[2][1]
    need(lam[0] == "exp" and lam[1] == "Lambda", "array_remove: second argument is not a Lambda")
    body, vars_ = lam[2]["this"], lam[2]["expressions"]
    need(vars_[0] == "list" and len(vars_[1]) == 1 and vars_[1][0][0] == "ident", "array_remove: lambda does not bind one variable")
    need(body[0] == "exp" and body[1] in CMPOP and body[2]["this"] == vars_[1][0] and is_param(body[2]["expression"], "value"),
         f"array_remove: lambda body is not <var> <op> value: {body}")
    fact("remove", "cmpop", CMPOP[body[1]], ["array_remove", "array_remove_using_filter"])

    # ---- nanvl ------------------------------------------------------------------------------------------------
    t = I.function("nanvl")
    need(t[0] == "method" and t[2] == "otherwise" and len(t[3]) == 1, f"nanvl: not when(..).otherwise(..): {t}")
    w = t[1]
    need(w[0] == "call" and w[1] == "when" and len(w[2]) == 2, "nanvl: not when(cond, value)")
    cond, then_, else_ = w[2][0], w[2][1], t[3][0]
    neg = guard = False
    if cond[0] == "bin" and cond[1] == "or":
        need(cond[2][0] == "isnull" and is_param(cond[2][1], "col1"), f"nanvl: left disjunct is not `col1 IS NULL`: {cond[2]}")
        guard, cond = True, cond[3]
    if cond[0] == "un" and cond[1] == "invert":
        neg, cond = True, cond[2]
    need(cond[0] == "call" and cond[1] == "isnan" and is_param(cond[2][0], "col1"), "nanvl: condition is not [~]isnan(col1)")
    if is_param(then_, "col1") and is_param(else_, "col2"):
        first = True
    elif is_param(then_, "col2") and is_param(else_, "col1"):
        first = False
    else:
        raise Untranslatable("nanvl: branches are not col1 / col2")
    fact("nanvl", "nanvl_cfg", f"mkNanvl {'true' if neg else 'false'} {'true' if first else 'false'} {'true' if guard else 'false'}", ["nanvl", "nanvl_as_case"])

    # ---- sequence ---------------------------------------------------------------------------------------------
    t = I.function("sequence")
    need(t[0] == "anon" and t[1] == "GENERATE_SERIES" and len(t[2]) == 3 and is_param(t[2][0], "start") and is_param(t[2][1], "stop"),
         f"sequence: not GENERATE_SERIES(start, stop, step): {t}")
    d = t[2][2]
    k = int_const(d)
    if k is not None:
        seq = f"(SeqConst ({k}))"
    else:
        need(d[0] == "method" and d[2] == "otherwise" and len(d[3]) == 1 and d[1][0] == "call" and d[1][1] == "when" and len(d[1][2]) == 2,
             f"sequence: default step is neither a literal nor when(start <op> stop, a).otherwise(b): {d}")
        c, asc, desc = d[1][2][0], int_const(d[1][2][1]), int_const(d[3][0])
        need(c[0] == "cmp" and is_param(c[2], "start") and is_param(c[3], "stop"), f"sequence: default step does not compare start with stop: {c}")
        need(asc is not None and desc is not None, "sequence: default steps are not integer literals")
        seq = f"(SeqBySign {CMPOP[c[1]]} ({asc}) ({desc}))"
    t2 = I.function("sequence", present={"step": True})
    need(t2[0] == "anon" and is_param(t2[2][2], "step"), "sequence: explicit step is not passed through")
    fact("seq_default", "seq_default", seq, ["sequence", "sequence_from_generate_series"])

    # ---- date_add / date_sub ----------------------------------------------------------------------------------
    def dshift(name, other, node_cls):
        st = I.duck_statements(name)
        found = None
        for s in st:
            if isinstance(s, ast.If) and ast.unparse(s.test) == "isinstance(days, int)":
                need(len(s.body) == 2 and isinstance(s.body[0], ast.If) and not s.orelse, f"{name}: int branch has another shape")
                inner = s.body[0]
                need(isinstance(inner.test, ast.Compare) and isinstance(inner.test.left, ast.Name) and inner.test.left.id == "days"
                     and len(inner.test.ops) == 1 and type(inner.test.ops[0]) in CMP and isinstance(inner.test.comparators[0], ast.Constant),
                     f"{name}: negative test has another shape")
                need(len(inner.body) == 1 and isinstance(inner.body[0], ast.Return) and isinstance(inner.body[0].value, ast.Call),
                     f"{name}: negative branch does not return a call")
                call = inner.body[0].value
                need(isinstance(call.func, ast.Name) and len(call.args) == 2 and ast.unparse(call.args[0]) == "col", f"{name}: negative branch call shape")
                target = None
                for s2 in st:
                    if isinstance(s2, ast.Assign) and isinstance(s2.targets[0], ast.Name) and s2.targets[0].id == call.func.id \
                            and isinstance(s2.value, ast.Call) and dotted(s2.value.func) == "get_func_from_session":
                        target = s2.value.args[0].value
                need(target in (name, other), f"{name}: negative branch calls {target}")
                arg = call.args[1]
                need(isinstance(arg, ast.BinOp) and isinstance(arg.op, ast.Mult) and ast.unparse(arg.left) == "days", f"{name}: negative count is not days * k")
                mult = py2v.const_eval(arg.right, {})
                need(ast.unparse(s.body[1]) == "days = lit(days)", f"{name}: int count is not turned into a literal")
                found = (CMPOP[CMP[type(inner.test.ops[0])]], inner.test.comparators[0].value, mult, target == other)
        need(found is not None, f"{name}: `if isinstance(days, int)` not found")
        fin = [s for s in st if isinstance(s, ast.Assign) and ast.unparse(s.targets[0]) == "result"]
        need(len(fin) >= 1 and f"expression.{node_cls}" in ast.unparse(fin[0].value) and "expression=days" in ast.unparse(fin[0].value)
             and "Var(this='DAY')" in ast.unparse(fin[0].value), f"{name}: result is not {node_cls}(col, days, DAY)")
        return f"mkDshift {found[0]} ({found[1]}) ({found[2]}) {'true' if found[3] else 'false'}"
    fact("date_add", "dshift_cfg", dshift("date_add", "date_sub", "DateAdd"), ["date_add"])
    fact("date_sub", "dshift_cfg", dshift("date_sub", "date_add", "DateSub"), ["date_sub"])

    # ---- levenshtein ------------------------------------------------------------------------------------------
    t = I.function("levenshtein", present={"threshold": True})
    # case().when(LTE(dist, t), dist).else_(lit(-1))      |      case().when(LTE(dist, t), dist).when(GT(dist, t), lit(-1))
    need(t[0] == "method" and t[2] in ("else_", "when"), f"levenshtein: not case().when()...: {t}")
    w = t[1]
    need(w[0] == "method" and w[2] == "when" and w[1] == ("case0",) and len(w[3]) == 2, "levenshtein: not case().when(c, v)")
    cnd, val = w[3]
    need(cnd[0] == "exp" and cnd[1] in CMPOP and cnd[2]["this"] == val, "levenshtein: condition does not compare the distance itself")
    need(val[0] == "exp" and val[1] == "Levenshtein" and is_param(val[2]["this"], "left") and is_param(val[2]["expression"], "right"),
         "levenshtein: distance is not Levenshtein(left, right)")

    def is_thr(x):
        x = strip(x)
        return x == ("call", "lit", [("param", "threshold")]) or x == ("param", "threshold")
    need(is_thr(cnd[2]["expression"]), "levenshtein: not compared with the threshold")
    if t[2] == "else_":
        need(len(t[3]) == 1, "levenshtein: else_ arity")
        k, else_cmp = int_const(t[3][0]), "None"
    else:
        need(len(t[3]) == 2, "levenshtein: second when arity")
        c2 = t[3][0]
        need(c2[0] == "exp" and c2[1] in CMPOP and c2[2]["this"] == val and is_thr(c2[2]["expression"]),
             f"levenshtein: second condition does not compare the distance with the threshold: {c2}")
        k, else_cmp = int_const(t[3][1]), f"(Some {CMPOP[c2[1]]})"
    need(k is not None, "levenshtein: the out-of-threshold value is not an integer literal")
    fact("lev", "lev_cfg", f"mkLev {CMPOP[cnd[1]]} ({k}) {else_cmp}", ["levenshtein"])

    # ---- unix_millis ------------------------------------------------------------------------------------------
    t = I.function("unix_millis")
    if t[0] == "anon" and t[1] == "EPOCH_MS":
        need(len(t[2]) == 1 and is_param(t[2][0], "col"), f"unix_millis: not EPOCH_MS(col): {t}")
        fact("unix_millis", "millis_cfg", "MillisEpochMs", ["unix_millis"])
    else:
        need(t[0] == "exp" and t[1] == "Cast" and t[2]["to"] == ("dtype", "bigint"), f"unix_millis: neither EPOCH_MS(col) nor CAST(.. AS BIGINT): {t}")
        m = t[2]["this"]
        need(m[0] == "exp" and m[1] == "Mul" and m[2]["this"] == ("call", "unix_seconds", [("param", "col")]), "unix_millis: not unix_seconds(col) * k")
        k = int_const(m[2]["expression"])
        need(k is not None, "unix_millis: multiplier is not an integer literal")
        u = I.function("unix_seconds")
        need(u[0] == "exp" and u[1] == "UnixSeconds" and is_param(u[2]["this"], "col"), "unix_seconds is not UnixSeconds(col)")
        fact("unix_millis", "millis_cfg", f"(MillisFromSeconds ({k}))", ["unix_millis", "unix_millis_multiply_epoch", "unix_seconds"])

    # ---- array_append ------------------------------------------------------------------------------------------
    t = I.function("array_append")
    aguard = False
    wo = when_only(t)
    if wo:
        need(wo[0][0] == "notnull" and is_param(wo[0][1], "col"), f"array_append: guard is not col IS NOT NULL: {wo[0]}")
        aguard, t = True, wo[1]
    need(t[0] == "anon" and t[1] == "LIST_APPEND" and len(t[2]) == 2 and is_param(t[2][0], "col") and is_param(t[2][1], "value"),
         f"array_append: not LIST_APPEND(col, value): {t}")
    fact("append_guard", "bool", "true" if aguard else "false", ["array_append", "array_append_list_append"])

    # ---- left / right -------------------------------------------------------------------------------------------
    for f, cls in (("left", "Left"), ("right", "Right")):
        t = I.function(f)
        need(t[0] == "exp" and t[1] == cls and is_param(t[2]["this"], "str") and set(t[2]) == {"this", "expression"}, f"{f}: not {cls}(str, len): {t}")
        e = t[2]["expression"]
        floor = "None"
        if e[0] == "exp" and e[1] == "Greatest":
            ex = e[2].get("expressions")
            need(is_param(e[2]["this"], "len") and ex and ex[0] == "list" and len(ex[1]) == 1 and int_const(ex[1][0]) is not None,
                 f"{f}: length is not GREATEST(len, k): {e}")
            floor = f"(Some ({int_const(ex[1][0])}))"
        else:
            need(is_param(e, "len"), f"{f}: length is neither len nor GREATEST(len, k): {e}")
        fact(f + "_floor", "option Z", floor, [f])

    # ---- substr -------------------------------------------------------------------------------------------------
    t = I.function("substr", present={"len": True})
    need(t[0] == "exp" and t[1] == "Substring" and is_param(t[2]["this"], "str") and is_param(t[2].get("length"), "len")
         and set(t[2]) == {"this", "start", "length"}, f"substr: not Substring(str, start, len): {t}")
    st_ = t[2]["start"]
    remap = "None"
    wo = when_otherwise(st_)
    if wo:
        c, a, b = wo
        need(c[0] == "cmp" and c[1] == "eq" and is_param(c[2], "pos") and int_const(c[3]) is not None and int_const(a) is not None
             and is_param(b, "pos"), f"substr: start is not when(pos == k0, k1).otherwise(pos): {st_}")
        remap = f"(Some (({int_const(c[3])})%Z, ({int_const(a)})%Z))"
    else:
        need(is_param(st_, "pos"), f"substr: start is neither pos nor a re-mapping of pos: {st_}")
    fact("substr_remap", "option (Z * Z)", remap, ["substr"], "CASE WHEN pos = k0 THEN k1 ELSE pos END")

    # ---- soundex (pure Python UDF in base/util.py, registered as SOUNDEX by duckdb/session.py) ------------------------
    util_tree, util_src = py2v.load(os.path.join(repo, "sqlframe/base/util.py"))
    sx = [n for n in util_tree.body if isinstance(n, ast.FunctionDef) and n.name == "soundex"]
    need(len(sx) == 1, "util.soundex not found")
    sx = sx[0]
    I.used["util.soundex"] = ("util.py", py2v.src_hash(sx, util_src))
    import copy
    fn = copy.deepcopy(sx)
    table, transparent = [None], [None]
    for n in ast.walk(fn):
        if isinstance(n, ast.Assign) and len(n.targets) == 1 and isinstance(n.targets[0], ast.Name) and n.targets[0].id == "replacements":
            v = n.value
            need(isinstance(v, (ast.Tuple, ast.List)) and all(isinstance(e, ast.Tuple) and len(e.elts) == 2 and all(isinstance(c, ast.Constant)
                 and isinstance(c.value, str) for c in e.elts) for e in v.elts), "soundex: replacements is not a literal table of (letters, digit)")
            table[0] = [(e.elts[0].value, e.elts[1].value) for e in v.elts]
            n.value = ast.Constant(value="<TABLE>")
    # the early return for a first character that is not a letter:  original = s (before normalising) ...
    #     if not "A" <= s[0] <= "Z": return original
    early = False
    for k, st in enumerate(list(fn.body)):
        if isinstance(st, ast.If) and not st.orelse and len(st.body) == 1 and isinstance(st.body[0], ast.Return) \
                and ast.unparse(st.test) in ("not 'A' <= s[0] <= 'Z'", "not ('A' <= s[0] <= 'Z')") and isinstance(st.body[0].value, ast.Name):
            keep = st.body[0].value.id
            saves = [j for j, x in enumerate(fn.body[:k]) if isinstance(x, ast.Assign) and ast.unparse(x) == f"{keep} = s"]
            changes = [j for j, x in enumerate(fn.body[:k]) if isinstance(x, ast.Assign) and ast.unparse(x.targets[0]) == "s"]
            need(len(saves) == 1 and all(saves[0] < j for j in changes) and any("s.upper()" in ast.unparse(fn.body[j]) for j in changes),
                 "soundex: the early return does not return the untouched input after upper-casing")
            early = True
            fn.body = [x for j, x in enumerate(fn.body) if j not in (k, saves[0])]
            break
    # the inner for-else over the table, inside the loop over the letters: its else-branch decides what an uncoded letter does
    outer = [n for n in ast.walk(fn) if isinstance(n, ast.For) and isinstance(n.target, ast.Name) and n.target.id == "letter"]
    need(len(outer) == 1, "soundex: loop over the letters not found")
    inner = [n for n in outer[0].body if isinstance(n, ast.For) and n.orelse]
    need(len(inner) == 1, "soundex: for-else over the replacement table not found")
    oe = inner[0].orelse
    if len(oe) == 1 and ast.unparse(oe[0]) == "last = None":
        transparent[0] = []
    else:
        need(len(oe) == 1 and isinstance(oe[0], ast.If) and not oe[0].orelse and len(oe[0].body) == 1 and ast.unparse(oe[0].body[0]) == "last = None",
             "soundex: else-branch is neither `last = None` nor `if <letter is not one of ..>: last = None`")
        tst = oe[0].test
        conds = tst.values if isinstance(tst, ast.BoolOp) and isinstance(tst.op, ast.And) else [tst]
        letters = []
        for c in conds:
            if isinstance(c, ast.Compare) and len(c.ops) == 1 and isinstance(c.left, ast.Name) and c.left.id == "letter" and isinstance(c.comparators[0], ast.Constant):
                if isinstance(c.ops[0], ast.NotEq) and isinstance(c.comparators[0].value, str) and len(c.comparators[0].value) == 1:
                    letters.append(c.comparators[0].value)
                    continue
                if isinstance(c.ops[0], ast.NotIn) and isinstance(c.comparators[0].value, str):
                    letters += list(c.comparators[0].value)
                    continue
            raise Untranslatable(f"soundex: condition not understood: {ast.unparse(c)}")
        transparent[0] = letters
    inner[0].orelse = [ast.Expr(value=ast.Constant(value="<ELSE>"))]
    need(table[0] is not None, "soundex: replacements table not found")
    shape = py2v.norm_hash(fn)
    need(shape == SOUNDEX_SHAPE, f"soundex: the body around the table and the else-branch changed (normalised hash {shape}, expected {SOUNDEX_SHAPE})")
    for letters, digit in table[0]:
        need(letters.isascii() and letters.isalpha() and letters == letters.upper() and len(digit) == 1 and digit.isdigit(), "soundex: table entry not upper-case letters -> digit")
    need(all(len(x) == 1 and x.isascii() for x in transparent[0]), "soundex: transparent letters not single ASCII characters")
    sess = open(os.path.join(repo, "sqlframe/duckdb/session.py")).read()
    need('create_function("SOUNDEX", lambda x: soundex(x)' in sess and "from sqlframe.base.util import soundex" in sess,
         "duckdb/session.py no longer registers util.soundex as SOUNDEX")
    t = I.function("soundex")
    need(t[0] == "anon" and t[1] == "SOUNDEX" and len(t[2]) == 1 and is_param(t[2][0], "col"), f"functions.soundex is not SOUNDEX(col): {t}")
    tbl = "[" + "; ".join("([" + "; ".join(str(ord(ch)) for ch in letters) + f"], {ord(digit)})" for letters, digit in table[0]) + "]"
    fact("soundex", "soundex_cfg", f"mkSoundex {tbl} [" + "; ".join(str(ord(x)) for x in transparent[0]) + "] " + ("true" if early else "false"), ["soundex", "util.soundex"],
         "replacement table, the letters skipped without forgetting the last code, and whether a string whose first character is not a letter is "
         "returned unchanged; the rest of the body is pinned by its normalised hash")

    # ---- concat ---------------------------------------------------------------------------------------------------
    st = I.duck_statements("concat")
    src = [ast.unparse(x) for x in st]
    if len(st) == 1 and src[0] == "return Column.invoke_expression_over_column(None, expression.Concat, expressions=cols)":
        cglue = "GlueConcat"
    else:
        need(len(st) == 3 and src[0] == "result = Column.ensure_col(cols[0]).column_expression" and isinstance(st[1], ast.For)
             and ast.unparse(st[1].target) == "other" and ast.unparse(st[1].iter) == "cols[1:]" and len(st[1].body) == 1 and not st[1].orelse
             and ast.unparse(st[1].body[0]) == "result = expression.DPipe(this=result, expression=Column.ensure_col(other).column_expression)"
             and src[2] == "return Column(result)", "concat: DuckDB path is neither Concat(cols) nor a left fold of || over cols: " + " ; ".join(src)[:300])
        cglue = "GluePipes"
    fact("concat_glue", "glue", cglue, ["concat"])

    # ---- trunc / date_trunc unit spellings --------------------------------------------------------------------------
    table = {}
    for n in I.fn_tree.body:
        if isinstance(n, ast.Assign) and len(n.targets) == 1 and isinstance(n.targets[0], ast.Name) and n.targets[0].id == "_TRUNC_UNIT_SPELLINGS":
            need(isinstance(n.value, ast.Dict) and all(isinstance(k, ast.Constant) and isinstance(v, ast.Constant) and isinstance(k.value, str)
                                                      and isinstance(v.value, str) for k, v in zip(n.value.keys, n.value.values)),
                 "_TRUNC_UNIT_SPELLINGS is not a literal str -> str dict")
            table = {k.value: v.value for k, v in zip(n.value.keys, n.value.values)}
    used = []
    for f, cls in (("date_trunc", "TimestampTrunc"), ("trunc", "DateTrunc")):
        d = I.FN[f]
        I.used[f] = ("functions.py", py2v.src_hash(d, I.fn_src))
        units = [k.value for c in ast.walk(d) if isinstance(c, ast.Call) for k in c.keywords if k.arg == "unit"]
        need(len(units) == 1, f"{f}: unit= not found once")
        u = ast.unparse(units[0])
        if u == "lit(format)":
            used.append(False)
        else:
            need(u == "lit(_TRUNC_UNIT_SPELLINGS.get(format.lower(), format))", f"{f}: unit is neither lit(format) nor the spelling lookup: {u}")
            used.append(True)
        need(f"expression.{cls}" in ast.unparse(d), f"{f}: does not build {cls}")
    need(len(set(used)) == 1, "trunc and date_trunc treat the unit differently")
    pairs = sorted(table.items()) if used[0] else []
    for k, v in pairs:
        need(k == k.lower() and k.isascii() and v.isascii() and k.isalnum() and v.isalnum(), "unit spelling table entry is not a plain lower-case word")
    fact("trunc_units", "list (string * string)", "[" + "; ".join(f'("{k}", "{v}")' for k, v in pairs) + "]%string", ["trunc", "date_trunc"],
         "Spark spelling -> spelling passed to the engine (lower-cased lookup, identity when absent)")

    L.append("Definition c17_facts : facts := mkFacts c17_slice c17_element_at c17_try_element_at c17_getitem "
             "c17_array_min_idx c17_array_max_idx c17_pos c17_fact c17_rint c17_dow c17_overlay c17_overlap c17_union "
             "c17_remove c17_nanvl c17_seq_default c17_date_add c17_date_sub c17_lev c17_unix_millis "
             "c17_slice_rebase c17_fact_guard c17_union_guard c17_overlay_glue c17_concat_glue c17_append_guard c17_left_floor c17_right_floor c17_substr_remap c17_soundex.")
    return "\n".join(L) + "\n", facts


if __name__ == "__main__":
    import sys
    text, facts = generate(sys.argv[1] if len(sys.argv) > 1 else "/repo")
    print(text)
