"""T1 for C02: regenerate from /repo (fail-closed, Python `ast`) the facts the `how` theorems are parametric in:

  * JOIN_TYPE_MAPPING                                                   (dataframe.py, module level)
  * join(): the literals of the two `"cross" [not] in how` tests and the values assigned to `how` there,
            `join_type = JOIN_TYPE_MAPPING.get(how, how).replace(X, Y)`,
            `join_type in [..]` (left columns only), `join_type != ".."` (no ON), `join_type == ".."` (COALESCE of the keys),
            that the key columns are put in front and the select list is built from self_columns (+ other_columns)
  * _resolve_ambiguous_columns(): the literal the first join's `side` is compared with, and that equality means "reversed"

Only these shapes are read; everything else in the methods may change freely.  Anything that is not recognised raises
Untranslatable (reported by the check as a broken T1 tie)."""
from __future__ import annotations

import ast
import os

from vlib import py2v
from vlib.core import strlit, listlit
from vlib.py2v import Untranslatable, dotted


def _const_str(n, what):
    if isinstance(n, ast.Constant) and isinstance(n.value, str):
        return n.value
    raise Untranslatable(f"{what}: not a string literal ({ast.dump(n)[:80]})")


def mapping(tree):
    for st in tree.body:
        if isinstance(st, ast.Assign) and len(st.targets) == 1 and dotted(st.targets[0]) == "JOIN_TYPE_MAPPING":
            if not isinstance(st.value, ast.Dict):
                raise Untranslatable("JOIN_TYPE_MAPPING is not a dict literal")
            out = []
            for k, v in zip(st.value.keys, st.value.values):
                out.append((_const_str(k, "JOIN_TYPE_MAPPING key"), _const_str(v, "JOIN_TYPE_MAPPING value")))
            if len({k for k, _ in out}) != len(out):
                raise Untranslatable("JOIN_TYPE_MAPPING has duplicate keys")
            return out, st
    raise Untranslatable("JOIN_TYPE_MAPPING not found")


def _is_name(n, name):
    return isinstance(n, ast.Name) and n.id == name


def _on_none_test(test):
    """classify `(on is None) and ("cross" not in how)` / `(on is not None) and ("cross" in how)`;
    returns ('none'|'some', literal) or None"""
    if not (isinstance(test, ast.BoolOp) and isinstance(test.op, ast.And) and len(test.values) == 2):
        return None
    a, b = test.values
    if not (isinstance(a, ast.Compare) and _is_name(a.left, "on") and len(a.ops) == 1
            and isinstance(a.comparators[0], ast.Constant) and a.comparators[0].value is None):
        return None
    if isinstance(b, ast.Compare) and len(b.ops) == 1 and _is_name(b.left, "how") and isinstance(b.ops[0], ast.Eq) \
            and isinstance(a.ops[0], ast.Is):
        # (on is None) and (how == "inner"): only the inner join without a condition becomes the product
        return "none_eq", _const_str(b.comparators[0], "literal of the `how ==` test")
    if not (isinstance(b, ast.Compare) and len(b.ops) == 1 and _is_name(b.comparators[0], "how")):
        return None
    lit = _const_str(b.left, "literal of the cross test")
    if isinstance(a.ops[0], ast.Is) and isinstance(b.ops[0], ast.NotIn):
        return "none", lit
    if isinstance(a.ops[0], ast.IsNot) and isinstance(b.ops[0], ast.In):
        return "some", lit
    raise Untranslatable("cross test: unexpected operator combination " + ast.unparse(test))


def join_facts(fn: ast.FunctionDef):
    f = {}
    # --- the two `if`s that rewrite `how`
    for st in fn.body:
        if isinstance(st, ast.If):
            r = _on_none_test(st.test)
            if r is None:
                continue
            which, lit = r
            if st.orelse:
                raise Untranslatable("cross test has an else branch")
            assigns = [x for x in st.body if isinstance(x, ast.Assign)]
            others = [x for x in st.body if not isinstance(x, (ast.Assign, ast.Expr))]
            if others or len(assigns) != 1 or not _is_name(assigns[0].targets[0], "how"):
                raise Untranslatable("body of the cross test is not a single `how = <literal>`")
            val = _const_str(assigns[0].value, "value assigned to how")
            f["none_eq"] = f.get("none_eq", False) or which == "none_eq"
            which = "none" if which == "none_eq" else which
            if which in f:
                raise Untranslatable(f"two `on is {'None' if which == 'none' else 'not None'}` tests")
            f[which] = (lit, val)
    if "none" not in f or "some" not in f:
        raise Untranslatable("join(): the `on is None` / `on is not None` cross tests were not both found")
    # `how` must not be rewritten anywhere else (e.g. lower-cased): the model would not know
    n_assign = 0
    for st in ast.walk(fn):
        tg = []
        if isinstance(st, ast.Assign):
            tg = st.targets
        elif isinstance(st, (ast.AugAssign, ast.AnnAssign)):
            tg = [st.target]
        elif isinstance(st, ast.NamedExpr):
            tg = [st.target]
        n_assign += sum(1 for t_ in tg for x in ast.walk(t_) if _is_name(x, "how"))
    # ... except for Spark's own normalisation as the very first rewrite:  how = how.lower().replace("_", "")
    f["norm"] = False
    first_if = min((st.lineno for st in fn.body if isinstance(st, ast.If) and _on_none_test(st.test) is not None))
    for st in fn.body:
        if isinstance(st, ast.Assign) and len(st.targets) == 1 and _is_name(st.targets[0], "how"):
            if ast.unparse(st.value) == "how.lower().replace('_', '')" and st.lineno < first_if and not f["norm"]:
                f["norm"] = True
            else:
                raise Untranslatable("join(): unexpected top-level assignment to `how`: " + ast.unparse(st))
    if n_assign != 2 + (1 if f["norm"] else 0):
        raise Untranslatable(f"join(): `how` is assigned {n_assign} times (the model knows the normalisation and the two "
                             "cross rewrites only)")
    # --- join_type = JOIN_TYPE_MAPPING.get(how, how).replace(X, Y)
    jt = [st for st in ast.walk(fn) if isinstance(st, ast.Assign) and len(st.targets) == 1 and _is_name(st.targets[0], "join_type")]
    if len(jt) != 1:
        raise Untranslatable(f"join(): {len(jt)} assignments to join_type")
    v = jt[0].value
    ok = (isinstance(v, ast.Call) and isinstance(v.func, ast.Attribute) and v.func.attr == "replace" and len(v.args) == 2
          and not v.keywords and isinstance(v.func.value, ast.Call) and dotted(v.func.value.func) == "JOIN_TYPE_MAPPING.get"
          and len(v.func.value.args) == 2 and all(_is_name(a, "how") for a in v.func.value.args))
    if not ok:
        raise Untranslatable("join_type is not JOIN_TYPE_MAPPING.get(how, how).replace(X, Y): " + ast.unparse(v))
    rf, rt = _const_str(v.args[0], "replace from"), _const_str(v.args[1], "replace to")
    if len(rf) != 1 or len(rt) != 1:
        raise Untranslatable("replace(): only single characters are modelled")
    f["replace"] = (rf, rt)
    # --- the text given to sqlglot is join_type
    joins = [c for c in ast.walk(fn) if isinstance(c, ast.Call) and isinstance(c.func, ast.Attribute) and c.func.attr == "join"
             and any(k.arg == "join_type" for k in c.keywords)]
    if len(joins) != 1 or not _is_name([k for k in joins[0].keywords if k.arg == "join_type"][0].value, "join_type"):
        raise Untranslatable("join(): `.join(..., join_type=join_type)` not found exactly once")
    # --- comparisons of join_type with literals
    left_only = cross_eq = full_eq = None
    parents = {}
    for p in ast.walk(fn):
        for ch in ast.iter_child_nodes(p):
            parents[ch] = p
    for c in ast.walk(fn):
        if not (isinstance(c, ast.Compare) and _is_name(c.left, "join_type") and len(c.ops) == 1):
            continue
        op, rhs = c.ops[0], c.comparators[0]
        par = parents.get(c)
        if isinstance(op, ast.In):
            if not isinstance(rhs, (ast.List, ast.Tuple, ast.Set)):
                raise Untranslatable("join_type in <non-literal>")
            vals = [_const_str(x, "element of the semi/anti list") for x in rhs.elts]
            # must select <left columns> when true, <left columns> + <right columns> otherwise (whatever the locals are called)
            ok_shape = (isinstance(par, ast.IfExp) and par.test is c and isinstance(par.body, ast.Name)
                        and isinstance(par.orelse, ast.BinOp) and isinstance(par.orelse.op, ast.Add)
                        and isinstance(par.orelse.left, ast.Name) and isinstance(par.orelse.right, ast.Name)
                        and par.orelse.left.id == par.body.id and par.orelse.right.id != par.body.id)
            if ok_shape:
                def origin(name):
                    vs = [st.value for st in ast.walk(fn) if isinstance(st, ast.Assign) and len(st.targets) == 1
                          and _is_name(st.targets[0], name)]
                    if len(vs) != 1 or not (isinstance(vs[0], ast.Call) and isinstance(vs[0].func, ast.Attribute)
                                            and vs[0].func.attr == "_get_outer_select_columns" and len(vs[0].args) == 1):
                        raise Untranslatable(f"`{name}` is not assigned once from _get_outer_select_columns(...)")
                    return ast.unparse(vs[0].args[0])
                ok_shape = origin(par.body.id) == "join_expression" and origin(par.orelse.right.id) == "other_df.expression"
            if not ok_shape:
                raise Untranslatable("`join_type in [...]` does not choose between the left columns and left + right columns")
            if left_only is not None:
                raise Untranslatable("two `join_type in` tests")
            left_only = vals
        elif isinstance(op, ast.NotEq):
            if not (isinstance(par, ast.If) and par.test is c):
                raise Untranslatable("`join_type != ..` is not the test of an if statement")
            if cross_eq is not None:
                raise Untranslatable("two `join_type !=` tests")
            cross_eq = _const_str(rhs, "join_type != literal")
            # the else branch must be the no-ON path: join_clause = None
            src_else = "\n".join(ast.unparse(x) for x in par.orelse)
            if "join_clause = None" not in src_else:
                raise Untranslatable("else branch of `join_type != ..` does not set join_clause = None")
            # a kept kind without a condition needs its own branch: if on is None: join_clause = lit(True); names of both sides
            first = par.body[0] if par.body else None
            has_true_branch = (isinstance(first, ast.If) and isinstance(first.test, ast.Compare) and _is_name(first.test.left, "on")
                               and len(first.test.ops) == 1 and isinstance(first.test.ops[0], ast.Is)
                               and isinstance(first.test.comparators[0], ast.Constant) and first.test.comparators[0].value is None)
            if has_true_branch:
                src_b = "\n".join(ast.unparse(x) for x in first.body)
                if "join_clause = lit(True)" not in src_b or \
                        "select_column_names = [column.alias_or_name for column in select_columns]" not in src_b:
                    raise Untranslatable("the `on is None` branch does not join ON TRUE with the names of the selected sides")
            f["true_branch"] = has_true_branch
        elif isinstance(op, ast.Eq):
            if not (isinstance(par, ast.IfExp) and par.test is c):
                raise Untranslatable("`join_type == ..` is not the test of a conditional expression")
            calls = [dotted(x.func) for x in ast.walk(par.body) if isinstance(x, ast.Call)]
            if "coalesce" not in calls:
                raise Untranslatable("`join_type == ..` does not guard the coalesce(...) of the key columns")
            if "coalesce" in [dotted(x.func) for x in ast.walk(par.orelse) if isinstance(x, ast.Call)]:
                raise Untranslatable("coalesce(...) on both branches")
            if full_eq is not None:
                raise Untranslatable("two `join_type ==` tests")
            full_eq = _const_str(rhs, "join_type == literal")
        else:
            raise Untranslatable("comparison of join_type with operator " + type(op).__name__)
    if left_only is None or cross_eq is None or full_eq is None:
        raise Untranslatable("join(): one of the join_type tests (in [...], != .., == ..) was not found")
    f["left_only"], f["cross_eq"], f["full_eq"] = left_only, cross_eq, full_eq
    if f.get("none_eq") and not f.get("true_branch"):
        raise Untranslatable("`how == ..` rewrite without an `on is None` branch that joins ON TRUE")
    # --- key columns in front
    front = [st for st in ast.walk(fn) if isinstance(st, ast.Assign) and _is_name(st.targets[0], "select_column_names")
             and isinstance(st.value, ast.BinOp) and isinstance(st.value.op, ast.Add)]
    if len(front) != 1 or not (_is_name(front[0].value.left, "join_column_names") and _is_name(front[0].value.right, "select_column_names")):
        raise Untranslatable("`select_column_names = join_column_names + select_column_names` not found")
    return f


def ambiguous_facts(fn: ast.FunctionDef):
    hits = []
    for c in ast.walk(fn):
        if isinstance(c, ast.IfExp) and isinstance(c.test, ast.Compare) and len(c.test.ops) == 1:
            t = c.test
            l = t.left
            if isinstance(l, ast.Name):
                # tolerate `side = <...>.get("side", ""); ... if side == "right"`
                vs = [st.value for st in ast.walk(fn) if isinstance(st, ast.Assign) and len(st.targets) == 1
                      and _is_name(st.targets[0], l.id)]
                if len(vs) == 1:
                    l = vs[0]
            if isinstance(l, ast.Call) and isinstance(l.func, ast.Attribute) and l.func.attr == "get" and l.args \
                    and isinstance(l.args[0], ast.Constant) and l.args[0].value == "side":
                if not isinstance(t.ops[0], ast.Eq):
                    raise Untranslatable("side test is not ==")
                src = ast.unparse(l)
                if "['joins'][0]" not in src:
                    raise Untranslatable("side is not read from the first join: " + src)
                body, orelse = ast.unparse(c.body), ast.unparse(c.orelse)
                if not ("reversed(" in body and "reversed(" not in orelse and "self.expression.ctes" in body
                        and orelse == "self.expression.ctes"):
                    raise Untranslatable("side test does not choose reversed(ctes) / ctes")
                hits.append(_const_str(t.comparators[0], "side literal"))
    if len(hits) != 1:
        raise Untranslatable(f"_resolve_ambiguous_columns: {len(hits)} side tests")
    return hits[0]


def self_join_rule(tree):
    """_handle_self_join: which references through a DataFrame are re-targeted to the right table.
    Returns True when, besides `uuid in other_df.known_uuids - self.known_uuids`, a reference whose uuid is that of the very
    DataFrame passed to join() (`== other_uuid`, given as other.join_on_uuid at the call site) is re-targeted too."""
    fn = py2v.find_method(tree, "BaseDataFrame", "_handle_self_join")
    join = py2v.find_method(tree, "BaseDataFrame", "join")
    sets = [st for st in ast.walk(fn) if isinstance(st, ast.Assign) and _is_name(st.targets[0], "other_df_unique_uuids")]
    if len(sets) != 1 or ast.unparse(sets[0].value) != "other_df.known_uuids - self.known_uuids":
        raise Untranslatable("_handle_self_join: other_df_unique_uuids is not other_df.known_uuids - self.known_uuids")
    tests = [n for n in ast.walk(fn) if isinstance(n, ast.If) and "join_on_uuid" in ast.unparse(n.test)]
    if len(tests) != 1:
        raise Untranslatable(f"_handle_self_join: {len(tests)} tests on join_on_uuid")
    src = ast.unparse(tests[0].test)
    old = "'join_on_uuid' in col_expr.meta and col_expr.meta['join_on_uuid'] in other_df_unique_uuids"
    new = ("'join_on_uuid' in col_expr.meta and (col_expr.meta['join_on_uuid'] in other_df_unique_uuids or "
           "col_expr.meta['join_on_uuid'] == other_uuid)")
    body = "\n".join(ast.unparse(x) for x in tests[0].body)
    if "col_expr.set('table', exp.to_identifier(other_df.latest_cte_name))" not in body:
        raise Untranslatable("_handle_self_join: the reference is not re-targeted to other_df.latest_cte_name")
    calls = [c for c in ast.walk(join) if isinstance(c, ast.Call) and dotted(c.func) == "self._handle_self_join"]
    if len(calls) != 1:
        raise Untranslatable("join(): _handle_self_join is not called exactly once")
    args = [ast.unparse(a) for a in calls[0].args] + [f"{k.arg}={ast.unparse(k.value)}" for k in calls[0].keywords]
    if src == old and args == ["other_df", "join_columns"]:
        return False
    params = [a.arg for a in fn.args.args]
    if src == new and params[:4] == ["self", "other_df", "join_columns", "other_uuid"] and \
            args in (["other_df", "join_columns", "other.join_on_uuid"], ["other_df", "join_columns", "other_uuid=other.join_on_uuid"]):
        return True
    raise Untranslatable("_handle_self_join: unknown re-targeting rule: " + src + " / call " + ", ".join(args))


def rename_in_place(tree):
    """_add_ctes_to_expression: are the right side's CTEs that follow a renamed duplicate rewritten IN PLACE
    (cte.transform(replace_id_value, replaced_cte_names, copy=False)) -- then join() sees their new names through
    other_df.latest_cte_name -- or on a copy (sqlglot's default), which leaves the stale name behind?"""
    fn = py2v.find_method(tree, "BaseDataFrame", "_add_ctes_to_expression")
    # (other .transform calls in the function work on cte.this -- the inline sources' aliases -- and are not this rewrite)
    calls = [c for c in ast.walk(fn) if isinstance(c, ast.Call) and isinstance(c.func, ast.Attribute) and c.func.attr == "transform"
             and ast.unparse(c.func.value) == "cte"]
    if len(calls) != 1 or [ast.unparse(a) for a in calls[0].args] != ["replace_id_value", "replaced_cte_names"]:
        raise Untranslatable("_add_ctes_to_expression: cte.transform(replace_id_value, replaced_cte_names ...) not found exactly once")
    kws = {k.arg: k.value for k in calls[0].keywords}
    if not kws:
        return False
    if list(kws) == ["copy"] and isinstance(kws["copy"], ast.Constant) and isinstance(kws["copy"].value, bool):
        return not kws["copy"].value
    raise Untranslatable("_add_ctes_to_expression: unexpected keywords of cte.transform: " + ", ".join(map(str, kws)))


def generate(repo: str):
    path = os.path.join(repo, "sqlframe/base/dataframe.py")
    tree, src = py2v.load(path)
    m, m_node = mapping(tree)
    join = py2v.find_method(tree, "BaseDataFrame", "join")
    amb = py2v.find_method(tree, "BaseDataFrame", "_resolve_ambiguous_columns")
    jf = join_facts(join)
    right = ambiguous_facts(amb)
    exact = self_join_rule(tree)
    in_place = rename_in_place(tree)

    def ch(c):
        if not (32 <= ord(c) < 127) or c == '"':
            raise Untranslatable(f"character {c!r}")
        return f'"{c}"%char'
    L = ["(* GENERATED from /repo on every run by translate/c02_facts.py -- do not edit *)",
         "From Coq Require Import Ascii String List.",
         "From SF Require Import C02.How.",
         "Import ListNotations.",
         "Definition gen_cfg : howcfg :=",
         "  mkHowCfg",
         "    " + listlit([f"({strlit(k)}, {strlit(v)})" for k, v in m]),
         f"    {strlit(jf['none'][0])} {strlit(jf['none'][1])} {strlit(jf['some'][0])} {strlit(jf['some'][1])}",
         f"    {ch(jf['replace'][0])} {ch(jf['replace'][1])}",
         "    " + listlit([strlit(x) for x in jf["left_only"]]),
         f"    {strlit(jf['cross_eq'])} {strlit(jf['full_eq'])} {strlit(right)} {'true' if jf['norm'] else 'false'} "
         f"{'true' if jf.get('none_eq') else 'false'}.",
         "(* facts the harness uses when it observes the lineage of a case (not parameters of the model) *)",
         f"Definition gen_self_join_exact : bool := {'true' if exact else 'false'}.",
         f"Definition gen_rename_in_place : bool := {'true' if in_place else 'false'}."]
    facts = [
        {"name": "JOIN_TYPE_MAPPING", "from": "dataframe.py (module level)", "hash": py2v.src_hash(m_node, src), "value": dict(m)},
        {"name": "cross test, on is None", "from": "dataframe.py: join", "value": list(jf["none"])},
        {"name": "cross test, on is not None", "from": "dataframe.py: join", "value": list(jf["some"])},
        {"name": "replace", "value": list(jf["replace"])},
        {"name": "left-columns-only list", "value": jf["left_only"]},
        {"name": "join_type != (no ON)", "value": jf["cross_eq"]},
        {"name": "join_type == (COALESCE keys)", "value": jf["full_eq"]},
        {"name": "first join side == (right-to-left resolution)", "from": "dataframe.py: _resolve_ambiguous_columns", "value": right},
        {"name": "how normalised like Spark (lower-case, no underscores) before anything else", "value": jf["norm"]},
        {"name": "without a condition only how == <literal> becomes the product, other kinds are joined ON TRUE", "value": bool(jf.get("none_eq"))},
        {"name": "_handle_self_join also re-targets references taken from the very DataFrame being joined", "value": exact,
         "used_by": "harness: the `uo` bit of a reference through a DataFrame (observed lineage)"},
        {"name": "renamed duplicate CTEs are rewritten in place (no stale other_df.latest_cte_name)", "value": in_place,
         "used_by": "harness: the `stale` observation of a join step"},
        {"name": "join() source", "hash": py2v.src_hash(join, src)},
        {"name": "_resolve_ambiguous_columns source", "hash": py2v.src_hash(amb, src)},
    ]
    return "\n".join(L) + "\n", facts
